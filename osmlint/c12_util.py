"""Helpers shared by the C12 (index maps) and C15 (id sets / relation maps / item stash) rule modules.

No verdicts here, only fact-base queries:
  * canonical expression text with trivial `this` getters inlined (`size()` == `m_vector.size()`)
  * GUARD: bounds evidence for `container[index]` on vector-like members (dominating size comparison, resize(index + 1),
    or a callee of the same class that establishes it on every normal exit)
  * SORTED-lite: comparator key extraction (lambda / operator< / std::pair / std::tie), sort and binary-search sites
    (osmlint/sorted.py did not exist when this was written)
  * value provenance of a returned expression (vector slot, iterator field, empty_value(), forwarded method)
  * an "inlined getter" view of a function so that ERRDISC can evaluate `if (!is_valid())`
"""
import copy

from . import errdisc as E
from .charset import Bits, Unsupported, int_type, ZERO
from .flow import path_search

CMP = ('<', '<=', '>', '>=', '==', '!=')
FLIP = {'<': '>', '<=': '>=', '>': '<', '>=': '<=', '==': '==', '!=': '!='}
NEG = {'<': '>=', '<=': '>', '>': '<=', '>=': '<', '==': '!=', '!=': '=='}

VECTOR_CLASSES = ('std::vector', 'osmium::detail::mmap_vector_base', 'osmium::detail::mmap_vector_anon',
                  'osmium::detail::mmap_vector_file')
SEARCHES = ('std::lower_bound', 'std::upper_bound', 'std::equal_range', 'std::binary_search')
SORTS = ('std::sort', 'std::stable_sort')


def is_exit(e):
    return isinstance(e, tuple) and e[0] == 'exit'


def strip_casts(fn, nid):
    """strip wrappers, implicit / explicit casts, elidable or copy/move constructions and std::move / std::forward."""
    hops = 0
    while nid is not None and nid in fn.nodes and hops < 60:
        hops += 1
        n = fn.nodes[nid]
        k = n.get('k')
        if k in ('wrap', 'icast', 'cast') and 'sub' in n:
            nid = n['sub']
        elif k == 'construct' and (n.get('elidable') or n.get('copymove')) and len(n.get('args', [])) == 1:
            nid = n['args'][0]
        elif k == 'call' and n.get('q') in ('std::move', 'std::forward') and n.get('args'):
            nid = n['args'][0]
        else:
            break
    return nid


def scn(fn, nid):
    x = strip_casts(fn, nid)
    return fn.nodes.get(x) if x is not None else None


def throw_ids(fn):
    return {n['id'] for n in fn.all_nodes() if n.get('k') == 'throw' or (n.get('k') in ('call', 'construct') and n.get('noret'))}


def must_pass(fn, start_block, barrier_ids, edge_ok=None):
    """every path from the start of start_block to the normal exit passes one of barrier_ids (throws end a path).
    Returns a witness path of the violation or None."""
    bar = set(barrier_ids) | throw_ids(fn)
    return path_search(fn, start_block, is_exit, lambda e: e in bar, edge_ok, from_block_start=True)


def must_pass_after(fn, start_node, barrier_ids, edge_ok=None, targets=()):
    bar = set(barrier_ids) | throw_ids(fn)
    tg = set(targets)
    return path_search(fn, start_node, lambda e: is_exit(e) or e in tg, lambda e: e in bar, edge_ok)


def cond_blocks(fn):
    for b in fn.blocks.values():
        if 'cond' in b and len(b['succs']) == 2 and b.get('termcls') != 'SwitchStmt':
            yield b


def branch_cond(fn, blk):
    """The condition a two-way block branches on.  Normally the short-circuit CFG evaluates `a || b` in two blocks and the
    second one branches on b (errdisc.effective_cond).  When the operands need temporaries clang materialises the value of
    the logical operator in a join block (the operator itself is an element of that block): its edges then carry the value
    of the whole expression."""
    c = blk.get('cond')
    x = fn.strip(c) if c is not None else None
    n = fn.nodes.get(x) if x is not None else None
    if n is not None and n.get('k') == 'binop' and n.get('op') in ('&&', '||') and (x in blk['elems'] or c in blk['elems']):
        return c
    return E.effective_cond(fn, blk)


def _expand(fn, cond, sense, out, depth=0):
    out.append((cond, sense))
    n = fn.sn(cond)
    if n is None:
        return
    if n.get('k') == 'var' and n.get('vk') == 'local' and depth < 3 and n['d'] not in assigned_vars(fn):
        # `const bool missing = (it == end);  if (missing)`: the named test was evaluated where the local is initialised
        init = local_init(fn, n['d'])
        if init is not None:
            _expand(fn, init, sense, out, depth + 1)
        return
    if n.get('k') == 'binop' and ((n['op'] == '&&' and sense) or (n['op'] == '||' and not sense)):
        _expand(fn, n['lhs'], sense, out)
        _expand(fn, n['rhs'], sense, out)
    elif n.get('k') == 'unop' and n['op'] == '!':
        _expand(fn, n['sub'], not sense, out)


def edge_facts(fn, blk, idx):
    """[(cond id, sense)] known to hold when successor idx (0 true / 1 false) of the two-way block is taken."""
    out = []
    _expand(fn, branch_cond(fn, blk), idx == 0, out)
    return out


def guards(fn, nid):
    """[(cond id, sense, block id, other successor)]: atomic conditions that must have evaluated to `sense` for element nid
    to execute (edge dominance as in errdisc.guards, plus materialised logical operators)."""
    pos = fn.positions()
    if nid not in pos:
        return []
    b0 = pos[nid][0]
    dom = fn.dominators()
    preds = fn.preds()
    out = []
    for d in dom.get(b0, ()):
        blk = fn.blocks[d]
        if 'cond' not in blk or len(blk['succs']) != 2 or blk.get('termcls') == 'SwitchStmt':
            continue
        t, f = blk['succs']
        if t is None or f is None or t == f:
            continue
        for idx, s in ((0, t), (1, f)):
            if not (s == b0 or s in dom.get(b0, ())):
                continue
            if all(p == d or s in dom.get(p, ()) for p in preds.get(s, [])):
                for (c, sense) in edge_facts(fn, blk, idx):
                    out.append((c, sense, d, blk['succs'][1 - idx]))
    return out


def unnegate(fn, cond):
    """-> (inner cond id, polarity) with leading `!` folded."""
    pol = True
    n = scn(fn, cond)
    while n is not None and n.get('k') == 'unop' and n.get('op') == '!':
        pol = not pol
        cond = n['sub']
        n = scn(fn, cond)
    return cond, pol


# ------------------------------------------------------------------------------------------------ getters / canonical text

def _callee_for(fb, fn, call):
    gs = fb.by_usr.get(call.get('u'), [])
    if not gs:
        return None
    for g in gs:
        if g.clsT is not None and g.clsT == fn.clsT:
            return g
    return gs[0]


def getter_body(fb, fn, call):
    """call on `this` to a method without arguments whose body is a single `return E;` (no assignments, declarations,
    throws) -> (callee Fn, E node id), else None."""
    if call.get('k') != 'call' or call.get('args') or 'u' not in call or call.get('op'):
        return None
    r = fn.sn(call['recv']) if call.get('recv') is not None else None
    if r is None or r.get('k') != 'this':
        return None
    g = _callee_for(fb, fn, call)
    if g is None or not g.has_cfg or g.params:
        return None
    rets = [n for n in g.all_nodes() if n.get('k') == 'return']
    if len(rets) != 1 or 'sub' not in rets[0]:
        return None
    for n in g.all_nodes():
        if n.get('k') in ('assign', 'decl', 'throw') or (n.get('k') == 'unop' and n.get('op') in ('++', '--')):
            return None
    return g, rets[0]['sub']


def ctext(fb, fn, nid, depth=0):
    """canonical text of an expression; trivial getters of `this` are replaced by the expression they return, value
    preserving wrappers are dropped.  Two expressions of the same class with equal text denote the same value as long as
    the variables they read are not modified in between."""
    if nid is None or nid not in fn.nodes or depth > 40:
        return '?'
    n = fn.nodes[nid]
    k = n.get('k')
    e = lambda x: ctext(fb, fn, x, depth + 1)
    if k in ('wrap', 'icast') and 'sub' in n:
        return e(n['sub'])
    if k == 'construct' and (n.get('elidable') or n.get('copymove')) and len(n.get('args', [])) == 1:
        return e(n['args'][0])
    if k == 'cast' and 'sub' in n:
        return 'cast<%s>(%s)' % (n.get('toC', '?'), e(n['sub']))
    if k == 'call':
        gb = getter_body(fb, fn, n)
        if gb is not None:
            return ctext(fb, gb[0], gb[1], depth + 1)
        if n.get('q') in ('std::move', 'std::forward') and n.get('args'):
            return e(n['args'][0])
        args = ', '.join(e(a) for a in n.get('args', []) if a is not None)
        q = n.get('q', n.get('name', '?'))
        if n.get('recv') is not None:
            r = fn.sn(n['recv'])
            nm = q.rsplit('::', 1)[-1]
            if r is not None and r.get('k') == 'this':
                return '%s(%s)' % (nm, args)
            if n.get('op') == '[]':
                return '%s[%s]' % (e(n['recv']), args)
            if n.get('op') == '()':
                return '%s(%s)' % (e(n['recv']), args)
            if n.get('op') and not n.get('args'):
                return '%s%s' % (n['op'], e(n['recv']))
            if n.get('op'):
                return '(%s %s %s)' % (e(n['recv']), n['op'], args)
            return '%s.%s(%s)' % (e(n['recv']), nm, args)
        if n.get('op') and len(n.get('args', [])) == 2:
            return '(%s %s %s)' % (e(n['args'][0]), n['op'], e(n['args'][1]))
        if n.get('op') and len(n.get('args', [])) == 1:
            return '%s%s' % (n['op'], e(n['args'][0]))
        return '%s(%s)' % (q, args)
    if k == 'member':
        b = fn.sn(n['base'])
        if b is not None and b.get('k') == 'this':
            return n['name']
        return '%s.%s' % (e(n['base']), n['name'])
    if k in ('binop', 'assign'):
        return '(%s %s %s)' % (e(n['lhs']), n['op'], e(n['rhs']))
    if k == 'unop':
        return ('%s%s' % (e(n['sub']), n['op'])) if n.get('postfix') else ('%s%s' % (n['op'], e(n['sub'])))
    if k == 'index':
        return '%s[%s]' % (e(n['base']), e(n['idx']))
    if k == 'var' and n.get('vk') == 'local':
        init = invariant_local_init(fb, fn, n['d'])
        if init is not None:
            return ctext(fb, fn, init, depth + 1)
    return fn.expr(nid)


_PURE_FN_MEMO = {}


def is_pure_fn(fb, g, depth=0):
    """body reads only its parameters / constants: no `this`, no writes except to own locals, only calls to pure functions."""
    key = (id(fb), g.usr, g.full)
    if key in _PURE_FN_MEMO:
        return _PURE_FN_MEMO[key]
    _PURE_FN_MEMO[key] = False
    ok = g.has_cfg and depth < 3
    if ok:
        for n in g.all_nodes():
            k = n.get('k')
            if k in ('new', 'delete', 'throw', 'lambda') or (k == 'this' and g.kind != 'ctor'):
                ok = False
            elif k == 'var' and n.get('vk') in ('global', 'static_member') and 'cv' not in n:
                ok = False
            elif k in ('assign',) or (k == 'unop' and n.get('op') in ('++', '--')):
                t_ = n['lhs'] if k == 'assign' else n['sub']
                x = scn(g, t_)
                if not ((x is not None and x.get('k') == 'var' and x.get('vk') == 'local') or (g.kind == 'ctor' and g.is_this_member(t_))):
                    ok = False
            elif k == 'construct' and 'cv' not in n:
                hs = fb.by_usr.get(n.get('u'), [])     # no body in the fact base: implicit / defaulted / std value type constructor
                if hs and not is_pure_fn(fb, hs[0], depth + 1):
                    ok = False
            elif k == 'call' and 'cv' not in n:
                hs = fb.by_usr.get(n.get('u'), [])
                if not hs or not is_pure_fn(fb, hs[0], depth + 1):
                    ok = False
            if not ok:
                break
    _PURE_FN_MEMO[key] = ok
    return ok


def time_invariant(fb, fn, nid, depth=0):
    """the expression has the same value whenever it is evaluated inside one activation of fn: constants, parameters and locals
    that are never written after their initialisation (locals: with a time-invariant initialiser), operators, and calls of pure
    static / free functions on such operands.  No object state, no non-static member calls."""
    if nid is None or nid not in fn.nodes or depth > 12:
        return False
    written = assigned_vars(fn)
    for x in fn.subtree(nid):
        n = fn.nodes[x]
        k = n.get('k')
        if 'cv' in n and k != 'var':
            continue
        if k in ('wrap', 'icast', 'cast', 'lit', 'binop', 'sizeof'):
            continue
        if k == 'unop' and n.get('op') not in ('++', '--', '&', '*'):
            continue
        if k == 'construct':
            hs = fb.by_usr.get(n.get('u'), [])
            if n.get('copymove') or n.get('elidable') or (hs and is_pure_fn(fb, hs[0])) or (not hs and not n.get('args')) \
                    or n.get('rcls', '').startswith(('__gnu_cxx::__normal_iterator', 'std::pair')):
                continue
            return False
        if k == 'var':
            if n.get('vk') in ('enumconst', 'function') or 'cv' in n:
                continue
            if n.get('vk') == 'param' and _decl_type(fn, n['d']).lstrip().startswith('const ') and _decl_type(fn, n['d']).rstrip().endswith('&') \
                    and not _decl_type(fn, n['d']).rstrip().endswith('&&'):
                continue    # reference to const: names an object that cannot change through it
            if n.get('vk') in ('local', 'param') and n['d'] not in written and not _is_ref(fn, n):
                if n.get('vk') == 'param':
                    continue
                init = local_init(fn, n['d'])
                if init is not None and time_invariant(fb, fn, init, depth + 1):
                    continue
            return False
        if k == 'call' and n.get('recv') is None and 'u' in n:
            hs = fb.by_usr.get(n['u'], [])
            if hs and (hs[0].static or hs[0].cls is None) and is_pure_fn(fb, hs[0]):
                continue
            return False
        if k in ('member', 'call'):
            # state of an object received by reference-to-const cannot change through that reference during the call
            base = n.get('recv') if k == 'call' else n.get('base')
            rv = fn.root_var(base) if base is not None else None
            if rv is not None and rv[0] == 'var':
                pt = next((p_['tC'] for p_ in fn.params if p_['d'] == rv[1]), None)
                if pt is not None and pt.lstrip().startswith('const ') and pt.rstrip().endswith('&') and not pt.rstrip().endswith('&&'):
                    if k == 'member' and (n.get('field') or n.get('method')):
                        continue
                    nm = n.get('q', '').rsplit('::', 1)[-1]
                    hs = fb.by_usr.get(n.get('u'), [])
                    if k == 'call' and ((hs and hs[0].const) or (n.get('q', '').startswith('std::') and nm in _CONST_OBSERVERS)):
                        continue
        if fn.const and fn.cls and not fn.is_lambda:
            # inside a const member function the object's own state cannot change: members and const observers are invariant
            if k == 'this' or (k == 'member' and (n.get('field') or n.get('method'))):
                continue
            if k == 'call' and n.get('recv') is not None and fn.root_var(n['recv']) is not None and fn.root_var(n['recv'])[0] in ('field', 'this'):
                nm = n.get('q', '').rsplit('::', 1)[-1]
                hs = fb.by_usr.get(n.get('u'), [])
                if (hs and hs[0].const) or (n.get('q', '').startswith('std::') and nm in _CONST_OBSERVERS):
                    continue
            return False
        return False
    return True


_CONST_OBSERVERS = ('size', 'empty', 'begin', 'end', 'cbegin', 'cend', 'data', 'capacity', 'get', 'operator bool', '(conv)', 'front', 'back')


def _decl_type(fn, d):
    for n in fn.all_nodes():
        if n.get('k') == 'decl':
            for v in n['vars']:
                if v['d'] == d:
                    return v.get('tC', '')
    for p_ in fn.params:
        if p_['d'] == d:
            return p_.get('tC', '')
    return ''


def _is_ref(fn, n):
    """variable declared as a reference (an alias of possibly mutable state); pointers hold an invariant value."""
    return _decl_type(fn, n['d']).rstrip().endswith('&')


def invariant_local_init(fb, fn, d):
    """initialiser of local d when `d` is a name for a time-invariant value (never written again), else None."""
    if d in assigned_vars(fn):
        return None
    init = local_init(fn, d)
    if init is None:
        return None
    if _decl_type(fn, d).rstrip().endswith('&'):
        return None
    return init if time_invariant(fb, fn, init) else None


def resolve(fb, fn, nid):
    """node id with casts stripped and names of time-invariant locals replaced by their initialiser (node level twin of ctext)."""
    hops = 0
    x = strip_casts(fn, nid)
    while x is not None and hops < 6:
        hops += 1
        n = fn.nodes.get(x)
        if n is None or n.get('k') != 'var' or n.get('vk') != 'local':
            break
        init = invariant_local_init(fb, fn, n['d'])
        if init is None:
            break
        x = strip_casts(fn, init)
    return x


def rn(fb, fn, nid):
    x = resolve(fb, fn, nid)
    return fn.nodes.get(x) if x is not None else None


def vars_in(fn, nid):
    out = set()
    for x in fn.subtree(nid):
        n = fn.nodes[x]
        if n.get('k') == 'var' and n.get('vk') in ('local', 'param'):
            out.add(n['d'])
    return out


def assigned_vars(fn):
    """decl ids of locals / parameters that are written after their declaration anywhere in fn."""
    out = set()
    for n in fn.all_nodes():
        k = n.get('k')
        t = None
        if k == 'assign':
            t = n['lhs']
        elif k == 'unop' and n.get('op') in ('++', '--'):
            t = n['sub']
        elif k == 'call' and n.get('op') in ('=', '+=', '-=', '++', '--') and n.get('recv') is not None:
            t = n['recv']
        elif k == 'call' and n.get('op') in ('=', '+=', '-=', '++', '--') and n.get('args'):
            t = n['args'][0]
        if t is not None:
            x = scn(fn, t)
            if x is not None and x.get('k') == 'var' and x.get('vk') in ('local', 'param'):
                out.add(x['d'])
    return out


def local_init(fn, d):
    """init expression id of the unique declaration of local d (None if not declared with an initialiser)."""
    for n in fn.all_nodes():
        if n.get('k') == 'decl':
            for v in n['vars']:
                if v['d'] == d and isinstance(v.get('init'), int):
                    return v['init']
    return None


def cmp_parts(fn, cond):
    """comparison (built-in or overloaded operator) -> (op, lhs id, rhs id) else None."""
    n = scn(fn, cond)
    if n is None:
        return None
    if n.get('k') == 'binop' and n.get('op') in CMP:
        return n['op'], n['lhs'], n['rhs']
    if n.get('k') == 'call' and n.get('op') in CMP:
        a = list(n.get('args', []))
        if n.get('recv') is not None and len(a) == 1:
            return n['op'], n['recv'], a[0]
        if len(a) == 2:
            return n['op'], a[0], a[1]
    return None


# ------------------------------------------------------------------------------------------------ GUARD: bounds evidence

def is_vector_like(n):
    return n.get('rcls') in VECTOR_CLASSES


def vector_accesses(fb, fn):
    """`C[i]` on a std::vector / mmap_vector: [(access node, container expr id, index expr id)]"""
    out = []
    for n in fn.all_nodes():
        if n.get('k') == 'call' and n.get('op') == '[]' and is_vector_like(n):
            if n.get('recv') is not None and n.get('args'):
                out.append((n, n['recv'], n['args'][0]))
            elif len(n.get('args', [])) == 2:
                out.append((n, n['args'][0], n['args'][1]))
    return out


def size_call_container(fb, fn, nid, depth=0):
    """expression is `C.size()` (possibly through a getter of this) -> canonical text of C, else None."""
    n = rn(fb, fn, nid)
    if n is None or n.get('k') != 'call' or depth > 4:
        return None
    gb = getter_body(fb, fn, n)
    if gb is not None:
        return size_call_container(fb, gb[0], gb[1], depth + 1)
    if n.get('q', '').rsplit('::', 1)[-1] == 'size' and is_vector_like(n) and n.get('recv') is not None and not n.get('args'):
        return ctext(fb, fn, n['recv'])
    return None


def size_relation(fb, fn, cond):
    """condition compares an expression with C.size(): -> (index text, container text, op) meaning `index op C.size()`."""
    cond, pol = unnegate(fn, cond)
    p = cmp_parts(fn, cond)
    if p is None:
        return None
    op, l, r = p
    for a, b, o in ((l, r, op), (r, l, FLIP[op])):
        c = size_call_container(fb, fn, b)
        if c is not None:
            return ctext(fb, fn, a), c, (o if pol else NEG[o])
    return None


def _is_plus_one(fb, fn, nid, idx_text):
    n = rn(fb, fn, nid)
    if n is None or n.get('k') != 'binop' or n.get('op') != '+':
        return False
    for a, b in ((n['lhs'], n['rhs']), (n['rhs'], n['lhs'])):
        if ctext(fb, fn, a) == idx_text and fn.const_value(b) == 1:
            return True
    return False


_ENSURES_MEMO = {}


def bounds_evidence(fb, fn, idx_text, cont_text, depth=0):
    """-> (evidence element ids, evidence edges {(block, succ index)}) establishing idx < C.size() in fn."""
    elems, edges = set(), set()
    for b in cond_blocks(fn):
        for i in (0, 1):
            for (c, sense) in edge_facts(fn, b, i):
                rel = size_relation(fb, fn, c)
                if rel is None or rel[0] != idx_text or rel[1] != cont_text:
                    continue
                if (rel[2] == '<' and sense) or (rel[2] == '>=' and not sense):
                    edges.add((b['id'], i))
    for n in fn.all_nodes():
        if n.get('k') != 'call':
            continue
        nm = n.get('q', '').rsplit('::', 1)[-1]
        if nm == 'resize' and is_vector_like(n) and n.get('recv') is not None and n.get('args'):
            if ctext(fb, fn, n['recv']) == cont_text and _is_plus_one(fb, fn, n['args'][0], idx_text):
                elems.add(n['id'])
        elif depth < 2 and n.get('rcls') and n.get('rcls') == fn.cls and 'u' in n and n.get('args'):
            r = fn.sn(n['recv']) if n.get('recv') is not None else None
            if r is not None and r.get('k') != 'this':
                continue
            g = _callee_for(fb, fn, n)
            if g is None or not g.has_cfg or g.id == fn.id:
                continue
            for i, a in enumerate(n['args']):
                if a is None or i >= len(g.params) or ctext(fb, fn, a) != idx_text:
                    continue
                if callee_ensures_bounds(fb, g, g.params[i], cont_text, depth + 1):
                    elems.add(n['id'])
    return elems, edges


def callee_ensures_bounds(fb, g, param, cont_text, depth=1):
    """on every normal exit of g, param < C.size() was established (and param is never written)."""
    key = (id(fb), g.usr, g.full, param['d'], cont_text)
    if key not in _ENSURES_MEMO:
        _ENSURES_MEMO[key] = False
        ok = param['d'] not in assigned_vars(g)
        if ok:
            elems, edges = bounds_evidence(fb, g, param['name'], cont_text, depth)
            ok = bool(elems or edges) and must_pass(g, g.entry, elems, lambda b, i, s: (b, i) not in edges) is None
        _ENSURES_MEMO[key] = ok
    return _ENSURES_MEMO[key]


SHRINKERS = ('clear', 'pop_back', 'erase', 'shrink_to_fit', 'assign', 'swap', 'resize', 'operator=')


def unproven_access_path(fb, fn, access, cont, idx):
    """-> (None, evidence description) when `cont[idx]` at node `access` is reached only through bounds evidence,
    else (witness path, reason)."""
    idx_text, cont_text = ctext(fb, fn, idx), ctext(fb, fn, cont)
    elems, edges = bounds_evidence(fb, fn, idx_text, cont_text)
    edge_ok = lambda b, i, s: (b, i) not in edges
    # a write to a variable of the index expression invalidates earlier evidence
    iv = vars_in(fn, idx)
    if iv & assigned_vars(fn):
        for n in fn.all_nodes():
            k = n.get('k')
            t_ = n['lhs'] if k == 'assign' else (n['sub'] if k == 'unop' and n.get('op') in ('++', '--') else None)
            if k == 'call' and n.get('op') in ('=', '+=', '-=', '++', '--'):
                t_ = n['recv'] if n.get('recv') is not None else (n['args'][0] if n.get('args') else None)
            x = scn(fn, t_) if t_ is not None else None
            if x is not None and x.get('k') == 'var' and x.get('d') in iv:
                w = path_search(fn, n['id'], lambda e: e == access['id'], lambda e: e in elems, edge_ok)
                if w is not None:
                    return [n['id']] + w, 'the index %s is modified after the bounds test' % idx_text
    w = path_search(fn, fn.entry, lambda e: e == access['id'], lambda e: e in elems, edge_ok, from_block_start=True)
    if w is not None:
        return w, 'no test of %s against %s.size() and no %s.resize(%s + 1) on this path' % (idx_text, cont_text, cont_text, idx_text)
    # the container must not shrink between the evidence and the access
    for n in fn.all_nodes():
        if n.get('k') == 'call' and is_vector_like(n) and n.get('recv') is not None and n['id'] not in elems:
            if n.get('q', '').rsplit('::', 1)[-1] in SHRINKERS and ctext(fb, fn, n['recv']) == cont_text:
                w = path_search(fn, n['id'], lambda e: e == access['id'], lambda e: e in elems, edge_ok)
                if w is not None:
                    return [n['id']] + w, '%s may shrink %s after the bounds test' % (n['q'], cont_text)
    return None, '%d dominating size tests / %d resize-or-ensuring calls' % (len(edges), len(elems))


# ------------------------------------------------------------------------------------------------ SORTED-lite

def template_args(t):
    """top-level template arguments of a type spelled `name<a, b<c>, d>` -> (name, [args])."""
    t = t.strip()
    i = t.find('<')
    if i < 0 or not t.endswith('>'):
        return t, []
    name, body = t[:i], t[i + 1:-1]
    args, depth, cur = [], 0, ''
    for ch in body:
        if ch == '<':
            depth += 1
        elif ch == '>':
            depth -= 1
        if ch == ',' and depth == 0:
            args.append(cur.strip())
            cur = ''
        else:
            cur += ch
    if cur.strip():
        args.append(cur.strip())
    return name, args


def _plain(t):
    t = (t or '').strip()
    for pre in ('const ', 'volatile '):
        while t.startswith(pre):
            t = t[len(pre):]
    return t.rstrip('&* ').strip()


def element_type(t):
    """element type of a vector-like container type or of an iterator / pointer into one."""
    t = _plain(t)
    name, args = template_args(t)
    if name in ('std::vector',) or name.startswith('osmium::detail::mmap_vector_'):
        return _plain(args[0]) if args else None
    if name == '__gnu_cxx::__normal_iterator' and args:
        return _plain(args[0])
    return t or None


def _field_path(fn, nid):
    """expression `root.f.g` / `root->f` / `this->f` -> (root descr, (f, g)) ; root = ('param', index) | ('this',) | ('var', d)"""
    path = []
    hops = 0
    while nid is not None and hops < 20:
        hops += 1
        n = scn(fn, nid)
        if n is None:
            return None
        k = n.get('k')
        if k == 'member' and n.get('field'):
            path.append(n['name'])
            nid = n['base']
        elif k == 'call' and n.get('op') in ('->', '*') and (n.get('recv') is not None or n.get('args')):
            nid = n['recv'] if n.get('recv') is not None else n['args'][0]
        elif k == 'call' and n.get('op') == '[]' and n.get('recv') is not None and n.get('args') and is_vector_like(n):
            i = scn(fn, n['args'][0])
            if i is not None and i.get('k') == 'var' and i.get('vk') == 'local':
                return ('idx', i['d'], fn.expr(n['recv'])), tuple(reversed(path))
            return None
        elif k == 'unop' and n.get('op') == '*':
            nid = n['sub']
        elif k == 'this':
            return ('this',), tuple(reversed(path))
        elif k == 'var':
            if n.get('vk') == 'param':
                for i, p in enumerate(fn.params):
                    if p['d'] == n['d']:
                        return ('param', i), tuple(reversed(path))
            if n.get('vk') == 'local' and _decl_type(fn, n['d']).rstrip().endswith('&') and n['d'] not in assigned_vars(fn):
                init = local_init(fn, n['d'])
                x = scn(fn, init) if init is not None else None
                if x is not None and (x.get('k') in ('member', 'var') or (x.get('k') == 'call' and x.get('op') in ('*', '->', '[]'))
                                      or (x.get('k') == 'unop' and x.get('op') == '*')):
                    nid = init      # `auto& e = *it;` / `const auto& p = C[i];`: e, p name the element
                    continue
            return ('var', n['d']), tuple(reversed(path))
        else:
            return None
    return None


def _tie_fields(fn, nid):
    """std::tie(x.a, x.b) -> (root, [(a,), (b,)])"""
    n = scn(fn, nid)
    if n is None or n.get('k') != 'call' or n.get('q') not in ('std::tie', 'std::make_tuple', 'std::forward_as_tuple', 'osmium::const_tie'):
        return None
    root = None
    fields = []
    for a in n.get('args', []):
        fp = _field_path(fn, a)
        if fp is None:
            return None
        if root is None:
            root = fp[0]
        elif root != fp[0]:
            return None
        fields.append(fp[1])
    return root, fields


def less_key(fn):
    """body of a comparator (`bool (a, b)` or `bool T::operator<(b)`) is `return a.K < b.K` or
    `return std::tie(a.K1, a.K2) < std::tie(b.K1, b.K2)`  ->  ordered key (tuple of field paths) else None."""
    rets = [n for n in fn.all_nodes() if n.get('k') == 'return' and 'sub' in n]
    if len(rets) != 1:
        return None
    p = cmp_parts(fn, rets[0]['sub'])
    if p is None or p[0] != '<':
        return None
    _op, l, r = p
    if fn.kind in ('operator', 'method') and fn.cls and not fn.is_lambda and len(fn.params) == 1:
        want = (('this',), ('param', 0))
    elif len(fn.params) == 2:
        want = (('param', 0), ('param', 1))
    else:
        return None
    tl, tr = _tie_fields(fn, l), _tie_fields(fn, r)
    if tl is not None and tr is not None:
        if (tl[0], tr[0]) == want and tl[1] == tr[1] and tl[1]:
            return tuple(tl[1])
        return None
    fl, fr = _field_path(fn, l), _field_path(fn, r)
    if fl is None or fr is None or (fl[0], fr[0]) != want or fl[1] != fr[1] or not fl[1]:
        return None
    return (fl[1],)


def default_less_key(fb, elem_t):
    """key of `a < b` for the element type: std::pair -> (first, second); class with a member operator< -> its key."""
    name, args = template_args(elem_t)
    if name == 'std::pair' and len(args) == 2:
        return (('first',), ('second',))
    cands = [f for f in fb.fns(name + '::operator<') if f.has_cfg]
    if not cands:
        # nested class of a template: the plain name has no template arguments
        base = elem_t
        while '<' in base:
            i = base.find('<')
            depth, j = 0, i
            while j < len(base):
                if base[j] == '<':
                    depth += 1
                elif base[j] == '>':
                    depth -= 1
                    if depth == 0:
                        break
                j += 1
            base = base[:i] + base[j + 1:]
        cands = [f for f in fb.fns(base + '::operator<') if f.has_cfg]
    keys = {less_key(f) for f in cands}
    if len(keys) == 1:
        return keys.pop()
    return None


def _range_container(fb, fn, begin_arg):
    """`C.begin()` / `C.cbegin()` -> (canonical text of C, type of C) else None."""
    n = scn(fn, begin_arg)
    if n is None or n.get('k') != 'call' or n.get('recv') is None:
        gb = getter_body(fb, fn, n) if n is not None and n.get('k') == 'call' else None
        if gb is not None:
            return _range_container(fb, gb[0], gb[1])
        return None
    if n.get('q', '').rsplit('::', 1)[-1] not in ('begin', 'cbegin'):
        return None
    r = fn.nodes.get(fn.strip(n['recv']))
    return ctext(fb, fn, n['recv']), (r or {}).get('t', '')


def ordered_calls(fb, fn, names):
    """calls of std algorithms over `C.begin(), C.end()`: [(call, container text, element type, key or None, cmp lambda Fn or None)]"""
    out = []
    for n in fn.all_nodes():
        if n.get('k') != 'call' or n.get('q') not in names:
            continue
        a = n.get('args', [])
        if len(a) < 2:
            continue
        rc = _range_container(fb, fn, a[0])
        if rc is None:
            out.append((n, None, None, None, None))
            continue
        cont, ct = rc
        et = element_type(ct)
        nfixed = 2 if n['q'] in SORTS else 3
        lam = None
        key = None
        if len(a) > nfixed:
            for x in fn.subtree(a[nfixed]):
                if fn.nodes[x].get('k') == 'lambda':
                    lam = fb.lambda_fn(fn, fn.nodes[x])
            key = less_key(lam) if lam is not None else None
        elif et:
            key = default_less_key(fb, et)
        out.append((n, cont, et, key, lam))
    return out


# ------------------------------------------------------------------------------------------------ value provenance

def value_source(fb, fn, nid, depth=0):
    """Where does the value of expression nid come from?
       ('elem', access node, cont id, idx id, via local d|None)     C[i] on a vector-like container
       ('iter', iterator var decl id, field path, via local)        it->f / (*it).f on a local iterator / pointer
       ('empty', call node)                                         osmium::index::empty_value<T>()
       ('method', call node, callee Fn, via local)                  result of another method of this
       ('unknown', node)"""
    x = strip_casts(fn, nid)
    n = fn.nodes.get(x)
    via = None
    hops = 0
    while n is not None and n.get('k') == 'var' and n.get('vk') == 'local' and hops < 5:
        hops += 1
        if n['d'] in assigned_vars(fn):
            return ('unknown', n)
        init = local_init(fn, n['d'])
        if init is None:
            return ('unknown', n)
        via = n['d'] if via is None else via
        x = strip_casts(fn, init)
        n = fn.nodes.get(x)
    if n is None:
        return ('unknown', None)
    k = n.get('k')
    if k == 'call' and n.get('op') == '[]' and is_vector_like(n):
        if n.get('recv') is not None and n.get('args'):
            return ('elem', n, n['recv'], n['args'][0], via)
    if k == 'call' and n.get('q') == 'osmium::index::empty_value':
        return ('empty', n)
    if k == 'member' and n.get('field'):
        fp = _field_path(fn, x)
        if fp is not None and fp[0][0] == 'var':
            return ('iter', fp[0][1], fp[1], via)
    if k == 'call' and 'u' in n and n.get('recv') is not None and not n.get('op'):
        r = fn.sn(n['recv'])
        if r is not None and r.get('k') == 'this':
            g = _callee_for(fb, fn, n)
            if g is not None:
                return ('method', n, g, via)
    return ('unknown', n)


def search_origin(fb, fn, d, depth=0):
    """local iterator d is initialised from a search: -> (kind, container text, call node, Fn holding the call, key, probe)
    kind: 'lower_bound' | 'find' ...; follows a method of this that returns the search result (find_id)."""
    init = local_init(fn, d)
    if init is None or d in assigned_vars(fn):
        return None
    return _search_expr(fb, fn, init, depth)


def _search_expr(fb, fn, nid, depth=0):
    n = scn(fn, nid)
    if n is None or n.get('k') != 'call' or depth > 3:
        return None
    if n.get('q') in SEARCHES:
        for (c, cont, et, key, lam) in ordered_calls(fb, fn, SEARCHES):
            if c['id'] == n['id']:
                return (n['q'].rsplit('::', 1)[-1], cont, n, fn, key, et)
        return None
    nm = n.get('q', '').rsplit('::', 1)[-1]
    if nm == 'find' and n.get('rcls') in ('std::map', 'std::unordered_map', 'std::set') and n.get('recv') is not None:
        return ('find', ctext(fb, fn, n['recv']), n, fn, (('first',),), None)
    if 'u' in n and n.get('recv') is not None:
        r = fn.sn(n['recv'])
        if r is not None and r.get('k') == 'this':
            g = _callee_for(fb, fn, n)
            if g is not None and g.has_cfg:
                rets = [m for m in g.all_nodes() if m.get('k') == 'return' and 'sub' in m]
                if len(rets) == 1:
                    return _search_expr(fb, g, rets[0]['sub'], depth + 1)
    return None


def end_test(fb, fn, cond, d, cont_text):
    """condition is `it == C.end()` / `it != C.end()` for local iterator d -> op else None."""
    cond, pol = unnegate(fn, cond)
    p = cmp_parts(fn, cond)
    if p is None or p[0] not in ('==', '!='):
        return None
    op, l, r = p
    for a, b in ((l, r), (r, l)):
        x = scn(fn, a)
        y = rn(fb, fn, b)
        if x is None or y is None or x.get('k') != 'var' or x.get('d') != d:
            continue
        if y.get('k') == 'call' and y.get('q', '').rsplit('::', 1)[-1] in ('end', 'cend') and y.get('recv') is not None \
                and ctext(fb, fn, y['recv']) == cont_text:
            return op if pol else NEG[op]
    return None


def key_test(fb, fn, cond, d, id_text):
    """condition is `it->K != id` / `it->K == id` -> (op, field path) else None."""
    cond, pol = unnegate(fn, cond)
    p = cmp_parts(fn, cond)
    if p is None or p[0] not in ('==', '!='):
        return None
    op, l, r = p
    for a, b in ((l, r), (r, l)):
        fp = _field_path(fn, a)
        if fp is None or fp[0] != ('var', d) or not fp[1]:
            continue
        if ctext(fb, fn, b) == id_text:
            return (op if pol else NEG[op]), fp[1]
    return None


def empty_test(fb, fn, cond, value_texts):
    """condition compares one of value_texts with osmium::index::empty_value<T>() -> op else None."""
    cond, pol = unnegate(fn, cond)
    p = cmp_parts(fn, cond)
    if p is None or p[0] not in ('==', '!='):
        return None
    op, l, r = p
    for a, b in ((l, r), (r, l)):
        y = rn(fb, fn, b)
        if y is not None and y.get('k') == 'call' and y.get('q') == 'osmium::index::empty_value' and ctext(fb, fn, a) in value_texts:
            return op if pol else NEG[op]
    return None


# ------------------------------------------------------------------------------------------------ ERRDISC view

_PURE_KINDS = ('member', 'this', 'lit', 'unop', 'binop', 'cast', 'icast', 'wrap', 'var')


def inlined_getter_view(fb, fn):
    """Shallow copy of fn in which every call `getter()` on this (body `return E;`, E built from this-members and constants
    only) is replaced by a copy of E.  ERRDISC evaluates conditions over carriers (locals, this-members); a test such as
    `if (!is_valid())` with `is_valid() { return m_addr != MAP_FAILED; }` becomes visible to it this way."""
    todo = []
    for n in fn.all_nodes():
        if n.get('k') != 'call':
            continue
        gb = getter_body(fb, fn, n)
        if gb is None:
            continue
        g, root = gb
        ok = True
        for x in g.subtree(root):
            m = g.nodes[x]
            if m.get('k') not in _PURE_KINDS:
                ok = False
            elif m.get('k') == 'var' and m.get('vk') in ('local', 'param'):
                ok = False
            elif m.get('k') == 'member' and not (m.get('field') and g.is_this_member(x)):
                ok = False
            elif m.get('k') == 'unop' and m.get('op') in ('++', '--'):
                ok = False
        if ok:
            todo.append((n, g, root))
    if not todo:
        return fn
    view = copy.copy(fn)
    view.nodes = dict(fn.nodes)
    view._pos = view._parent = view._dom = view._preds = view._pdom = None
    nxt = max(fn.nodes) + 1
    for (call, g, root) in todo:
        remap = {}
        for x in g.subtree(root):
            remap[x] = nxt
            nxt += 1
        for x, y in remap.items():
            m = dict(g.nodes[x])
            m['id'] = y
            for key in ('recv', 'callee', 'base', 'lhs', 'rhs', 'sub', 'cond', 'then', 'else', 'idx', 'init'):
                v = m.get(key)
                if isinstance(v, int) and not isinstance(v, bool) and v in remap:
                    m[key] = remap[v]
            for key in ('l', 'c', 'o', 'oe'):
                if key in call:
                    m[key] = call[key]
            view.nodes[y] = m
        w = {'k': 'wrap', 'cls': 'InlinedGetter', 'sub': remap[root], 'id': call['id'], 't': call.get('t')}
        for key in ('l', 'c', 'o', 'oe', 'f'):
            if key in call:
                w[key] = call[key]
        view.nodes[call['id']] = w
    return view


# ------------------------------------------------------------------------------------------------ bit slices

class UBits(Bits):
    """charset.Bits refuses `x >> k` when the top bit of x is symbolic (it could be an arithmetic shift).  For an operand of
    unsigned type the shift is logical whatever the top bit is; everything else is inherited."""

    def _eval(self, nid):
        fn = self.fn
        n = fn.nodes.get(nid)
        if n is not None and n.get('k') == 'binop' and n.get('op') == '>>' and 'cv' not in n and self.leaf(fn, n) is None:
            lt = int_type(fn.nodes.get(n['lhs'], {}).get('t'), self.char_signed)
            if lt is not None and not lt[0]:
                a, b = self.eval(n['lhs']), self.eval(n['rhs'])
                if not self.is_const(b):
                    raise Unsupported('variable shift count')
                kk = self.value(b)
                if kk >= lt[1]:
                    raise Unsupported('shift count not below the width of the operand')
                return self._trunc(a[kk:] + (ZERO,) * kk, n)
        return Bits._eval(self, nid)


# ------------------------------------------------------------------------------------------------ range-for loops

def range_for_loops(fn):
    """[(loop record, condition block, range init expr id, loop variable decl id)] for every range-based for of fn."""
    out = []
    conds = [b for b in fn.blocks.values() if b.get('termcls') == 'CXXForRangeStmt' and len(b['succs']) == 2]
    for l in fn.loops:
        if l.get('cls') != 'CXXForRangeStmt':
            continue
        cb = None
        for b in conds:
            t = b.get('term')
            c = b.get('cond')
            probe = c if isinstance(c, int) else t
            if isinstance(probe, int) and fn.in_range(probe, l['b'], l['e']):
                if cb is None or fn.nodes[probe].get('o', 0) < fn.nodes[cb_probe].get('o', 0):
                    cb, cb_probe = b, probe
        rng = None
        var = None
        for n in fn.all_nodes():
            if n.get('k') == 'decl' and fn.in_range(n['id'], l['b'], l['e']):
                for v in n['vars']:
                    if v['name'].startswith('__range') and isinstance(v.get('init'), int) and rng is None:
                        rng = v['init']
                    elif not v['name'].startswith('__') and isinstance(v.get('init'), int) and var is None:
                        x = scn(fn, v['init'])
                        if x is not None and ((x.get('k') == 'call' and x.get('op') == '*') or (x.get('k') == 'unop' and x.get('op') == '*')):
                            var = v['d']
        out.append((l, cb, rng, var))
    return out


def loop_skips(fn, cond_blk, barrier_ids):
    """an iteration (from the body start back to the loop test) can avoid every barrier element."""
    seen = set()
    work = [cond_blk['succs'][0]]
    while work:
        b = work.pop()
        if b is None or b in seen:
            continue
        seen.add(b)
        if b == cond_blk['id']:
            return True
        if any(e in barrier_ids for e in fn.blocks[b]['elems']):
            continue
        work.extend(fn.succs(b))
    return False


def loop_leaks(fn, cond_blk):
    """the loop body can reach the function exit without going through the loop test again (break / return)."""
    thr = throw_ids(fn)
    seen = set()
    work = [cond_blk['succs'][0]]
    while work:
        b = work.pop()
        if b is None or b in seen or b == cond_blk['id']:
            continue
        seen.add(b)
        if any(e in thr for e in fn.blocks[b]['elems']):
            continue
        if b == fn.exit:
            return True
        work.extend(fn.succs(b))
    return False


def element_loops(fb, fn):
    """Loops that are meant to visit every element of a container, in three spellings:
         for (auto& e : C)                                        element root ('var', e)
         for (auto it = C.begin(); it != C.end(); ++it)           element root ('var', it)          (*it / it->f)
         for (size_t i = 0; i < C.size(); ++i)                    element root ('idx', i, text of C) (C[i])
    -> [dict(loop=, cb=condition block, cont=container expr id, root=element root, incs=[ids of the advancing statements])]
    Whether every element is really visited is decided by the caller with loop_skips / loop_leaks (+ incs)."""
    out = []
    for (l, cb, rng, var) in range_for_loops(fn):
        if cb is not None and rng is not None and var is not None:
            fp = _field_path(fn, local_init(fn, var))
            out.append(dict(loop=l, cb=cb, cont=rng, root=fp[0] if fp is not None and not fp[1] else ('var', var), incs=None))
    written = {}
    for n in fn.all_nodes():
        k = n.get('k')
        t = None
        if k == 'assign':
            t = n['lhs']
        elif k == 'unop' and n.get('op') in ('++', '--'):
            t = n['sub']
        elif k == 'call' and n.get('op') in ('=', '+=', '-=', '++', '--'):
            t = n['recv'] if n.get('recv') is not None else (n['args'][0] if n.get('args') else None)
        x = scn(fn, t) if t is not None else None
        if x is not None and x.get('k') == 'var' and x.get('vk') == 'local':
            written.setdefault(x['d'], []).append(n)
    for l in fn.loops:
        if l.get('cls') not in ('ForStmt', 'WhileStmt'):
            continue
        for b in cond_blocks(fn):
            if b.get('termcls') != l['cls']:
                continue
            c = b.get('cond')
            if not isinstance(c, int) or not fn.in_range(c, l['b'], l['e']):
                continue
            found = None
            for (cc, sense) in edge_facts(fn, b, 0):
                p = cmp_parts(fn, cc)
                if p is None or not sense:
                    continue
                op, lhs, rhs = p
                for a, z, o in ((lhs, rhs, op), (rhs, lhs, FLIP[op])):
                    v = scn(fn, a)
                    if v is None or v.get('k') != 'var' or v.get('vk') != 'local' or o not in ('!=', '<'):
                        continue
                    ws = written.get(v['d'], [])
                    incs = [w for w in ws if (w.get('op') == '++') and fn.in_range(w['id'], l['b'], l['e'])]
                    if len(ws) != len(incs) or not incs:
                        continue
                    init = local_init(fn, v['d'])
                    zn = rn(fb, fn, z)
                    if init is None or zn is None or zn.get('k') != 'call' or zn.get('recv') is None:
                        continue
                    nm = zn.get('q', '').rsplit('::', 1)[-1]
                    i0 = scn(fn, init)
                    if nm in ('end', 'cend') and i0 is not None and i0.get('k') == 'call' and i0.get('recv') is not None \
                            and i0.get('q', '').rsplit('::', 1)[-1] in ('begin', 'cbegin') and ctext(fb, fn, i0['recv']) == ctext(fb, fn, zn['recv']):
                        found = dict(loop=l, cb=b, cont=zn['recv'], root=('var', v['d']), incs=[w['id'] for w in incs])
                    elif nm == 'size' and fn.const_value(init) == 0 and o in ('<', '!='):
                        found = dict(loop=l, cb=b, cont=zn['recv'], root=('idx', v['d'], fn.expr(zn['recv'])), incs=[w['id'] for w in incs])
            if found is not None:
                out.append(found)
                break
    return out


def loop_complete(fn, lp, barrier_ids):
    """every iteration passes one of barrier_ids and the advancing statement, and the loop is left only through its own test.
    -> None or a reason"""
    if loop_leaks(fn, lp['cb']):
        return 'the loop can be left before the last element (break / return in the body)'
    if loop_skips(fn, lp['cb'], set(barrier_ids)):
        return 'an iteration can skip the transfer'
    if lp['incs'] is not None and loop_skips(fn, lp['cb'], set(lp['incs'])):
        return 'an iteration does not advance'
    return None


def alias_root(fn, nid):
    """root of the object an expression is a part of / a method is called on (reference locals followed): see _field_path roots."""
    hops = 0
    while nid is not None and hops < 10:
        hops += 1
        fp = _field_path(fn, nid)
        if fp is not None:
            return fp[0]
        n = scn(fn, nid)
        if n is not None and n.get('k') == 'call' and n.get('recv') is not None:
            nid = n['recv']
        else:
            return None
    return None


# ------------------------------------------------------------------------------------------------ snapshots of object state

def _mutators(fb, fn):
    """element ids of fn that may change the state of *this: stores to members, ++/--, non-const calls on this / its members."""
    out = []
    for n in fn.all_nodes():
        k = n.get('k')
        if k == 'assign' and fn.root_var(n['lhs']) is not None and fn.root_var(n['lhs'])[0] in ('field', 'this'):
            out.append(n['id'])
        elif k == 'unop' and n.get('op') in ('++', '--') and fn.root_var(n['sub']) is not None and fn.root_var(n['sub'])[0] in ('field', 'this'):
            out.append(n['id'])
        elif k == 'call' and n.get('recv') is not None and 'q' in n:
            rv = fn.root_var(n['recv'])
            if rv is None or rv[0] not in ('field', 'this'):
                continue
            nm = n['q'].rsplit('::', 1)[-1]
            hs = fb.by_usr.get(n.get('u'), [])
            if (hs and hs[0].const) or (n['q'].startswith('std::') and nm in _CONST_OBSERVERS) or getter_body(fb, fn, n) is not None:
                continue
            out.append(n['id'])
    return out


def snapshot_init(fb, fn, d, use):
    """local d (never written again, not a reference) was initialised from an expression over the object's state, and no statement
    that may change that state lies between its declaration and `use` (an element id): -> init expr id, else None.
    `const auto old = capacity(); if (n <= old) return;` -- at the test, `old` still equals capacity()."""
    if d in assigned_vars(fn) or _decl_type(fn, d).rstrip().endswith('&'):
        return None
    init = local_init(fn, d)
    decl = next((m for m in fn.all_nodes() if m.get('k') == 'decl' and any(v['d'] == d for v in m['vars'])), None)
    if init is None or decl is None:
        return None
    for m in _mutators(fb, fn):
        if m == use or m in fn.subtree(decl['id']):
            continue
        if path_search(fn, decl['id'], lambda e: e == m, lambda e: e == use) is not None \
                and path_search(fn, m, lambda e: e == use, lambda e: e == decl['id']) is not None:
            return None
    return init


def state_text(fb, fn, nid, use):
    """ctext, with a local that is a still-valid snapshot of object state (see snapshot_init) replaced by what it was read from."""
    n = scn(fn, nid)
    if n is not None and n.get('k') == 'var' and n.get('vk') == 'local':
        init = snapshot_init(fb, fn, n['d'], use)
        if init is not None:
            return ctext(fb, fn, init)
    return ctext(fb, fn, nid)


# ------------------------------------------------------------------------------------------------ LAYOUT: memberwise special members

def special_members(fb, rec):
    """user-visible bodies that must handle every data member of rec: [(Fn, kind, self root, other root)]
    kind: 'move-ctor' | 'copy-ctor' | 'move-assign' | 'copy-assign' | 'swap'."""
    out = []
    cls = rec.q

    def is_cls(t):
        t = t.replace('const ', '').strip().rstrip('&').strip()
        return t == rec.full or t.split('<', 1)[0] == cls or t.split('<', 1)[0].replace('osmium::util::', 'osmium::') == cls
    for f in fb.functions:
        if not f.has_cfg or f.is_lambda:
            continue
        if f.cls == cls and (f.clsT is None or f.clsT == rec.full or not rec.targs):
            if f.kind == 'ctor' and len(f.params) == 1 and is_cls(f.params[0]['tC']) and f.params[0]['tC'].rstrip().endswith('&'):
                out.append((f, 'move-ctor' if f.params[0]['tC'].rstrip().endswith('&&') else 'copy-ctor', ('this',), ('param', 0)))
            elif f.name == 'operator=' and len(f.params) == 1 and is_cls(f.params[0]['tC']) and f.params[0]['tC'].rstrip().endswith('&'):
                out.append((f, 'move-assign' if f.params[0]['tC'].rstrip().endswith('&&') else 'copy-assign', ('this',), ('param', 0)))
            elif f.name == 'swap' and len(f.params) == 1 and is_cls(f.params[0]['tC']):
                out.append((f, 'swap', ('this',), ('param', 0)))
        if f.name == 'swap' and len(f.params) == 2 and all(is_cls(p['tC']) for p in f.params) and (f.cls is None or f.cls == cls):
            if not rec.targs or all(p['tC'].replace('const ', '').strip().rstrip('&').strip() in (rec.full,) or True for p in f.params):
                out.append((f, 'swap', ('param', 0), ('param', 1)))
    return out


def _helper_with_other(fb, fn, n, self_root, other_root):
    """call on the self object of a method of the same class that receives the other object -> (callee Fn, parameter index)"""
    if n.get('k') != 'call' or 'u' not in n or not n.get('args') or self_root != ('this',) or n.get('rcls') != fn.cls:
        return None
    if n.get('recv') is not None and (fn.sn(n['recv']) or {}).get('k') != 'this':
        return None
    g = _callee_for(fb, fn, n)
    if g is None or not g.has_cfg or g.id == fn.id:
        return None
    for i, a in enumerate(n['args']):
        fp = _field_path(fn, a) if a is not None else None
        if fp is not None and fp[0] == other_root and not fp[1] and i < len(g.params):
            return g, i
    return None


def member_transfers(fb, fn, kind, self_root, other_root, field, depth=0):
    """element ids of fn that move / copy / exchange `field` between the two objects (directly, or by handing the other object to a
    helper of the class that does it on every normal path)."""
    ids = []
    if depth < 2:
        for n in fn.all_nodes():
            h = _helper_with_other(fb, fn, n, self_root, other_root)
            if h is not None:
                g, i = h
                inner = member_transfers(fb, g, kind, ('this',), ('param', i), field, depth + 1)
                if inner and must_pass(g, g.entry, inner) is None:
                    ids.append(n['id'])

    def mentions_other(nid):
        for x in fn.subtree(nid):
            m = fn.nodes[x]
            if m.get('k') == 'member' and m.get('field') and m.get('name') == field:
                fp = _field_path(fn, x)
                if fp is not None and fp[0] == other_root and fp[1][:1] == (field,):
                    return True
        return False

    def is_self(nid):
        fp = _field_path(fn, nid)
        return fp is not None and fp[0] == self_root and fp[1][:1] == (field,)
    for n in fn.all_nodes():
        k = n.get('k')
        if k == 'init' and n.get('name') == field and self_root == ('this',) and isinstance(n.get('init'), int) and mentions_other(n['init']):
            ids.append(n['id'])
        elif k == 'assign' and n.get('op') == '=' and is_self(n['lhs']) and mentions_other(n['rhs']):
            ids.append(n['id'])
        elif k == 'call' and n.get('op') == '=' and (n.get('recv') is not None or n.get('args')):
            lhs = n['recv'] if n.get('recv') is not None else n['args'][0]
            rhs = n['args'][-1] if n.get('args') else None
            if rhs is not None and is_self(lhs) and mentions_other(rhs):
                ids.append(n['id'])
        elif k == 'call' and n.get('q', '').rsplit('::', 1)[-1] == 'swap':
            a = list(n.get('args', []))
            if n.get('recv') is not None and len(a) == 1:
                a = [n['recv'], a[0]]
            if len(a) == 2 and ((is_self(a[0]) and mentions_other(a[1])) or (is_self(a[1]) and mentions_other(a[0]))):
                ids.append(n['id'])
    return ids


def self_assignment_edges(fn, other_root):
    """edge filter that prunes the `this == &other` edge of a self-assignment test."""
    def edge_ok(b, i, s):
        blk = fn.blocks[b]
        if 'cond' not in blk or len(blk['succs']) != 2:
            return True
        for (c, sense) in edge_facts(fn, blk, i):
            p = cmp_parts(fn, c)
            if p is None or p[0] not in ('==', '!='):
                continue
            kinds = {(scn(fn, x) or {}).get('k') for x in (p[1], p[2])}
            if 'this' in kinds and any((scn(fn, x) or {}).get('k') == 'unop' and (scn(fn, x) or {}).get('op') == '&' for x in (p[1], p[2])):
                if (p[0] == '==') == sense:
                    return False
        return True
    return edge_ok


def invalidated_fields(fb, fn, other_root, depth=0):
    """members of the other object written by fn after the transfer: direct stores, or a call on it of a method that stores to its own members
    (or a helper of the class that receives it and does so) -> {field name: [node ids]}"""
    out = {}
    for n in fn.all_nodes():
        k = n.get('k')
        if depth < 2:
            h = _helper_with_other(fb, fn, n, ('this',), other_root)
            if h is not None:
                for f_, ids_ in invalidated_fields(fb, h[0], ('param', h[1]), depth + 1).items():
                    if must_pass(h[0], h[0].entry, ids_) is None:
                        out.setdefault(f_, []).append(n['id'])
        if k == 'assign':
            fp = _field_path(fn, n['lhs'])
            if fp is not None and fp[0] == other_root and fp[1]:
                out.setdefault(fp[1][0], []).append(n['id'])
        elif k == 'call' and n.get('q') == 'std::exchange' and len(n.get('args', [])) == 2:
            fp = _field_path(fn, n['args'][0])     # std::exchange(other.f, v) yields other.f and stores v into it
            if fp is not None and fp[0] == other_root and fp[1]:
                out.setdefault(fp[1][0], []).append(n['id'])
        elif k == 'call' and n.get('q', '').rsplit('::', 1)[-1] == 'swap' and len(n.get('args', [])) == 2:
            for a in n['args']:     # exchanging a member writes the other object's member (with what this object held before)
                fp = _field_path(fn, a)
                if fp is not None and fp[0] == other_root and fp[1]:
                    out.setdefault(fp[1][0], []).append(n['id'])
        elif k == 'call' and n.get('recv') is not None and 'u' in n:
            fp = _field_path(fn, n['recv'])
            if fp is None or fp[0] != other_root or fp[1]:
                continue
            g = _callee_for(fb, fn, n)
            if g is None or not g.has_cfg:
                continue
            for m in g.all_nodes():
                if m.get('k') == 'assign' and g.is_this_member(m['lhs']):
                    out.setdefault(g.sn(m['lhs'])['name'], []).append(n['id'])
    return out


def memberwise_rule(fb, R, rule, recs, exceptions=None, by_value_assign=True):
    """Shared LAYOUT rule (C12 / C15; the verdicts are reported under the caller's rule name): every user-written copy / move
    constructor, copy / move assignment and swap of the given records handles every non-static data member of the record (list
    taken from the record facts) on every normal path; `exceptions` = {(class, kind, field): reason}.  An assignment operator
    taking its argument by value must delegate to the class's swap with (*this, argument).  Returns the (Fn, kind, other root) list."""
    exceptions = exceptions or {}
    done = []
    seen = set()
    for rec in recs:
        sms = special_members(fb, rec)
        swaps = {f.usr for (f, kind, _s, _o) in sms if kind == 'swap'}
        for (fn, kind, sroot, oroot) in sms:
            k = (fn.pat, kind)
            if k in seen:
                continue
            seen.add(k)
            done.append((fn, kind, oroot, rec))
            edge_ok = self_assignment_edges(fn, oroot)
            for fd in rec.fields:
                name = fd['name']
                key = '%s(%s)#%s' % (fn.q, kind, name)
                why = exceptions.get((rec.q, kind, name))
                if why is not None:
                    R.ok(rule, key, fn.site, 'not transferred member-wise: ' + why)
                    continue
                ids = member_transfers(fb, fn, kind, sroot, oroot, name)
                w = must_pass(fn, fn.entry, ids, edge_ok) if ids else [('exit', fn.exit)]
                R.check(w is None, rule, key, fn.site,
                        '%s %s of %s does not %s member %s%s (the object would keep its old %s)'
                        % (kind, fn.q, rec.q, 'exchange' if kind == 'swap' else 'take over', name, '' if not ids else ' on every path', name))
        if by_value_assign:
            for fn in fb.functions:
                if fn.cls == rec.q and fn.has_cfg and fn.name == 'operator=' and len(fn.params) == 1 and (fn.pat, 'by-value') not in seen \
                        and not fn.params[0]['tC'].rstrip().endswith('&') and fn.params[0]['tC'].replace('const ', '').split('<', 1)[0] == rec.q:
                    seen.add((fn.pat, 'by-value'))
                    calls = [n for n in fn.all_nodes() if n.get('k') == 'call' and n.get('u') in swaps and len(n.get('args', [])) == 2]
                    ok = False
                    for c in calls:
                        roots = []
                        for a in c['args']:
                            x = scn(fn, a)
                            if x is not None and x.get('k') == 'unop' and x.get('op') == '*' and (scn(fn, x['sub']) or {}).get('k') == 'this':
                                roots.append('this')
                            elif x is not None and x.get('k') == 'var' and x.get('d') == fn.params[0]['d']:
                                roots.append('param')
                        if sorted(roots) == ['param', 'this'] and must_pass(fn, fn.entry, [c['id']]) is None:
                            ok = True
                    R.check(ok, rule, '%s(by-value)#swaps-with-argument' % fn.q, fn.site,
                            'copy-and-swap assignment %s must call the class swap with (*this, argument) on every path' % fn.q)
    return done


def nonnull_test(fn, cond):
    """condition tests a pointer-like value against null -> (expr id of the pointer, True when cond == true means non-null), else None"""
    cond, pol = unnegate(fn, cond)
    x = scn(fn, cond)
    if x is None:
        return None
    if x.get('k') == 'call' and x.get('q', '').rsplit('::', 1)[-1] in ('(conv)', 'operator bool') and x.get('recv') is not None:
        return x['recv'], pol
    p = cmp_parts(fn, cond)
    if p is not None and p[0] in ('==', '!='):
        for a, z in ((p[1], p[2]), (p[2], p[1])):
            zn = scn(fn, z)
            if zn is not None and (zn.get('null') or fn.const_value(z) == 0):
                return a, (p[0] == '!=') == pol
        return None
    if (x.get('t') or '').rstrip().endswith('*'):
        return x['id'], pol
    return None


def pointer_origin(fn, nid):
    """follow a pointer value back through locals and smart-pointer get(): -> expression id it was taken from"""
    hops = 0
    while nid is not None and hops < 6:
        hops += 1
        n = scn(fn, nid)
        if n is None:
            return nid
        if n.get('k') == 'var' and n.get('vk') == 'local' and n['d'] not in assigned_vars(fn) and not _decl_type(fn, n['d']).rstrip().endswith('&'):
            init = local_init(fn, n['d'])
            if init is None:
                return n['id']
            nid = init
        elif n.get('k') == 'call' and n.get('q') in ('std::unique_ptr::get', 'std::shared_ptr::get') and n.get('recv') is not None:
            nid = n['recv']
        else:
            return n['id']
    return nid
