"""EXCFLOW engine (exception routing) and the LAYOUT member-order rule.  No property-specific logic lives here.

EXCFLOW
    Esc(fb)                     interprocedural "which explicitly thrown exception types can propagate out of a function"
      .escapes(fn)              {type: Witness} as seen by a caller of fn (empty for noexcept functions: they terminate)
      .body_escapes(fn)         the same, ignoring fn's own noexcept (used for destructors / noexcept functions)
      .sites(fn)                every throw / call site of fn with a non-empty thrown set: what is thrown there, which
                                handlers of fn catch it, what still escapes fn
      .chain(w)                 human readable call chain of a witness down to the throw statement
    thread_starts(fb)           every place a thread is started (std::thread ctor, thread_handler ctor, vector<thread>::
                                emplace_back) with the resolved entry function(s) and the argument expressions
    catch_alls(fn)              [(try, handler)] catch (...) handlers of fn
    handler_entry_block(fn, h)  CFG block where handler h starts
    handler_rethrows(fn, h)     handler contains a `throw;` that belongs to it
    handler_always_rethrows(fn, h)   every path through the handler ends in `throw;`
    must_pass(fn, start_block, targets)   None if every normal path from the block start to the function exit passes
                                through one of the target elements, else a witness path
    covered_by_catch_all(fn, nid)  innermost non-rethrowing catch (...) whose try block contains nid (or None)

  Sources of exceptions: `throw X` statements (type + base closure from the fact base), a small table of standard
  functions that rethrow stored exceptions (future::get, rethrow_exception: dynamic type unknown, written '*', only
  catch (...) covers it) or throw documented types (at() -> std::out_of_range).  Calls are followed through resolved
  callees with bodies in the fact base, all overriders of virtual callees, lambdas handed to std algorithms, and
  std::function calls resolved by signature to the lambdas of that signature.  Bodies outside /repo/include/osmium
  (std, protozero, expat, zlib) are not visible and are assumed not to throw (allocation failure is outside the model).
  The CFG has no EH edges; try/catch membership is by source range (fn.enclosing_tries / enclosing_handlers).

LAYOUT
    layout_pairs(fb, rec)       [(referent field, holder field, why, site, kind)] -- members that a thread started by the
                                object (or a sibling whose destructor uses them) references and the member whose
                                destructor joins that thread / uses the reference; `kind` is 'destroy' (referent must be
                                declared before the holder so that it is destroyed after it) or 'init' (the thread is
                                started from the constructor's member-initialiser list, so everything it touches must be
                                initialised, i.e. declared, before it).
"""
from .flow import path_search

ANY = '*'

# standard functions that (re)throw: qualified name -> (type, bases)
STD_THROWS = {
    'std::future::get': (ANY, ()),
    'std::shared_future::get': (ANY, ()),
    'std::rethrow_exception': (ANY, ()),
    'std::rethrow_if_nested': (ANY, ()),
    'std::vector::at': ('std::out_of_range', ('std::logic_error', 'std::exception')),
    'std::basic_string::at': ('std::out_of_range', ('std::logic_error', 'std::exception')),
    'std::array::at': ('std::out_of_range', ('std::logic_error', 'std::exception')),
    'std::map::at': ('std::out_of_range', ('std::logic_error', 'std::exception')),
    'std::unordered_map::at': ('std::out_of_range', ('std::logic_error', 'std::exception')),
}

# std callables that store their functor argument instead of invoking it during the call
_DEFERRING = ('std::thread', 'std::function', 'std::packaged_task', 'std::async', 'std::bind', 'std::ref', 'std::cref',
              'std::move', 'std::forward', 'std::make_unique', 'std::make_shared', 'std::unique_ptr', 'std::shared_ptr')

THREAD_CTORS = ('std::thread::(ctor)', 'osmium::thread::thread_handler::(ctor)')


class Witness:
    """Where a type comes from: node `nid` of function `fn`; `via` is the callee Fn when the site is a call."""
    __slots__ = ('fn', 'nid', 'via', 'what')

    def __init__(self, fn, nid, via, what):
        self.fn, self.nid, self.via, self.what = fn, nid, via, what


class Site:
    __slots__ = ('fn', 'nid', 'label', 'thrown', 'escaping', 'catchers', 'targets')

    def __init__(self, fn, nid, label, thrown, escaping, catchers, targets):
        self.fn, self.nid, self.label, self.thrown, self.escaping, self.catchers, self.targets = \
            fn, nid, label, thrown, escaping, catchers, targets


def _handler_matches(h, typ, bases):
    if h.get('all'):
        return True
    if typ == ANY:
        return False            # a typed handler cannot be shown to cover an exception of unknown dynamic type
    tq = h.get('typeq') or h.get('type')
    return tq == typ or tq in bases


def _innermost_handler(fn, nid):
    hs = fn.enclosing_handlers(nid)
    if not hs:
        return None
    return max(hs, key=lambda th: th[1]['b'])


def handler_rethrows(fn, h):
    for n in fn.all_nodes():
        if n.get('k') == 'throw' and n.get('rethrow') and 'o' in n and h['b'] <= n['o'] <= h['e']:
            ih = _innermost_handler(fn, n['id'])
            if ih is not None and ih[1] is h:
                return True
    return False


def _rethrow_nodes(fn, h):
    out = []
    for n in fn.all_nodes():
        if n.get('k') == 'throw' and n.get('rethrow') and 'o' in n and h['b'] <= n['o'] <= h['e']:
            ih = _innermost_handler(fn, n['id'])
            if ih is not None and ih[1] is h:
                out.append(n)
    return out


def catch_alls(fn):
    return [(t, h) for t in fn.tries for h in t['handlers'] if h.get('all')]


def handler_entry_block(fn, h):
    """The catch-labelled CFG block whose handler range is h (matched by the first element / any node offset)."""
    cands = []
    for bid in fn.catch_entry_blocks():
        blk = fn.blocks[bid]
        offs = [fn.nodes[e].get('o') for e in blk['elems'] if fn.nodes[e].get('o') is not None]
        lab = blk.get('label', {})
        lo = lab.get('o') if isinstance(lab, dict) else None
        if lo is not None and h['b'] - 64 <= lo <= h['e']:
            cands.append((abs(lo - h['b']), bid))
        elif offs and all(h['b'] <= o <= h['e'] for o in offs):
            cands.append((0, bid))
    if cands:
        return min(cands)[1]
    # empty handler blocks carry no element: fall back to the order of handlers vs. the order of catch blocks
    hs = sorted([hh for t in fn.tries for hh in t['handlers']], key=lambda x: x['b'])
    bl = sorted(fn.catch_entry_blocks(), key=lambda b: _block_order_key(fn, b))
    if len(hs) == len(bl):
        return bl[hs.index(h)]
    return None


def _block_order_key(fn, b):
    """Source order of a catch block: smallest offset found in the block or its successors' first elements; clang numbers
    blocks in reverse source order, so the block id is a usable tie-breaker (larger id = earlier)."""
    offs = [fn.nodes[e].get('o') for e in fn.blocks[b]['elems'] if fn.nodes[e].get('o') is not None]
    return (min(offs) if offs else 1 << 60, -b)


def _is_exit(e):
    return isinstance(e, tuple) and e[0] == 'exit'


def must_pass(fn, start_block, targets, also_barrier=None):
    """None when every path from the start of `start_block` to the function exit that does not end in a throw statement
    passes through an element of `targets`; else a witness path."""
    tg = set(targets)

    def barrier(e):
        if e in tg:
            return True
        n = fn.nodes.get(e)
        if n is not None and n.get('k') == 'throw':
            return True
        return bool(also_barrier and also_barrier(e))
    return path_search(fn, start_block, _is_exit, barrier, from_block_start=True)


def handler_always_rethrows(fn, h):
    """None if no path from the handler entry reaches the function exit (or leaves the handler) except through `throw;`."""
    b = handler_entry_block(fn, h)
    if b is None:
        return ['handler entry block not found']
    rethrows = {n['id'] for n in _rethrow_nodes(fn, h)}

    def barrier(e):
        n = fn.nodes.get(e)
        return n is not None and n.get('k') == 'throw'          # any throw ends the path exceptionally
    if not rethrows:
        return ['no throw; in handler']
    return path_search(fn, b, _is_exit, barrier, from_block_start=True)


def covered_by_catch_all(fn, nid):
    """Innermost (try, handler) with a catch (...) that does not rethrow and whose try block contains nid."""
    ts = sorted(fn.enclosing_tries(nid), key=lambda t: -t['b'])
    for t in ts:
        for h in t['handlers']:
            if h.get('all'):
                if not handler_rethrows(fn, h):
                    return (t, h)
                break
    return None


class Esc:
    def __init__(self, fb):
        self.fb = fb
        self.bases = {}            # type -> set of base names
        self.opaque = []           # (fn, node) indirect calls that could not be resolved
        self._src = {}
        self._sig = None
        self._body = None          # id(fn) -> {type: Witness}
        self._fn = {}
        self._solve()

    # ------------------------------------------------------------------ call resolution
    def _lambdas_by_sig(self):
        if self._sig is None:
            self._sig = {}
            for f in self.fb.functions:
                if f.is_lambda:
                    sig = 'std::function<%s (%s)>' % (f.retC, ', '.join(p['tC'] for p in f.params))
                    self._sig.setdefault(sig, []).append(f)
        return self._sig

    def targets(self, fn, n):
        """Function bodies a call-like node may run (in the calling thread, during the call)."""
        fb = self.fb
        out = []
        q = n.get('q', '')
        u = n.get('u')
        if u:
            out.extend(fb.by_usr.get(u, []))
            if n.get('virt'):
                out.extend(fb.overriders(u))
        if q == 'std::function::operator()':
            t = self._lambdas_by_sig().get(n.get('rclsT', ''), [])
            if t:
                out.extend(t)
            else:
                self.opaque.append((fn, n))
        elif n.get('k') == 'call' and q.startswith('std::') and not q.startswith(_DEFERRING):
            for a in n.get('args', []):
                if a is None:
                    continue
                for x in fn.subtree(a):
                    nx = fn.nodes[x]
                    if nx.get('k') == 'lambda':
                        g = fb.lambda_fn(fn, nx)
                        if g is not None:
                            out.append(g)
        seen = set()
        res = []
        for g in out:
            if id(g) not in seen and g.has_cfg:
                seen.add(id(g))
                res.append(g)
        return res

    def _sources(self, fn):
        s = self._src.get(id(fn))
        if s is None:
            s = []
            for n in fn.all_nodes():
                k = n.get('k')
                if k == 'throw':
                    if not n.get('rethrow') and n.get('tt'):
                        self.bases.setdefault(n['tt'], set()).update(n.get('bases', []))
                        s.append((n['id'], 'throw', n['tt']))
                elif k in ('call', 'construct', 'autodtor') and 'q' in n:
                    if n['q'] in STD_THROWS:
                        typ, bs = STD_THROWS[n['q']]
                        self.bases.setdefault(typ, set()).update(bs)
                        s.append((n['id'], 'std', typ))
                    else:
                        tg = self.targets(fn, n)
                        if tg:
                            s.append((n['id'], 'call', tg))
            self._src[id(fn)] = s
        return s

    # ------------------------------------------------------------------ propagation through the handlers of one function
    def _propagate(self, fn, nid, typ, depth=0):
        """Does an exception of type typ raised at node nid leave fn?  Returns (escapes, [(try, handler) that caught it])."""
        ts = sorted(fn.enclosing_tries(nid), key=lambda t: -t['b'])
        bases = self.bases.get(typ, ())
        for t in ts:
            for h in t['handlers']:
                if _handler_matches(h, typ, bases):
                    rn = _rethrow_nodes(fn, h)
                    if rn and depth < 8:
                        # rethrown from inside the handler: continue from there
                        esc = False
                        catchers = []
                        for r in rn:
                            e2, c2 = self._propagate(fn, r['id'], typ, depth + 1)
                            esc = esc or e2
                            catchers.extend(c2)
                        return esc, [(t, h)] + catchers
                    return False, [(t, h)]
        return True, []

    def _local(self, fn, cur):
        out = {}
        for (nid, kind, payload) in self._sources(fn):
            if kind in ('throw', 'std'):
                if payload not in out:
                    esc, _c = self._propagate(fn, nid, payload)
                    if esc:
                        out[payload] = Witness(fn, nid, None, kind)
            else:
                for g in payload:
                    if g.noexcept:
                        continue
                    for typ in cur.get(id(g), ()):
                        if typ in out:
                            continue
                        esc, _c = self._propagate(fn, nid, typ)
                        if esc:
                            out[typ] = Witness(fn, nid, g, 'call')
        return out

    def _solve(self):
        fns = [f for f in self.fb.functions if f.has_cfg]
        for f in fns:
            self._fn[id(f)] = f
        cur = {id(f): {} for f in fns}
        changed = True
        rounds = 0
        while changed and rounds < 60:
            changed = False
            rounds += 1
            for f in fns:
                new = self._local(f, cur)
                if set(new) != set(cur[id(f)]):
                    merged = dict(cur[id(f)])
                    for k, v in new.items():
                        merged.setdefault(k, v)
                    if set(merged) != set(cur[id(f)]):
                        cur[id(f)] = merged
                        changed = True
        self._body = cur

    # ------------------------------------------------------------------ queries
    def body_escapes(self, fn):
        return self._body.get(id(fn), {})

    def escapes(self, fn):
        return {} if fn.noexcept else self.body_escapes(fn)

    def sites(self, fn):
        out = []
        for (nid, kind, payload) in self._sources(fn):
            thrown = {}
            targets = []
            if kind in ('throw', 'std'):
                thrown[payload] = Witness(fn, nid, None, kind)
                label = 'throw %s' % payload if kind == 'throw' else fn.nodes[nid]['q']
            else:
                label = fn.nodes[nid]['q']
                for g in payload:
                    if g.noexcept:
                        continue
                    for typ in self.body_escapes(g):
                        thrown.setdefault(typ, Witness(fn, nid, g, 'call'))
                        if g not in targets:
                            targets.append(g)
            if not thrown:
                continue
            escaping = {}
            catchers = []
            for typ, w in thrown.items():
                esc, cs = self._propagate(fn, nid, typ)
                if esc:
                    escaping[typ] = w
                for c in cs:
                    if c not in catchers:
                        catchers.append(c)
            out.append(Site(fn, nid, label, thrown, escaping, catchers, targets))
        return out

    def chain(self, w, typ, limit=8):
        parts = []
        hops = 0
        while w is not None and hops < limit:
            hops += 1
            n = w.fn.nodes[w.nid]
            if w.via is None:
                parts.append('%s at %s' % ('throw %s' % typ if w.what == 'throw' else '%s (rethrows a stored exception)' % n.get('q') if typ == ANY else n.get('q'),
                                           w.fn.loc(w.nid)))
                break
            parts.append('%s calls %s at %s' % (w.fn.q, w.via.q, w.fn.loc(w.nid)))
            w = self.body_escapes(w.via).get(typ)
        return ' -> '.join(parts)


# ---------------------------------------------------------------------------------------------------- thread starts

def _entry_from_arg(fb, fn, aid):
    """Resolve the callable handed to a thread constructor: &C::method, a function name, or a functor object."""
    n = fn.sn(aid)
    if n is None:
        return None
    if n.get('k') == 'unop' and n.get('op') == '&':
        n = fn.sn(n['sub'])
        if n is None:
            return None
    if n.get('k') in ('var', 'member') and (n.get('vk') == 'function' or n.get('method')):
        fs = fb.by_usr.get(n.get('u'), []) if n.get('u') else []
        if not fs and n.get('q'):
            fs = fb.fns(n['q'])
        return [f for f in fs if f.has_cfg]
    if n.get('k') == 'call' and n.get('q') in ('std::forward', 'std::move'):
        inner = fn.sn(n['args'][0]) if n.get('args') else None
        if inner is not None and inner.get('k') == 'var' and inner.get('vk') == 'param':
            return 'forwarded'
    t = (n.get('t') or '').replace('const ', '').strip()
    if t:
        fs = [f for f in fb.fns(t + '::operator()') if f.has_cfg]
        if fs:
            return fs
    return None


def thread_starts(fb):
    """[{fn, node, kind, entries:[Fn], args:[arg ids after the callable]}] for every thread started in the fact base.
    Pure forwarding constructors (thread_handler's own `m_thread(std::forward<F>(f), ...)`) are skipped: the real start
    site is the caller that names the function."""
    out = []
    seen = set()
    for fn in fb.functions:
        if not fn.has_cfg:
            continue
        for n in fn.all_nodes():
            k = n.get('k')
            q = n.get('q')
            if k == 'construct' and q in THREAD_CTORS and n.get('args'):
                kind = q.rsplit('::', 2)[-2] if q.startswith('osmium') else 'std::thread'
            elif k == 'call' and q in ('std::vector::emplace_back', 'std::vector::push_back') and 'std::thread' in n.get('rclsT', '') and n.get('args'):
                kind = 'vector<std::thread>'
            else:
                continue
            args = [a for a in n['args'] if a is not None]
            if len(args) == 1:
                a0 = fn.sn(args[0])
                if a0 is not None and a0.get('k') == 'construct' and a0.get('q') in THREAD_CTORS:
                    continue        # move-construction from a temporary thread: the inner construct is the start site
                if n.get('copymove'):
                    continue
            ent = _entry_from_arg(fb, fn, args[0])
            if ent == 'forwarded':
                continue
            key = (fn.q, fn.pat, n.get('o'))
            if key in seen:
                continue
            seen.add(key)
            out.append({'fn': fn, 'node': n, 'kind': kind, 'entries': ent or [], 'args': args[1:]})
    return out


# ---------------------------------------------------------------------------------------------------- LAYOUT

def _dtor_reaches_join(fb, type_q, depth=6):
    for d in fb.fns(type_q + '::(dtor)'):
        cl = fb.callees_closure(d, depth)
        if 'std::thread::join' in cl:
            return True
    return False


def _is_thread_type(tC):
    t = tC.replace('const ', '').strip()
    if t.endswith('&') or t.endswith('*'):
        return False            # a reference to somebody else's threads is not ownership
    return t == 'std::thread' or t.startswith('std::vector<std::thread')


def _this_field_of(fn, aid):
    """Field of *this an argument expression refers to (through std::ref, &, unique_ptr deref, casts), or 'this'."""
    hops = 0
    while aid is not None and aid in fn.nodes and hops < 20:
        hops += 1
        n = fn.sn(aid)
        if n is None:
            return None
        k = n.get('k')
        if k == 'this':
            return 'this'
        if k == 'member' and n.get('field'):
            b = fn.sn(n['base'])
            if b is not None and b.get('k') == 'this':
                return n['name']
            return None
        if k == 'unop' and n.get('op') == '&':
            aid = n['sub']
        elif k == 'call' and n.get('q') in ('std::ref', 'std::cref') and n.get('args'):
            aid = n['args'][0]
        elif k == 'call' and n.get('q') in ('std::unique_ptr::operator*', 'std::unique_ptr::get', 'std::unique_ptr::operator->',
                                            'std::shared_ptr::operator*', 'std::shared_ptr::get') and n.get('recv') is not None:
            aid = n['recv']
        elif k == 'cast':
            aid = n.get('sub')
        else:
            return None
    return None


def _by_reference(fb, cn, idx):
    """Is argument idx of construct/call node cn bound to a reference or pointer parameter?  None when unknown."""
    for g in fb.by_usr.get(cn.get('u'), []):
        if idx < len(g.params):
            t = g.params[idx]['tC'].strip()
            return t.endswith('&') or t.endswith('*')
    return None


def _fields_touched(fb, entry, cls, depth=6):
    """Names of fields of class `cls` accessed through `this` by entry and by the methods of cls it calls."""
    out = {}
    seen = set()
    work = [(entry, 0)]
    while work:
        f, d = work.pop()
        if id(f) in seen:
            continue
        seen.add(id(f))
        for n in f.all_nodes():
            if n.get('k') == 'member' and n.get('field') and f.is_this_member(n['id']) and n.get('q', '').startswith(cls + '::'):
                out.setdefault(n['name'], f.loc(n['id']))
            if d < depth and n.get('k') == 'call' and n.get('u') and n.get('rcls') == cls:
                for g in fb.by_usr.get(n['u'], []):
                    work.append((g, d + 1))
        for g in fb.lambdas_in(f):
            work.append((g, d + 1))
    return out


def layout_pairs(fb, rec):
    """See module docstring.  Returns (pairs, notes); pairs = [dict(referent, holder, kind, why, site)]."""
    cls = rec.q
    fields = {f['name']: f for f in rec.fields}
    pairs = []
    notes = []
    methods = [f for f in fb.functions if f.cls == cls and f.has_cfg and not f.is_lambda]
    starts = [s for s in thread_starts(fb) if s['fn'].cls == cls and not s['fn'].is_lambda]

    def holder_of(fn, node):
        """Field of cls that receives the object built by construct/call node (init list, assignment, emplace_back)."""
        pm = fn.parent_map()
        if node.get('k') == 'call' and node.get('recv') is not None:       # m_threads.emplace_back(...)
            f = _this_field_of(fn, node['recv'])
            return (f, False) if f and f != 'this' else (None, False)
        x = node['id']
        hops = 0
        while x in pm and hops < 12:
            x = pm[x]
            hops += 1
            nx = fn.nodes[x]
            if nx.get('k') == 'init' and nx.get('name') in fields:
                return (nx['name'], True)
            if nx.get('k') == 'assign' or (nx.get('k') == 'call' and nx.get('op') == '='):
                lhs = nx.get('lhs', nx.get('recv'))
                f = _this_field_of(fn, lhs)
                if f and f != 'this':
                    return (f, False)
        return (None, False)

    def joiner_for(holder):
        """Field whose destructor joins the threads kept in `holder` ('' = the class' own destructor body)."""
        hf = fields[holder]
        if not _is_thread_type(hf['tC']):
            return holder
        # a sibling constructed from a reference to the thread container whose destructor joins
        for m in methods:
            if m.kind != 'ctor':
                continue
            for n in m.all_nodes():
                if n.get('k') == 'init' and n.get('name') in fields and n['name'] != holder and isinstance(n.get('init'), int):
                    sib = fields[n['name']]
                    if not sib.get('rec') or not _dtor_reaches_join(fb, sib['rec']):
                        continue
                    for x in m.subtree(n['init']):
                        if _this_field_of(m, x) == holder:
                            return n['name']
        for d in fb.fns(cls + '::(dtor)'):
            if 'std::thread::join' in fb.callees_closure(d, 6):
                return ''
        return None

    def add(referent, holder, kind, why, site):
        if referent == holder or referent not in fields or holder not in fields:
            return
        key = (referent, holder, kind)
        if any((p['referent'], p['holder'], p['kind']) == key for p in pairs):
            return
        pairs.append({'referent': referent, 'holder': holder, 'kind': kind, 'why': why, 'site': site})

    # (a) threads started by the object
    for s in starts:
        fn, node = s['fn'], s['node']
        holder, in_init = holder_of(fn, node)
        if holder is None:
            notes.append('%s: cannot tell which member receives the thread started at %s' % (cls, fn.loc(node['id'])))
            continue
        joiner = joiner_for(holder)
        if joiner is None:
            notes.append('%s: no member or destructor joins the thread kept in %s' % (cls, holder))
            continue
        refs = {}
        for a in s['args']:
            f = _this_field_of(fn, a)
            if f == 'this':
                for e in s['entries']:
                    if e.cls == cls:
                        for nm, loc in _fields_touched(fb, e, cls).items():
                            refs.setdefault(nm, 'accessed by thread function %s' % e.q)
            elif f:
                sn = fn.sn(a)
                byref = sn is not None and (sn.get('k') == 'unop' or (sn.get('k') == 'call' and sn.get('q') in ('std::ref', 'std::cref')))
                if byref:
                    refs.setdefault(f, 'passed by reference/pointer to thread function %s' % ', '.join(e.q for e in s['entries']))
        site = fn.loc(node['id'])
        for r, why in refs.items():
            if r == holder:
                continue
            if joiner != '' and not fields[r].get('trivial_dtor'):
                add(r, joiner, 'destroy', why, site)
            if in_init:
                add(r, holder, 'init', why + ' (thread started from the member-initialiser list)', site)
        if joiner not in ('', holder):
            add(holder, joiner, 'destroy', 'thread container joined by the destructor of %s' % joiner, site)

    # (b) members with a user-provided destructor that are constructed from references to siblings
    for m in methods:
        if m.kind != 'ctor':
            continue
        for n in m.all_nodes():
            if n.get('k') != 'init' or n.get('name') not in fields or not isinstance(n.get('init'), int):
                continue
            hf = fields[n['name']]
            hrec = fb.record(hf['rec']) if hf.get('rec') else None
            if hrec is None or not hrec.user_dtor or not hf['rec'].startswith('osmium::'):
                continue
            c = m.sn(n['init'], casts=False)
            while c is not None and c.get('k') == 'construct' and c.get('elidable') and c.get('args'):
                c = m.sn(c['args'][0], casts=False)
            if c is None or c.get('k') != 'construct':
                continue
            for i, a in enumerate(c.get('args', [])):
                if a is None:
                    continue
                f = _this_field_of(m, a)
                if not f or f == 'this' or f == n['name']:
                    continue
                if _by_reference(fb, c, i):
                    if not fields[f].get('trivial_dtor'):
                        add(f, n['name'], 'destroy', 'reference kept by %s, whose destructor is user-provided' % n['name'], m.loc(n['id']))
    return pairs, notes


# ---------------------------------------------------------------------------------------------------- PAIR helper

def elem_of(fn, nid):
    """CFG element that contains node nid (nid itself when it is an element)."""
    pos = fn.positions()
    if nid not in pos:
        return None
    b, i = pos[nid]
    el = fn.blocks[b]['elems']
    return el[i] if i < len(el) else None


def must_call(fb, fn, is_target, depth=5, _memo=None, _stack=None):
    """None when every normal path (not ending in a throw) from the entry of fn to its exit executes a call for which
    is_target(fn, node) holds, directly or inside a callee that itself must-calls it (non-virtual callees with a body;
    a virtual call counts only if every overrider does).  Otherwise a witness path (list) in fn."""
    memo = _memo if _memo is not None else {}
    stack = _stack if _stack is not None else set()
    if id(fn) in memo:
        return memo[id(fn)]
    if id(fn) in stack or depth < 0 or not fn.has_cfg:
        return ['recursion/depth']
    stack.add(id(fn))
    targets = set()
    for n in fn.all_nodes():
        if n.get('k') not in ('call', 'construct') or 'q' not in n:
            continue
        hit = is_target(fn, n)
        if not hit and n.get('u') and n['q'].startswith('osmium::'):
            gs = [g for g in fb.by_usr.get(n['u'], []) if g.has_cfg]
            if n.get('virt'):
                gs = gs + [g for g in fb.overriders(n['u']) if g.has_cfg]
                gs = [g for g in gs if g.has_cfg]
            if gs and all(must_call(fb, g, is_target, depth - 1, memo, stack) is None for g in gs):
                hit = True
        if hit:
            e = elem_of(fn, n['id'])
            if e is not None:
                targets.add(e)
    stack.discard(id(fn))
    w = must_pass(fn, fn.entry, targets)
    memo[id(fn)] = w
    return w
