"""Helpers for the C20 rules: oracle tables derived from the library's own declarations, expression roots,
path enumeration.  No rule logic (no R.bad) in here."""
import re


class Shape(Exception):
    """Unknown shape: the caller turns this into R.broken (never a pass, never a violation)."""


# ---------------------------------------------------------------------------------------------- types

def split_ref(t):
    """'const osmium::Node &' -> ('osmium::Node', True, True)   (class, is_const, is_reference)"""
    t = t.strip()
    ref = False
    if t.endswith('&&'):
        t = t[:-2].strip()
        ref = True
    elif t.endswith('&'):
        t = t[:-1].strip()
        ref = True
    const = False
    if t.startswith('const '):
        t = t[6:].strip()
        const = True
    return t, const, ref


def strip_const(t):
    t = t.strip()
    return t[6:].strip() if t.startswith('const ') else t


# ---------------------------------------------------------------------------------------------- oracle

class Oracle:
    """The library's own declarations:
       * enumerators of osmium::item_type
       * compat(T): the exact set of enumerators for which T::is_compatible_to(t) is true (abstract evaluation of the
         one-return body over the finite enum domain; the effective function is T's own or the nearest base's)
       * the callback table of a handler base class: method name -> parameter class
    """

    def __init__(self, fb):
        self.fb = fb
        e = fb.enum('osmium::item_type')
        if e is None:
            raise Shape('enum osmium::item_type not found')
        self.enum_by_value = {}
        self.enum_by_name = {}
        for x in e['enumerators']:
            v = int(x['value'])
            if v in self.enum_by_value:
                raise Shape('osmium::item_type has two enumerators with value %d' % v)
            self.enum_by_value[v] = x['name']
            self.enum_by_name[x['name']] = v
        self.rec_by_full = {}
        for r in fb.records:
            self.rec_by_full.setdefault(r.full, r)
        self.compat_fn = {}
        for f in fb.functions:
            if f.name == 'is_compatible_to' and f.clsT:
                self.compat_fn.setdefault(f.clsT, f)
        self._compat = {}
        self._truth = {}

    # -- is_compatible_to truth sets
    def _effective_compat_fn(self, full):
        seen = set()
        work = [full]
        while work:
            c = work.pop(0)
            if c in seen:
                continue
            seen.add(c)
            if c in self.compat_fn:
                return self.compat_fn[c]
            r = self.rec_by_full.get(c)
            if r is None:
                continue
            for b in r.bases:
                work.append(b['t'])
        return None

    def compat(self, full):
        """frozenset of enumerator names accepted by <full>::is_compatible_to, or None if the class has none."""
        if full in self._compat:
            return self._compat[full]
        f = self._effective_compat_fn(full)
        res = None
        if f is not None:
            res = self.truth_set(f)
        self._compat[full] = res
        return res

    def truth_set(self, f):
        """exact set of enumerator names for which the predicate f(item_type) returns true: the body is evaluated for every
        enumerator (finite domain) -- equality, range and bit tests, casts, named locals, early returns, switch."""
        key = id(f)
        if key in self._truth:
            return self._truth[key]
        if len(f.params) != 1 or not f.has_cfg:
            raise Shape('%s: not a predicate of one parameter' % f.full)
        pd = f.params[0]['d']
        acc = set()
        for name, v in self.enum_by_name.items():
            if self._run(f, pd, v):
                acc.add(name)
        self._truth[key] = frozenset(acc)
        return self._truth[key]

    def _run(self, f, pd, v):
        b = f.entry
        seen = set()
        while True:
            if b in seen:
                raise Shape('%s: loop in an is_compatible_to predicate' % f.full)
            seen.add(b)
            blk = f.blocks[b]
            for e in blk['elems']:
                n = f.nodes[e]
                if n.get('k') == 'return':
                    if 'sub' not in n:
                        raise Shape('%s: return without value' % f.full)
                    return bool(self._eval(f, n['sub'], pd, v))
                if n.get('k') == 'throw':
                    raise Shape('%s: predicate throws' % f.full)
            succs = blk['succs']
            if blk.get('termcls') == 'SwitchStmt':
                val = self._eval(f, blk['cond'], pd, v)
                match = dflt = after = None
                for s_ in succs:
                    if s_ is None:
                        continue
                    lab = f.blocks[s_].get('label') or {}
                    if 'case' in lab:
                        if f.const_value(lab['case']) == val:
                            match = s_
                    elif lab.get('default'):
                        dflt = s_
                    else:
                        after = s_
                nxt = match if match is not None else (dflt if dflt is not None else after)
            elif 'cond' in blk and len(succs) == 2:
                nxt = succs[0] if self._eval(f, blk['cond'], pd, v) else succs[1]
            else:
                live = [x for x in succs if x is not None]
                nxt = live[0] if len(live) == 1 else None
            if nxt is None or b == f.exit:
                raise Shape('%s: a path of the predicate ends without a return value' % f.full)
            b = nxt

    def _local_init(self, f, d):
        init = None
        for n in f.all_nodes():
            if n.get('k') == 'decl':
                for x in n['vars']:
                    if x['d'] == d:
                        if init is not None or not isinstance(x.get('init'), int):
                            return None
                        init = x['init']
            elif n.get('k') == 'assign':
                l = f.sn(n['lhs'])
                if l is not None and l.get('k') == 'var' and l.get('d') == d:
                    return None
        return init

    def _eval(self, f, nid, pd, v, depth=0):
        n = f.sn(nid)
        if n is None or depth > 60:
            raise Shape('%s: cannot evaluate is_compatible_to body' % f.full)
        k = n.get('k')
        if k == 'var' and n.get('d') == pd:
            return v
        cv = f.const_value(nid)
        if cv is not None:
            return cv
        ev = lambda x: self._eval(f, x, pd, v, depth + 1)
        if k == 'var' and n.get('vk') == 'local':
            init = self._local_init(f, n['d'])
            if init is not None:
                return ev(init)
        if k == 'binop':
            op = n['op']
            if op == '||':
                return bool(ev(n['lhs'])) or bool(ev(n['rhs']))
            if op == '&&':
                return bool(ev(n['lhs'])) and bool(ev(n['rhs']))
            if op == ',':
                return ev(n['rhs'])
            a, b = int(ev(n['lhs'])), int(ev(n['rhs']))
            table = {'==': lambda: a == b, '!=': lambda: a != b, '<': lambda: a < b, '<=': lambda: a <= b, '>': lambda: a > b,
                     '>=': lambda: a >= b, '&': lambda: a & b, '|': lambda: a | b, '^': lambda: a ^ b, '+': lambda: a + b,
                     '-': lambda: a - b, '*': lambda: a * b, '<<': lambda: a << b if 0 <= b < 64 else None,
                     '>>': lambda: a >> b if 0 <= b < 64 else None,
                     '/': lambda: None if b == 0 or a < 0 or b < 0 else a // b, '%': lambda: None if b == 0 or a < 0 or b < 0 else a % b}
            if op in table:
                r = table[op]()
                if r is not None:
                    return r
        if k == 'unop':
            if n['op'] == '!':
                return not ev(n['sub'])
            if n['op'] == '-':
                return -int(ev(n['sub']))
            if n['op'] == '+':
                return int(ev(n['sub']))
        if k == 'cast':
            # casts between the enum and integer types wide enough for its values keep the value
            return ev(n['sub'])
        if k == 'condop':
            return ev(n['then']) if ev(n['cond']) else ev(n['else'])
        if k == 'call' and 'u' in n and n.get('args') is not None:
            # another predicate of the same shape (is_compatible_to of a base, a constexpr helper of one argument)
            for g in self.fb.by_usr.get(n['u'], []):
                if g.has_cfg and len(g.params) == 1 and len(n.get('args', [])) == 1 and depth < 20:
                    return self._run(g, g.params[0]['d'], int(ev(n['args'][0])))
        raise Shape('%s: is_compatible_to uses an expression form the evaluator does not know (%s)' % (f.full, f.expr(nid)))

    # -- handler callback tables
    def callback_table(self, base_q):
        """{method name: parameter class (canonical, no const/ref)} for one-parameter methods of a handler base."""
        out = {}
        found = False
        for f in self.fb.functions:
            if f.cls == base_q and f.kind == 'method' and not f.is_lambda:
                found = True
                if len(f.params) == 1:
                    cls, _c, ref = split_ref(f.params[0]['tC'])
                    if ref:
                        if f.name in out and out[f.name] != cls:
                            raise Shape('%s::%s is overloaded on different classes' % (base_q, f.name))
                        out[f.name] = cls
        if not found:
            raise Shape('no method bodies of %s in the fact base' % base_q)
        return out

    def is_derived(self, full, base_q):
        r = self.rec_by_full.get(full)
        return r is not None and base_q in r.allbases


def expected_calls(oracle, table, param_class_of, enumerator):
    """Callbacks of `table` that must be called for an item whose type is `enumerator`, most general first.
    param_class_of(method) -> class whose is_compatible_to decides."""
    hits = []
    for m in table:
        c = oracle.compat(param_class_of(m))
        if c is None:
            raise Shape('callback %s: parameter class %s has no is_compatible_to' % (m, param_class_of(m)))
        if enumerator in c:
            hits.append((-len(c), m))
    hits.sort()
    sizes = [h[0] for h in hits]
    if len(set(sizes)) != len(sizes):
        raise Shape('two callbacks accept %s with equally large type sets; order undefined' % enumerator)
    return [m for (_s, m) in hits]


# ---------------------------------------------------------------------------------------------- expressions

def xroot(fn, nid, free_calls=True):
    """Root of an expression: ('param', index, name) | ('var', declid, name) | ('field', name) | ('this',) | None.
    Follows wrappers, casts, member/index/deref chains, call receivers (operator*, operator->, methods), single-argument
    copy constructions and -- if free_calls -- the first argument of free function calls (std::forward, std::begin...)."""
    pidx = {p['d']: i for i, p in enumerate(fn.params)}
    hops = 0
    while nid is not None and nid in fn.nodes and hops < 200:
        hops += 1
        n = fn.nodes[nid]
        k = n.get('k')
        if k in ('wrap', 'icast', 'cast'):
            nid = n.get('sub')
        elif k == 'member':
            b = fn.sn(n['base'])
            if b is not None and b.get('k') == 'this' and n.get('field'):
                return ('field', n['name'])
            nid = n['base']
        elif k == 'index':
            nid = n['base']
        elif k == 'unop' and n['op'] in ('*', '&'):
            nid = n['sub']
        elif k == 'call' and n.get('recv') is not None:
            nid = n['recv']
        elif k == 'call' and free_calls and n.get('args'):
            nid = n['args'][0]
        elif k == 'construct' and len(n.get('args', [])) == 1:
            nid = n['args'][0]
        elif k == 'var':
            if n.get('d') in pidx:
                return ('param', pidx[n['d']], n['name'])
            if n.get('vk') in ('local', 'param'):
                # a local reference alias (`auto& h = handler;`) stands for what it is bound to
                init = _ref_alias_init(fn, n['d'])
                if init is not None:
                    nid = init
                    continue
                return ('var', n['d'], n['name'])
            return None
        elif k == 'this':
            return ('this',)
        else:
            return None
    return None


def _ref_alias_init(fn, d):
    cache = getattr(fn, '_c20_alias', None)
    if cache is None:
        cache = {}
        for n in fn.nodes.values():
            if n.get('k') == 'decl':
                for v in n['vars']:
                    if v['tC'].rstrip().endswith('&') and isinstance(v.get('init'), int):
                        cache[v['d']] = v['init']
        fn._c20_alias = cache
    return cache.get(d)


def resolve_alias(fn, nid):
    """stripped node for nid, looking through local reference aliases (`auto& x = <expr>;` -> <expr>)"""
    hops = 0
    n = fn.sn(nid)
    while n is not None and n.get('k') == 'var' and n.get('vk') in ('local', 'param') and hops < 10:
        init = _ref_alias_init(fn, n['d'])
        if init is None:
            break
        n = fn.sn(init)
        hops += 1
    return n


def has_explicit_cast(fn, nid, stop_at=None):
    """Is there an explicit cast between nid and its root variable?"""
    hops = 0
    while nid is not None and nid in fn.nodes and hops < 200:
        hops += 1
        n = fn.nodes[nid]
        k = n.get('k')
        if k == 'cast':
            return True
        if k in ('wrap', 'icast'):
            nid = n.get('sub')
        elif k == 'call' and n.get('q') in ('std::forward', 'std::move') and n.get('args'):
            nid = n['args'][0]
        else:
            return False
    return False


def calls_in_cfg_order(fn, pred):
    """[(block id, elem index, node)] of call/construct elements satisfying pred, restricted to CFG elements."""
    out = []
    for b in fn.blocks.values():
        for i, e in enumerate(b['elems']):
            n = fn.nodes[e]
            if n.get('k') in ('call', 'construct') and pred(n):
                out.append((b['id'], i, n))
    return out


def name_of(q):
    return q.rsplit('::', 1)[-1]


# ---------------------------------------------------------------------------------------------- paths

def enum_paths(fn, start_block, limit=5000):
    """All acyclic block paths start_block .. exit.  A cycle or too many paths raises Shape."""
    out = []
    stack = [(start_block, (start_block,))]
    while stack:
        b, path = stack.pop()
        if b == fn.exit:
            out.append(list(path))
            if len(out) > limit:
                raise Shape('%s: too many paths' % fn.full)
            continue
        succs = [s for s in fn.blocks[b]['succs'] if s is not None]
        if not succs:
            # block without successor that is not the exit (noreturn): treat as ending the path
            out.append(list(path))
            continue
        for s in succs:
            if s in path:
                raise Shape('%s: loop inside a dispatch function' % fn.full)
            stack.append((s, path + (s,)))
    return out


NORETURN = {'__assert_fail', '__assert_perror_fail', '__assert', 'abort', 'std::abort', 'std::terminate', 'exit', '_exit', 'std::exit',
            '__builtin_unreachable', '__builtin_trap'}


def abnormal(fn, e):
    """element that ends the path abnormally (throw, failed assert, abort): such paths are not 'normal exits'"""
    if isinstance(e, tuple):
        return False
    n = fn.nodes.get(e)
    if n is None:
        return False
    if n.get('k') == 'throw':
        return True
    return n.get('k') == 'call' and (n.get('q') in NORETURN or n.get('name') in NORETURN)


def normal_exit_avoiding(fn, start, node_ids, from_block_start=False, edge_ok=None):
    """witness path from `start` to a NORMAL function exit that avoids node_ids, or None"""
    from .flow import path_search
    ids = set(node_ids)
    return path_search(fn, start, lambda e: isinstance(e, tuple) and e[0] == 'exit', lambda e: e in ids or abnormal(fn, e),
                       edge_ok, from_block_start=from_block_start)


def must_pass(fn, node_ids, start_block=None):
    """Every path from the entry (or start_block) to a normal exit passes through one of node_ids."""
    ids = set(node_ids)
    if not ids:
        return False
    return normal_exit_avoiding(fn, fn.entry if start_block is None else start_block, ids, from_block_start=True) is None


def carriers(fb, fn, pred, mode='must', depth=0):
    """Node ids of fn at which an event happens: nodes with pred(fn, node) true, plus calls (on *this) of other member
    functions of the same class -- extracted private helpers -- whose body performs the event on every normal path
    (mode 'must') or on some path (mode 'may').  The helper's body is thereby treated as inlined at the call."""
    out = []
    for n in list(fn.nodes.values()):
        if pred(fn, n):
            out.append(n['id'])
            continue
        if n.get('k') != 'call' or depth >= 3 or 'u' not in n or not fn.cls or n.get('rcls') != fn.cls:
            continue
        if n.get('recv') is not None and (xroot(fn, n['recv'], free_calls=False) or (None,))[0] != 'this':
            continue
        for g in fb.by_usr.get(n['u'], []):
            if g is fn or not g.has_cfg or g.clsT != fn.clsT:
                continue
            sub = carriers(fb, g, pred, mode, depth + 1)
            if sub and (mode == 'may' or must_pass(g, sub)):
                out.append(n['id'])
            break
    return out


def may_repeat(fn, node_ids):
    """Some path executes two of node_ids (or the same one twice)."""
    from .flow import path_search
    ids = set(node_ids)
    for i in ids:
        if path_search(fn, i, lambda e: e in ids, lambda e: False) is not None:
            return True
    return False


_USR_GET = re.compile(r'@F@get<#V[a-zA-Z]?(\d+)#')


def std_get_index(call_node):
    """Index N of a resolved call to std::get<N>(tuple), from the callee's USR (compiler-produced identity)."""
    m = _USR_GET.search(call_node.get('u', ''))
    return int(m.group(1)) if m else None
