"""STALE engine: storage-alias dataflow.

Decides: no pointer / reference / iterator derived from relocatable storage is used after a call that may relocate
that storage.  Three sub-rules:
  L  locals      flow-sensitive on the CFG of each function, plus interprocedural summaries
                 ("callee relocates root r", "callee uses pointer parameter p after relocating root r")
  F  fields      a pointer-typed member assigned from a derivation that may be stale at an exit of the assigning
                 method (a relocation can follow the assignment) and that another method dereferences
  (W windows = F applied to std::string / std::vector members, used by C06/C02.)

The storage model (which calls relocate, which calls derive) is a frozen table built from the repository's own API
(DESIGN.md appendix B) and closed over the resolved call graph.
"""
from collections import defaultdict

from .flow import forward_may, path_search, describe_path

B = 'osmium::memory::Buffer::'
BU = 'osmium::builder::Builder::'
STR = 'std::basic_string::'
VEC = 'std::vector::'

# calls that may relocate the storage of their receiver ('this')
RELOC_BASE = {
    B + 'reserve_space', B + 'grow', B + 'grow_internal', B + 'operator=', B + 'swap', B + 'purge_removed',
    'osmium::ItemStash::garbage_collect', 'osmium::ItemStash::clear',
}
for _m in ('erase', 'append', 'operator+=', 'assign', 'resize', 'reserve', 'push_back', 'emplace_back', 'insert', 'clear',
           'shrink_to_fit', 'operator=', 'swap', 'replace', 'pop_back'):
    RELOC_BASE.add(STR + _m)
    RELOC_BASE.add(VEC + _m)

# calls whose result points into the storage of their receiver
DERIV = {
    B + 'data', B + 'get', B + 'begin', B + 'end', B + 'cbegin', B + 'cend', B + 'get_iterator', B + 'select', B + 'reserve_space',
    B + 'add_item',
    BU + 'item', BU + 'item_pos', BU + 'reserve_space', BU + 'reserve_space_for',
    'osmium::builder::OSMObjectBuilder::object', 'osmium::builder::OSMObjectBuilder::cobject',
    'osmium::ItemStash::get', 'osmium::ItemStash::get_item',
}
for _m in ('data', 'c_str', 'operator[]', 'begin', 'end', 'cbegin', 'cend', 'front', 'back', 'at'):
    DERIV.add(STR + _m)
    DERIV.add(VEC + _m)

BUILDER_BASE = 'osmium::builder::Builder'
PASS_THROUGH = ('std::move', 'std::forward', 'std::addressof', 'std::next', 'std::prev')


def is_ptr_like(tc):
    t = tc.strip()
    if t.endswith('*') or t.endswith('&') or t.endswith('* const') or t.endswith('*const'):
        return True
    return ('Iterator<' in t or '__normal_iterator' in t or 'ItemIteratorRange<' in t)


class UF:
    def __init__(self):
        self.p = {}

    def find(self, x):
        self.p.setdefault(x, x)
        while self.p[x] != x:
            self.p[x] = self.p[self.p[x]]
            x = self.p[x]
        return x

    def union(self, a, b):
        ra, rb = self.find(a), self.find(b)
        if ra != rb:
            # prefer 'this' / field roots as representative
            if rb == 'this' or (rb.startswith('field:') and ra != 'this'):
                ra, rb = rb, ra
            self.p[rb] = ra


class Stale:
    def __init__(self, fb):
        self.fb = fb
        self.builder_classes = {r.q for r in fb.records if BUILDER_BASE in r.allbases}
        self.builder_classes.add(BUILDER_BASE)
        self._summ = None
        self._uses_after = None
        self._info = {}

    # ------------------------------------------------------------------ roots
    def is_builder_fn(self, fn):
        return fn.cls in self.builder_classes

    def walk(self, fn, nid, derived_vars=None, derived_fields=None):
        """Follow an expression down to its root.  Returns (rootkey | None, derived?) where derived means the
        value points into the storage owned by the root (a DERIV call or a derived variable was crossed)."""
        derived = False
        hops = 0
        while nid is not None and nid in fn.nodes and hops < 200:
            hops += 1
            n = fn.nodes[nid]
            k = n.get('k')
            if k in ('wrap', 'icast', 'cast'):
                nid = n.get('sub')
            elif k == 'construct' and (n.get('elidable') or n.get('copymove')) and n.get('args'):
                nid = n['args'][0]
            elif k == 'this':
                return 'this', derived
            elif k == 'var':
                if n.get('vk') in ('local', 'param'):
                    key = 'var:%d' % n['d']
                    if derived_vars is not None and n['d'] in derived_vars:
                        return derived_vars[n['d']], True
                    return key, derived
                return None, derived
            elif k == 'member':
                if n.get('field'):
                    b = fn.sn(n['base'])
                    if b is not None and b.get('k') == 'this':
                        key = 'field:' + n['q']
                        if derived_fields is not None and n['q'] in derived_fields:
                            return derived_fields[n['q']], True
                        if self.is_builder_fn(fn) and n['q'] == BU + 'm_buffer':
                            return 'this', derived
                        if n['q'] == B + 'm_data':
                            return 'this', True
                        return key, derived
                    nid = n['base']
                else:
                    nid = n['base']
            elif k == 'index':
                nid = n['base']
            elif k == 'unop' and n['op'] in ('*', '&', '++', '--'):
                nid = n['sub']
            elif k == 'binop' and n['op'] in ('+', '-'):
                nid = n['lhs']  # pointer arithmetic
            elif k == 'call':
                q = n.get('q', '')
                if n.get('recv') is not None:
                    if q in DERIV:
                        derived = True
                    elif q == BU + 'buffer':
                        pass  # the builder's buffer: same alias class as the builder
                    nid = n['recv']
                elif q in PASS_THROUGH and n.get('args'):
                    nid = n['args'][0]
                elif q in DERIV:
                    derived = True
                    return 'this', derived
                else:
                    # implicit-this member call without explicit receiver is emitted with recv=this, so this is a free function
                    return None, derived
            else:
                return None, derived
        return None, derived

    # ------------------------------------------------------------------ summaries
    def summaries(self):
        """{usr: set of roots ('this' | ('param', i)) that the function may relocate}"""
        if self._summ is not None:
            return self._summ
        fb = self.fb
        summ = defaultdict(set)
        changed = True
        rounds = 0
        while changed and rounds < 12:
            changed = False
            rounds += 1
            for fn in fb.functions:
                if not fn.has_cfg:
                    continue
                cur = summ[fn.usr]
                before = len(cur)
                pidx = {p['d']: i for i, p in enumerate(fn.params)}
                for n in fn.all_nodes():
                    k = n.get('k')
                    if k not in ('call', 'construct', 'autodtor') or 'q' not in n:
                        continue
                    for (expr_id, special) in self.relocated_exprs(fn, n, summ):
                        root = special
                        if root is None:
                            root, _d = self.walk(fn, expr_id)
                        if root is None:
                            continue
                        if root == 'this':
                            cur.add('this')
                        elif root.startswith('var:'):
                            d = int(root[4:])
                            if d in pidx:
                                cur.add(('param', pidx[d]))
                        elif root.startswith('field:'):
                            cur.add('this')
                if len(cur) != before:
                    changed = True
        self._summ = summ
        return summ

    def callee_reloc(self, n, summ):
        """roots of callee relocated: set of 'this' / ('param', i)"""
        q = n.get('q', '')
        s = set()
        if q in RELOC_BASE:
            s.add('this')
        u = n.get('u')
        if u in summ:
            s |= summ[u]
        if n.get('virt') and u:
            for g in self.fb.overriders(u):
                s |= summ.get(g.usr, set())
        return s

    def relocated_exprs(self, fn, n, summ):
        """For a call-like node: list of (expression id, special-root) whose storage the call may relocate."""
        out = []
        k = n.get('k')
        if k == 'autodtor':
            # destructor of a local: relocates the local's alias class if the dtor relocates 'this'
            if 'this' in self.callee_reloc(n, summ):
                out.append((None, 'var:%d' % n['d']))
            return out
        s = self.callee_reloc(n, summ)
        if not s:
            return out
        for r in s:
            if r == 'this':
                if k == 'construct':
                    out.append((None, 'construct:%d' % n['id']))
                elif n.get('recv') is not None:
                    out.append((n['recv'], None))
            else:
                i = r[1]
                args = n.get('args', [])
                if i < len(args) and args[i] is not None:
                    out.append((args[i], None))
        return out

    # ------------------------------------------------------------------ per-function analysis
    def analyse(self, fn, track_params=False):
        """Returns dict with: classes (UF), derived (var d -> class key), reloc_sites [(node, class)], reports
        [(use node, var name, reloc node)] and field facts."""
        key = (id(fn), track_params)
        if key in self._info:
            return self._info[key]
        summ = self.summaries()
        uf = UF()
        nodes = fn.nodes
        # constructs that initialise a local variable: map construct node id -> var key
        construct_var = {}
        for n in fn.all_nodes():
            if n.get('k') == 'decl':
                for v in n['vars']:
                    if isinstance(v.get('init'), int):
                        c = fn.sn(v['init'], casts=False)
                        if c is not None and c.get('k') == 'construct':
                            construct_var[c['id']] = 'var:%d' % v['d']
        # alias classes
        for n in fn.all_nodes():
            if n.get('k') == 'decl':
                for v in n['vars']:
                    if not isinstance(v.get('init'), int):
                        continue
                    tc = v['tC']
                    base = tc.replace('const ', '').replace('&', '').replace('*', '').strip()
                    c = fn.sn(v['init'], casts=False)
                    if c is not None and c.get('k') == 'construct' and c.get('rcls') in self.builder_classes and c.get('args'):
                        root, _d = self.walk(fn, c['args'][0])
                        if root is not None:
                            uf.union('var:%d' % v['d'], root)
                    elif tc.endswith('&') and (base == 'osmium::memory::Buffer' or base in self.builder_classes):
                        root, d = self.walk(fn, v['init'])
                        if root is not None and not d:
                            uf.union('var:%d' % v['d'], root)
        if self.is_builder_fn(fn):
            uf.union('this', 'field:' + BU + 'm_buffer')

        def cls(root):
            if root is None:
                return None
            if root.startswith('construct:'):
                cid = int(root[10:])
                if cid in construct_var:
                    return uf.find(construct_var[cid])
                # temporary builder: its class is its first ctor argument's class
                c = nodes[cid]
                if c.get('rcls') in self.builder_classes and c.get('args'):
                    r, _d = self.walk(fn, c['args'][0])
                    return uf.find(r) if r else None
                return None
            return uf.find(root)

        # derived variables (flow-insensitive binding var -> class; staleness is flow-sensitive)
        derived = {}
        pidx = {p['d']: i for i, p in enumerate(fn.params)}
        if track_params:
            for p in fn.params:
                if is_ptr_like(p['tC']) and not p['tC'].replace('const ', '').startswith(('osmium::memory::Buffer &', 'osmium::builder::')):
                    derived[p['d']] = 'param:%d' % p['d']
        changed = True
        while changed:
            changed = False
            for n in fn.all_nodes():
                k = n.get('k')
                if k == 'decl':
                    for v in n['vars']:
                        if v['d'] in derived or not isinstance(v.get('init'), int) or not is_ptr_like(v['tC']):
                            continue
                        root, d = self.walk(fn, v['init'], derived)
                        if d and root is not None:
                            derived[v['d']] = root if root.startswith('param:') else cls(root)
                            changed = True
                elif k == 'assign' and n['op'] == '=':
                    l = fn.sn(n['lhs'])
                    if l is not None and l.get('k') == 'var' and l['d'] not in derived and is_ptr_like(l.get('t', '')):
                        root, d = self.walk(fn, n['rhs'], derived)
                        if d and root is not None:
                            derived[l['d']] = root if root.startswith('param:') else cls(root)
                            changed = True
        derived = {d: c for d, c in derived.items() if c is not None}

        # relocation sites
        reloc_sites = []  # (node id, class key)
        for n in fn.all_nodes():
            if n.get('k') not in ('call', 'construct', 'autodtor') or 'q' not in n:
                continue
            for (expr_id, special) in self.relocated_exprs(fn, n, summ):
                root = special
                if root is None:
                    root, _d = self.walk(fn, expr_id)
                c = cls(root) if root else None
                if c is not None:
                    reloc_sites.append((n['id'], c))
        reloc_at = defaultdict(set)
        for nid, c in reloc_sites:
            reloc_at[nid].add(c)

        info = {'uf': uf, 'cls': cls, 'derived': derived, 'reloc_sites': reloc_sites, 'reports': [], 'param_after': set(),
                'pidx': pidx}
        if derived and reloc_sites:
            names = {}
            for n in fn.all_nodes():
                if n.get('k') == 'var':
                    names[n['d']] = n['name']
            parent = fn.parent_map()

            # state: set of stale variable decl ids (monotone); the relocation that made a use stale is found afterwards
            def transfer(st, n):
                nid = n['id']
                if nid in reloc_at:
                    add = [d for d, c in derived.items() if c.startswith('param:') or c in reloc_at[nid]]
                    if add:
                        st = st | frozenset(add)
                k = n.get('k')
                if k == 'assign' and n['op'] == '=':
                    l = fn.sn(n['lhs'])
                    if l is not None and l.get('k') == 'var' and l['d'] in st:
                        st = st - {l['d']}
                elif k == 'decl':
                    for v in n['vars']:
                        if v['d'] in st:
                            st = st - {v['d']}
                return st

            before = forward_may(fn, transfer)
            seen = set()

            def culprit(use, d):
                """a relocation site of d's class from which `use` is reachable without re-assignment of d"""
                c = derived[d]
                for (rid, rc) in reloc_sites:
                    if not (c.startswith('param:') or rc == c):
                        continue

                    def kill(e):
                        x = nodes[e]
                        if x.get('k') == 'assign' and x['op'] == '=':
                            l = fn.sn(x['lhs'])
                            return l is not None and l.get('k') == 'var' and l['d'] == d
                        if x.get('k') == 'decl':
                            return any(v['d'] == d for v in x['vars'])
                        return False
                    if path_search(fn, rid, lambda e: e == use, lambda e: not isinstance(e, tuple) and kill(e)) is not None:
                        return rid
                return None

            for b in fn.blocks.values():
                for e in b['elems']:
                    n = nodes[e]
                    if n.get('k') != 'var' or n['d'] not in derived:
                        continue
                    st = before.get(e, frozenset())
                    d = n['d']
                    if d not in st:
                        continue
                    # assignment target is a kill, not a use
                    p = parent.get(e)
                    pn = nodes.get(p) if p is not None else None
                    if pn is not None and pn.get('k') == 'assign' and pn['op'] == '=' and fn.strip(pn['lhs']) == e:
                        continue
                    c = derived[d]
                    if c.startswith('param:'):
                        r = culprit(e, d)
                        if r is not None:
                            for cr in reloc_at[r]:
                                info['param_after'].add((pidx.get(d), cr, e, r))
                        continue
                    if d in seen:
                        continue
                    r = culprit(e, d)
                    if r is None:
                        continue
                    seen.add(d)
                    info['reports'].append((e, names.get(d, '?'), r))
        self._info[key] = info
        return info

    def param_use_after_reloc(self, fn):
        """Set of (param index, root) such that the callee dereferences pointer/reference parameter `index` after a call
        that may relocate `root` ('this' or ('param', j)) — used at call sites passing a derived pointer."""
        info = self.analyse(fn, track_params=True)
        out = set()
        pidx = info['pidx']
        for (pi, cr, use, r) in info['param_after']:
            if pi is None:
                continue
            if cr == 'this' or cr.startswith('field:'):
                out.add((pi, 'this', use, r))
            elif cr.startswith('var:') and int(cr[4:]) in pidx:
                out.add((pi, ('param', pidx[int(cr[4:])]), use, r))
        return out

    # ------------------------------------------------------------------ rule L
    def rule_locals(self, R, fns, rule='STALE-L', file_filter=None):
        fb = self.fb
        n_fn = 0
        for fn in fns:
            if not fn.has_cfg or (file_filter and not file_filter(fn.file)):
                continue
            info = self.analyse(fn)
            if not info['derived']:
                continue
            n_fn += 1
            names = {}
            for d in info['derived']:
                names[d] = next((n['name'] for n in fn.all_nodes() if n.get('k') == 'var' and n['d'] == d), '?')
            reported = {names_d for (_u, names_d, _r) in info['reports']}
            for d, c in info['derived'].items():
                nm = names[d]
                key = '%s#%s' % (fn.q, nm)
                bad = [(u, v, r) for (u, v, r) in info['reports'] if v == nm]
                if bad:
                    u, v, r = bad[0]
                    R.bad(rule, key, fn.loc(u), '%s is derived from relocatable storage and used after %s, which may relocate that storage (%s)'
                          % (nm, fn.expr(r)[:80], fn.loc(r)))
                else:
                    R.ok(rule, key, fn.site, 'derived from %s; no use after a relocating call' % c)
            # call sites passing a derived pointer to a callee that uses it after relocating the same storage
            for n in fn.all_nodes():
                if n.get('k') not in ('call', 'construct') or 'u' not in n:
                    continue
                for g in fb.by_usr.get(n['u'], [])[:1]:
                    pu = self.param_use_after_reloc(g)
                    for (pi, croot, use, r) in pu:
                        args = n.get('args', [])
                        if pi >= len(args) or args[pi] is None:
                            continue
                        aroot, ad = self.walk(fn, args[pi], info['derived'])
                        if not ad or aroot is None:
                            continue
                        acls = aroot if aroot in info['derived'].values() else info['cls'](aroot)
                        if croot == 'this':
                            if n.get('k') == 'construct':
                                rroot = 'construct:%d' % n['id']
                            else:
                                rroot, _d = self.walk(fn, n.get('recv'))
                        else:
                            j = croot[1]
                            rroot, _d = self.walk(fn, args[j]) if j < len(args) else (None, False)
                        rcls = info['cls'](rroot) if rroot else None
                        key = '%s->%s#arg%d' % (fn.q, g.q, pi)
                        if acls is not None and acls == rcls:
                            R.bad(rule + '-param', key, fn.loc(n['id']),
                                  'passes a pointer into relocatable storage to %s, which uses it (%s) after %s may relocate the same storage'
                                  % (g.q, g.loc(use), g.expr(r)[:60]))
        return n_fn

    # ------------------------------------------------------------------ rule F (and W)
    def rule_fields(self, R, records, rule='STALE-F'):
        """Pointer-typed members that hold a derivation of the object's own relocatable storage (Buffer behind a builder,
        std::string / std::vector sibling member).  Typestate of the member per method: D (derived, fresh), S (stale),
        N (not a derivation: null / foreign).  Every method starts with D (another method may have set it), a relocating
        call on the storage turns D into S, an assignment from a derivation gives D, any other assignment gives N.
        Violation: some method can return normally with the member in state S while some method dereferences it."""
        fb = self.fb
        count = 0
        for rec in records:
            ptr_fields = [f for f in rec.fields if f.get('ptr') and not f['tC'].startswith('osmium::memory::Buffer') and
                          not f['tC'].startswith('osmium::builder::Builder')]
            if not ptr_fields:
                continue
            methods = [f for f in fb.functions if f.cls == rec.q and f.has_cfg and not f.is_lambda]
            for fld in ptr_fields:
                fq = fld['q']
                # class of storage the member is derived from (from any assignment / ctor initialiser)
                storage = None
                for m in methods:
                    info = self.analyse(m)
                    for n in m.all_nodes():
                        rhs = self._field_assign_rhs(m, n, fq)
                        if rhs is None:
                            continue
                        dflds = {x['q']: storage for x in ptr_fields if storage} if storage else None
                        root, d = self.walk(m, rhs, info['derived'], dflds)
                        if d and root is not None:
                            c = root if root in info['derived'].values() else info['cls'](root)
                            if c is not None and (c == 'this' or c.startswith('field:')):
                                storage = c
                if storage is None:
                    continue
                count += 1
                key = '%s::%s' % (rec.q, fld['name'])
                stale_exit = None
                for m in methods:
                    if m.kind == 'dtor':
                        continue
                    info = self.analyse(m)
                    relocs = {nid for (nid, rc) in info['reloc_sites'] if rc == storage}
                    if not relocs:
                        continue
                    w = self._stale_at_exit(m, fq, relocs, info, storage, entry_state='N' if m.kind == 'ctor' else 'D')
                    if w is not None:
                        stale_exit = (m, w)
                        break
                site = '%s:%d' % (rec.file, fld.get('l', rec.line))
                if stale_exit is None:
                    R.ok(rule, key, site, 'derived from %s; re-derived (or cleared) after every relocation before each normal exit' % storage)
                    continue
                derefs = self._field_derefs(methods, fq)
                (m, r) = stale_exit
                if derefs:
                    dm, dn = derefs[0]
                    R.bad(rule, key, m.loc(r),
                          'member %s points into relocatable storage (%s); in %s the call %s may relocate that storage and a normal exit is '
                          'reachable without re-deriving the member, which %s dereferences later (%s)'
                          % (fld['name'], storage.replace('field:', ''), m.q, m.expr(r)[:70], dm.q, dm.loc(dn['id'])))
                else:
                    R.ok(rule, key, site, 'possibly stale at exit but never dereferenced')
        return count

    def _field_assign_rhs(self, m, n, fq):
        if n.get('k') == 'assign' and n['op'] == '=':
            l = m.sn(n['lhs'])
            if l is not None and l.get('k') == 'member' and l.get('q') == fq and m.is_this_member(n['lhs']):
                return n['rhs']
        elif n.get('k') == 'init' and n.get('q') == fq:
            return n.get('init')
        return None

    def _stale_at_exit(self, m, fq, relocs, info, storage, entry_state):
        """Returns a relocation node id from which a normal exit is reachable with the member still stale, else None."""
        nodes = m.nodes

        def assign_kind(n):
            rhs = self._field_assign_rhs(m, n, fq)
            if rhs is None:
                return None
            root, d = self.walk(m, rhs, info['derived'], {fq: storage})
            if d and root is not None:
                c = root if root in info['derived'].values() else info['cls'](root)
                if c == storage:
                    return 'D'
            return 'N'

        akind = {}
        for n in m.all_nodes():
            k = assign_kind(n)
            if k is not None:
                akind[n['id']] = k

        def transfer(st, n):
            nid = n['id']
            if nid in akind:
                return frozenset({akind[nid]})
            if nid in relocs and 'D' in st:
                st = (st - {'D'}) | {'S', ('r', nid)}
            return st

        before = forward_may(m, transfer, init=frozenset({entry_state}))
        # normal exits: return statements and fall-off-the-end; exclude paths that end in a throw
        for b in m.blocks.values():
            if m.exit not in m.succs(b['id']):
                continue
            elems = b['elems']
            if any(nodes[e].get('k') == 'throw' for e in elems) or b.get('noreturn'):
                continue
            st = before.get(('out', b['id']))
            if st and 'S' in st:
                rs = [x[1] for x in st if isinstance(x, tuple)]
                return rs[0] if rs else next(iter(relocs))
        return None

    def _field_derefs(self, methods, fq):
        derefs = []
        for m in methods:
            pm = m.parent_map()
            for n in m.all_nodes():
                if n.get('k') == 'member' and n.get('q') == fq and n.get('field'):
                    p = pm.get(n['id'])
                    while p is not None and m.nodes[p].get('k') in ('icast', 'wrap', 'cast'):
                        p = pm.get(p)
                    pn = m.nodes.get(p) if p is not None else None
                    if pn is None:
                        continue
                    if (pn.get('k') == 'unop' and pn['op'] == '*') or (pn.get('k') == 'member' and pn.get('arrow')) or \
                            (pn.get('k') == 'call' and pn.get('arrow')) or pn.get('k') == 'index':
                        derefs.append((m, n))
                    elif pn.get('k') == 'unop' and pn['op'] in ('++', '--'):
                        # *m_data++ : postfix increment below a dereference
                        pp = pm.get(p)
                        while pp is not None and m.nodes[pp].get('k') in ('icast', 'wrap', 'cast'):
                            pp = pm.get(pp)
                        if pp is not None and m.nodes[pp].get('k') == 'unop' and m.nodes[pp]['op'] == '*':
                            derefs.append((m, n))
        return derefs
