"""C13 -- coordinate, timestamp and number text conversions are exact and strict (ACCUM + GUARD, partial).

All value rules are decided by IVAL (osmlint/c13_util.py): interval abstract interpretation of the function body with
trace partitioning on loop counters / flags, exact integer arithmetic checked against the LP64 range of every node's
type, branch refinement, liveness.  Nothing is executed; a rule holds only if it holds in *every* abstract state, which
covers every input string / value.  Guards may be spelled any way, sit in an `&&` chain, or live in an extracted helper
(predicate `is_digit(c)` or throwing `check_range(x)`): the interpreter follows them.  Scope = every function body defined in
osm/location.hpp, osm/timestamp.hpp, osm/types_from_string.hpp, io/detail/opl_parser_functions.hpp, util/misc.hpp and class
OutputBlock of io/detail/output_format.hpp (output_int), as instantiated by drivers/c13_extra.cpp (and, thorough tier, by
the reader / writer drivers).

 A1-accum-bounded          (DESIGN clause 1) every update of an integer accumulator inside a loop in which it is scaled
                           (`x = x*k + d`, `x *= k`, `x <<= k`, and the `x += d` / `x -= d` that go with it) stays inside
                           the range of its type in every reachable abstract state: either the trip count is bounded by a
                           literal-initialised counter (digits x base), or the body tests x against a limit first
                           (opl_parse_int).  Unsigned wrap counts as a violation too (a wrapped hex escape is a wrong value).
                           (Found F6, the exponent scaling loop of string_to_location_coordinate; fixed in /repo since.)
 S1-strto-range-rejected   (clause 2) assuming strtoll/strtol/strtoul returned its saturation value (LLONG_MIN/LLONG_MAX,
                           ULONG_MAX) with the input fully consumed, no `return <converted value>` is reachable: every path
                           ends in a throw or (str_to_int's documented convention) returns a constant.
 S2-strto-trailing-rejected   same walk assuming `*end` != 0 (either sign of char) and any result.
 S3-strto-no-digits-rejected  same walk assuming no conversion was performed (result 0, end == the input pointer, so `*end` has
                           whatever is known about `*input` at the call): the empty string / a lone sign is not accepted as 0.
                           Only for functions whose error convention is `throw` (for str_to_int 0 *is* the error value).
 S4-strto-leading-space-rejected  assuming the first input character is white space (isspace: 9..13, 32) from the function's entry
                           on, the strto* call is unreachable or nothing converted is returned after it (strto* would skip it); the
                           guard may be spelled any way, named as a bool local or live in a helper.  str_to_int is exempt
                           (documented: leading white space is ignored).
 S5-strtoul-minus-rejected  strtoul / strtoull accept a leading '-' and negate in the unsigned type: assuming the input starts with
                           '-' from the function's entry on (`*p` and `p[0]`), the call is unreachable or no return of the converted
                           value is reachable after it (an upper bound cannot exclude wrapped values; string_to_ulong's "-1" -> 0
                           special case returns a constant before the call and is untouched).
 S6-strto-base-10          every strtol/strtoll/strtoul/strtoull (strtoimax/strtoumax) call passes the constant-folded base 10 (base 0
                           would read "010" as 8 and accept "0x10"); non-constant base = unknown shape.  Quick: every body of the
                           scope unit; thorough: all drivers (adds the pbf_compression_level option parser).
 A2-scale-down-complete    a loop that divides an accumulator by a constant once per step of a counter
                           (`for (; scale < 0 && result > 0; ++scale) result /= 10`) is left, in every abstract exit state, with the
                           counter's own condition exhausted or the value == 0; otherwise rounding sees an under-divided value.
                           (Relative to the loop's own counter condition: a wrong bound in that condition, `scale < -1`, is numeric
                           and not decided.)
 A3-scale-up-early-exit-rejected  a loop that only scales an accumulator once per counter step and can be left while the counter's
                           condition still holds (`&& result < max_result`) hands on an under-scaled value: no normal return is
                           reachable from such an exit state, i.e. the range test behind the loop rejects everything at or above the
                           bound (decided by pushing the exit interval through the rounding code, not from the literal).
 B1-digit-budget-constant  every loop that consumes input characters under a counter is entered with that counter holding one constant
                           in all abstract states (the budget of one digit run does not depend on what an earlier run consumed).
 T2-month-length-table     the constant table subscripted with tm_mon equals the calendar's maximum days per month (a spec table).
 T3-timegm-fields-in-range  at the call of timegm every tm field is proven inside its calendar range (mon 0..11, mday 1..31 -- with T2 the
                           per-month bound --, hour 0..23, min 0..59, sec 0..60, year >= 0): direction and presence of each bound test;
                           timegm would silently normalise anything else into a different date.
 T4-timegm-fields-complete  ... and the guards accept the *whole* range: the hull of each field over all states that reach timegm
                           covers mon 0..11, mday 1..31, hour 0..23, min 0..59, sec 0..60 (leap second), year up to 9999; a smaller
                           hull proves a valid value is rejected.  (Per-month exactness of mday is T2 + T3; holes inside a range are
                           not visible to an interval.)
 O1-output-iterator-threaded  a function that takes an output iterator by value and returns one threads the position through every
                           advancing call (copy_n / copy / fill_n / sibling formatter taking it by value and returning it): a copy made
                           stale by such a call is never used again (returned, written through, passed on) -- CFG may-dataflow, every
                           instantiation incl. char*.
 W1-no-nonreentrant-libc   no function body in the fact base calls gmtime, localtime, asctime, ctime or strtok (hidden static state;
                           the formatters run concurrently in the thread pool).  Quick tier: the scope headers' unit; thorough: all drivers.
 L1-coordinate-fully-consumed  (clause 2) functions that take the whole string (`const char*` parameter) and call
                           string_to_location_coordinate: assuming the character left at the returned position is not NUL,
                           no normal return is reachable (set_lon / set_lat; the *_partial variants take `const char**`).
 N1-negation-excludes-minimum  (clause 3) the operand interval of every non-constant signed `-v` excludes the minimum of its
                           type.  (Found F17, OutputBlock::output_int; fixed in /repo since.)
 C1-narrowing-in-range     (clause 4) every value-changing integral conversion (explicit or implicit, narrower or differently
                           signed target) of a *parsed* value -- a local that accumulates digits or holds a strto* result, or
                           the result of a text-parsing function of the scope -- has an operand interval inside the target
                           type; the operand of a call is the callee's return-value interval over all its normal returns (range
                           test inside parse_timestamp).  (Found F18, Timestamp(const char*); fixed in /repo since.)
 D1-digit-validated        every `c - '0'` / `c - 'a'` / `c - 'A'` on a character read from the input evaluates inside 0..9 /
                           0..5 in every state, i.e. only characters that were range-tested are converted to digit values
                           (parse_timestamp's 14 positions, the coordinate parser, opl_parse_int, opl_parse_escaped).
 T1-array-index-in-range   std::array subscripts in the scope (parse_timestamp's month-length table) are inside 0..N-1.

Instance keys are spelling-independent (function + role, no local names, statement classes or condition text): A1/A2
`#acc<i>.loop<j>:<shape>` (i-th scaled accumulator by declaration, j-th loop updating it by source order, shape such as x*10+d,
x*10, x<<4, x-d, x/10), N1 `#neg<n>`, C1 `#<from>-><to>:parsed-local | <callee>()`, D1 `#digit-<0|a|A>@<offset>`, T1 `#<array type>[]`,
S*/L1 `#<callee>:<mode>` -- a for/while/break rewrite or a rename keeps every key (and the known-finding entries) intact.

NOT decided (DESIGN "not decided" + dropped): parse(format(x)) == x for all x, correctness of rounding (`(result + 5) / 10`),
digit-count / trailing-zero logic of the formatters and the sizes of their temp buffers, timestamp calendar arithmetic
(timegm/gmtime_r), the strtol site of PBFOutputFormat's `pbf_compression_level` option (not an OSM attribute, file not anchored in
the property; its value flows through an implicit long->int parameter conversion that no rule here examines).  The
design's "ORDERTYPE on the guard vs. the target type's limits" for clause 4 is replaced by the interval proof, which does not
depend on how the guard is spelled.
"""
from .. import c13_util as U
from ..errdisc import SPECIAL, is_extern_c, guards

KNOWN = [
    # (rule, key, explanation) -- genuine findings on the pristine tree.  None at present.  History (all fixed in /repo, each
    # revert is a seeded mutant `fix-F*-reverted-*`):
    #   F6  A1 string_to_location_coordinate#acc1.loop4:x*10   unbounded `result *= 10` ("1e63" accepted as 0)       fixed 7a274a7
    #   F17 N1 OutputBlock::output_int#neg1                     `-value` for INT64_MIN wrote "-("                       fixed bb05cce
    #   F18 C1 Timestamp::(ctor)#long->unsignedint:osmium::detail::parse_timestamp()  unchecked time_t -> uint32_t      fixed 827f3db
    #       (the range test lives inside parse_timestamp; C1 sees it through the callee's return-value interval)
]

EXPLANATION = (
    'Decided, for all inputs, by interval abstract interpretation (exact integer arithmetic against LP64 type ranges, trace '
    'partitioning on loop counters and flags; no execution): no digit / hex accumulator in the text parsers leaves the range of its '
    'type (bounded trip count from literal-initialised counters, or a limit test before the update); every strtoll/strtoul wrapper '
    'rejects the saturation values, trailing characters, the no-digits case and leading white space; set_lon/set_lat(const char*) '
    'reject trailing characters; every signed negation excludes the type minimum; every narrowing / sign-changing conversion of a '
    'parsed value is proven in range; only range-tested characters are converted to digit values; the month table index is in '
    'range.  NOT decided: format/parse round trip equality for all values, rounding correctness, formatter digit logic and buffer '
    'sizes, calendar arithmetic of timegm/gmtime_r, the pbf_compression_level option parser.')
ASSUMPTIONS = ['a character read through an input pointer does not alias a local variable, a field of a local record or the pointer itself',
               'LP64 data model, char is signed 8 bit (x86-64 / aarch64-linux differs only in char signedness, which no rule depends on: '
               'both signs of a non-NUL char are walked)',
               'strtoll / strtol / strtoul behave per ISO C (saturate and set ERANGE, leave end at the first unconverted character, '
               'end == input when no conversion is performed)',
               'the interval interpreter over-approximates: a proof holds for every concrete run; a reported event carries the '
               'abstract operands and was confirmed by hand against the source before being listed as a finding']

SCOPE_FILES = ('osmium/osm/location.hpp', 'osmium/osm/timestamp.hpp', 'osmium/osm/types_from_string.hpp',
               'osmium/io/detail/opl_parser_functions.hpp', 'osmium/io/detail/output_format.hpp', 'osmium/util/misc.hpp')
COORD_PARSER = 'osmium::detail::string_to_location_coordinate'
OUTPUT_BLOCK = 'osmium::io::detail::OutputBlock'   # of output_format.hpp only the integer formatter is text conversion
# error convention "returns a constant" instead of "throws": one symbol, one reason
VALUE_CONVENTION = {'osmium::detail::str_to_int': 'documented: "If there is any error, return 0"; leading white space is ignored'}
ARITH = ('*', '<<', '+', '-')


def scope_fns(fb):
    out = [f for f in fb.functions if f.has_cfg and f.file.endswith(SCOPE_FILES)
           and (not f.file.endswith('output_format.hpp') or f.cls == OUTPUT_BLOCK)]
    return out


class Cache:
    """one plain interpretation per function body, run only when a rule has a candidate site in it"""

    def __init__(self):
        self.d = {}
        self.ran = set()

    def shell(self, fn):
        """the interpreter object without its fixpoint (variable tables only)"""
        it = self.d.get(id(fn))
        if it is None:
            it = U.Interp(fn)
            self.d[id(fn)] = it
        return it

    def get(self, fn, R=None):
        """the finished interpretation, or None (reported as analysis-broken) when the fixpoint was cut off: a truncated
        run has not covered every state and proves nothing"""
        it = self.shell(fn)
        if id(fn) not in self.ran:
            self.ran.add(id(fn))
            it.run()
            if it.res.truncated and R is not None:
                R.broken('IVAL: interpretation of %s (%s) exceeded the step limit' % (fn.q, fn.site))
        return None if it.res.truncated else it


# ------------------------------------------------------------------------------------------------ helpers

def _k(s):
    """instance keys carry canonical expression text; known_findings.txt is whitespace-tokenised, so keys have no blanks"""
    return s.replace(' ', '')


def _rv(fn, nid):
    """strip parens and lvalue-to-rvalue / no-op conversions (value-identical wrappers)."""
    hops = 0
    while nid is not None and nid in fn.nodes and hops < 30:
        hops += 1
        n = fn.nodes[nid]
        if n.get('k') == 'wrap' and 'sub' in n:
            nid = n['sub']
        elif n.get('k') in ('icast', 'cast') and n.get('ck') in ('LValueToRValue', 'NoOp') and 'sub' in n:
            nid = n['sub']
        else:
            break
    return nid


def _int_local(fn, it, nid):
    """decl id if nid (value wrappers stripped) reads a tracked integer local / parameter."""
    n = fn.nodes.get(_rv(fn, nid))
    if n is None or n.get('k') != 'var':
        return None
    key = it.tracked_var(n)
    return key[1] if key is not None else None


def _innermost_loop(fn, nid):
    best = None
    for L in fn.loops:
        if fn.in_range(nid, L['b'], L['e']):
            if best is None or (L['e'] - L['b']) < (best['e'] - best['b']):
                best = L
    return best


def _loop_label(fn, L):
    for b in fn.blocks.values():
        t = b.get('term')
        if isinstance(t, int) and t in fn.nodes:
            tn = fn.nodes[t]
            if tn.get('k') == 'stmt' and tn.get('o') == L['b'] and tn.get('cls') == L['cls'] and isinstance(b.get('cond'), int):
                return '%s[%s]' % (L['cls'], fn.expr(b['cond']))
    return L['cls']


def accumulator_updates(fn, it):
    """[(assign node, decl id, loop, multiplicative?, [arithmetic nodes whose result becomes the new value], form)] for every
    self-referencing update `x op= e` / `x = f(x)` of a tracked integer local inside a loop.  form = spelling-independent
    shape of the update: 'x*10+d', 'x*10', 'x<<4', 'x+d', 'x-d', 'x/10' (dividing updates have an empty node list)."""
    pm = fn.parent_map()
    out = []

    def cst(nid):
        c = fn.const_value(nid)
        return str(c) if c is not None else 'k'
    for a in fn.all_nodes():
        if a.get('k') != 'assign':
            continue
        d = _int_local(fn, it, a['lhs'])
        if d is None:
            continue
        L = _innermost_loop(fn, a['id'])
        if L is None:
            continue
        op = a['op']
        if op != '=':
            base = op[:-1]
            if base in ('*', '<<'):
                mult = fn.const_value(a['rhs']) is not None
                out.append((a, d, L, mult, [a['id']], 'x%s%s' % (base, cst(a['rhs']))))
            elif base in ('+', '-'):
                out.append((a, d, L, False, [a['id']], 'x%sd' % base))
            elif base == '/':
                out.append((a, d, L, False, [], 'x/%s' % cst(a['rhs'])))
            continue
        spine = []
        mult = False
        selfref = False
        shape = []
        for x in fn.subtree(a['rhs']):
            m = fn.nodes[x]
            if m.get('k') != 'var' or m.get('d') != d:
                continue
            # climb from the read of x to the assignment through value-transparent nodes and arithmetic
            y = x
            path = []
            ok = True
            while y in pm and pm[y] != a['id']:
                p = fn.nodes[pm[y]]
                if p.get('k') in ('icast', 'wrap', 'cast'):
                    pass
                elif p.get('k') == 'binop' and p.get('op') in ('*', '<<', '+', '-', '/', '%', '>>'):
                    path.append((p, y))
                else:
                    ok = False
                    break
                y = pm[y]
            if not ok or y not in pm:
                continue
            selfref = True
            for (p, child) in path:
                if p['op'] in ARITH and p['id'] not in spine:
                    spine.append(p['id'])
                other = p['rhs'] if fn.strip(p['lhs']) == fn.strip(child) or p['lhs'] == child else p['lhs']
                if p['op'] in ('*', '<<', '/'):
                    if p['op'] != '/' and fn.const_value(other) is not None:
                        mult = True
                    piece = '%s%s' % (p['op'], cst(other))
                else:
                    piece = '%sd' % p['op']
                if piece not in shape:
                    shape.append(piece)
        if selfref and (spine or shape):
            divides = any(x.startswith('/') for x in shape) and not mult
            out.append((a, d, L, mult, [] if divides else spine, 'x' + ''.join(shape)))
    return out


def update_roles(fn, ups):
    """{assign node id: 'acc<i>.loop<j>:<form>[.<n>]'} -- spelling-independent instance names: i = ordinal (declaration order)
    of the accumulator among the locals that are scaled (multiplied / shifted / divided by a constant) inside some loop,
    j = ordinal (source order) of the loop among the loops that update that accumulator, form = shape of the update, n only
    when a loop holds several updates of one shape.  No variable name, statement class or condition text."""
    decl_off = {}
    for i, p in enumerate(fn.params):
        decl_off[p['d']] = -1000 + i
    for n in fn.all_nodes():
        if n.get('k') == 'decl':
            for v in n['vars']:
                decl_off.setdefault(v['d'], n.get('o', 0))
    scaled = sorted({d for (_a, d, _L, mult, _s, form) in ups if mult or '/' in form}, key=lambda d: decl_off.get(d, 0))
    roles = {}
    for i, d in enumerate(scaled):
        mine = [u for u in ups if u[1] == d]
        loops = sorted({u[2]['b'] for u in mine})
        seen = {}
        for u in sorted(mine, key=lambda u: u[0].get('o', 0)):
            j = loops.index(u[2]['b']) + 1
            base = 'acc%d.loop%d:%s' % (i + 1, j, u[5])
            seen.setdefault(base, []).append(u[0]['id'])
        for base, ids in seen.items():
            for n, aid in enumerate(ids):
                roles[aid] = base if len(ids) == 1 else '%s.%d' % (base, n + 1)
    return roles


def _fmt_iv(iv):
    if iv is None:
        return '?'
    return '[%d, %d]' % iv


# ------------------------------------------------------------------------------------------------ A1

def rule_accum(R, fns, cache):
    for fn in fns:
        if not fn.loops:
            continue
        ups = accumulator_updates(fn, cache.shell(fn))
        accs = {(d, L['b']) for (_a, d, L, mult, _s, _f) in ups if mult}
        if not accs:
            continue
        it = cache.get(fn, R)
        if it is None:
            continue
        roles = update_roles(fn, ups)
        for (a, d, L, mult, spine, _form) in ups:
            if (d, L['b']) not in accs or not spine or a['id'] not in roles:
                continue
            res = it.res
            key = _k('%s#%s' % (fn.q, roles[a['id']]))
            if a['id'] not in res.reached:
                continue
            ev = [(x, res.events[x]) for x in spine if x in res.events]
            if ev:
                x, (kind, math, ops) = ev[0]
                R.bad('A1-accum-bounded', key, fn.loc(a['id']),
                      'accumulator update `%s` in %s can leave the range of %s: %s = %s for operands %s (no literal-bounded trip count '
                      'and no limit test before the update keeps it in range)'
                      % (fn.expr(a['id']), fn.q, fn.nodes[x].get('t'), fn.expr(x), _fmt_iv(math), ' , '.join(_fmt_iv(o) for o in ops)))
            else:
                R.ok('A1-accum-bounded', key, fn.loc(a['id']), 'value after update within %s' % _fmt_iv(res.obs.get(a['id'])))


# ------------------------------------------------------------------------------------------------ N1

def rule_neg(R, fns, cache):
    for fn in fns:
        cands = [n for n in fn.all_nodes() if n.get('k') == 'unop' and n.get('op') == '-' and 'cv' not in n and U.is_signed(n.get('t'))
                 and fn.const_value(n['sub']) is None]
        if not cands:
            continue
        it = cache.get(fn, R)
        if it is None:
            continue
        res = it.res
        order = [n['id'] for n in sorted(cands, key=lambda n: n.get('o', 0))]
        for n in cands:
            if n['id'] not in res.reached:
                continue
            key = '%s#neg%d' % (fn.q, order.index(n['id']) + 1)      # ordinal among the function's non-constant signed negations
            opnd = res.obs.get(n['sub'])
            r = U.type_range(n.get('t'))
            if n['id'] in res.events or opnd is None:
                R.bad('N1-negation-excludes-minimum', key, fn.loc(n['id']),
                      'negation `-%s` in %s: the operand can be %d, the minimum of %s (operand interval %s); no dominating test excludes it'
                      % (fn.expr(n['sub']), fn.q, r[0], n.get('t'), _fmt_iv(opnd)))
            else:
                R.ok('N1-negation-excludes-minimum', key, fn.loc(n['id']), 'operand in %s' % _fmt_iv(opnd))


# ------------------------------------------------------------------------------------------------ C1

def parser_functions(fns):
    """scope functions that turn text into an integer: integer result and a (pointer to) const char* parameter."""
    out = set()
    for f in fns:
        if U.type_range(f.retC) is None or f.is_lambda:
            continue
        if any('char' in p['tC'] and '*' in p['tC'] for p in f.params):
            out.add(f.q)
    return out


def _strto_calls(fn):
    return [n for n in fn.all_nodes() if is_extern_c(n) and n.get('q') in SPECIAL]


def parsed_locals(fn, it, parsers):
    """decl ids of integer locals that hold parsed text: digit accumulators, strto* results, results of scope parsers."""
    out = set()
    for (_a, d, _L, mult, _s, _f) in accumulator_updates(fn, it):
        if mult:
            out.add(d)

    def from_parse(init):
        for x in fn.subtree(init):
            m = fn.nodes[x]
            if m.get('k') == 'call' and ((is_extern_c(m) and m.get('q') in SPECIAL) or m.get('q') in parsers):
                return True
        return False
    for n in fn.all_nodes():
        if n.get('k') == 'decl':
            for v in n['vars']:
                if isinstance(v.get('init'), int) and U.type_range(v['tC']) is not None and from_parse(v['init']):
                    out.add(v['d'])
        elif n.get('k') == 'assign' and n.get('op') == '=':
            d = _int_local(fn, it, n['lhs'])
            if d is not None and from_parse(n['rhs']):
                out.add(d)
    return out


def rule_narrow(R, fns, cache, parsers):
    for fn in fns:
        cands = []
        for n in fn.all_nodes():
            if n.get('k') in ('icast', 'cast') and n.get('ck') == 'IntegralCast' and 'cv' not in n and 'sub' in n:
                src = fn.nodes[n['sub']].get('t')
                rs, rt = U.type_range(src), U.type_range(n.get('t'))
                if rs is None or rt is None or U.inside(rs, rt):
                    continue
                cands.append((n, src, rt))
        if not cands:
            continue
        it = cache.get(fn, R)
        if it is None:
            continue
        res = it.res
        pl = None
        for (n, src, rt) in cands:
            o = _rv(fn, n['sub'])
            on = fn.nodes.get(o)
            if on is None:
                continue
            parsed = False
            if on.get('k') == 'var':
                if pl is None:
                    pl = parsed_locals(fn, it, parsers)
                parsed = on.get('d') in pl
            elif on.get('k') == 'call':
                parsed = on.get('q') in parsers or (is_extern_c(on) and on.get('q') in SPECIAL)
            if not parsed or n['id'] not in res.reached:
                continue
            src_s = src.replace('const ', '')
            what = 'parsed-local' if on.get('k') == 'var' else '%s()' % on.get('q')
            key = _k('%s#%s->%s:%s' % (fn.q, src_s, n.get('t').replace('const ', ''), what))
            opnd = res.obs.get(n['sub'])
            ok = opnd is not None and U.inside(opnd, rt)
            R.check(ok, 'C1-narrowing-in-range', key, fn.loc(n['id']),
                    'conversion of the parsed value `%s` from %s to %s in %s: operand interval %s is not inside [%d, %d]; values outside '
                    'are silently wrapped instead of rejected' % (fn.expr(o), src_s, n.get('t'), fn.q, _fmt_iv(opnd), rt[0], rt[1]),
                    'operand in %s' % _fmt_iv(opnd))


# ------------------------------------------------------------------------------------------------ D1 / T1

def _char_offset(fn, nid):
    """constant offset of the character read relative to its pointer (`p[5]`, `*(p + 5)` -> 5, `*p`, `**s` -> 0), '?' otherwise"""
    n = fn.nodes.get(_rv(fn, fn.strip(nid)))
    if n is None:
        return '?'
    if n.get('k') == 'index':
        c = fn.const_value(n['idx'])
        return str(c) if c is not None else '?'
    if n.get('k') == 'unop' and n.get('op') == '*':
        m = fn.nodes.get(_rv(fn, fn.strip(n['sub'])))
        if m is not None and m.get('k') == 'binop' and m.get('op') == '+':
            c = fn.const_value(m['rhs'])
            return str(c) if c is not None else '?'
        return '0'
    return '?'


DIGIT_BASE = {48: 9, 97: 5, 65: 5}    # '0' -> 0..9, 'a' / 'A' -> 0..5 (+10)


def rule_digit(R, fns, cache):
    for fn in fns:
        cands = []
        for n in fn.all_nodes():
            if n.get('k') != 'binop' or n.get('op') != '-':
                continue
            r = fn.nodes.get(_rv(fn, fn.strip(n['rhs'])))
            if r is None or r.get('k') != 'lit' or not r.get('char'):
                continue
            c = fn.const_value(r['id'])
            if c not in DIGIT_BASE:
                continue
            l = fn.nodes.get(_rv(fn, fn.strip(n['lhs'])))
            if l is None or U.type_range(l.get('t')) != (-128, 127) or l.get('k') not in ('unop', 'index', 'var', 'member'):
                continue
            cands.append((n, c))
        if not cands:
            continue
        it = cache.get(fn, R)
        if it is None:
            continue
        res = it.res
        for (n, c) in cands:
            if n['id'] not in res.reached:
                continue
            v = res.obs.get(n['id'])
            hi = DIGIT_BASE[c]
            key = '%s#digit-%s@%s' % (fn.q, {48: '0', 97: 'a', 65: 'A'}[c], _char_offset(fn, n['lhs']))
            R.check(v is not None and U.inside(v, (0, hi)), 'D1-digit-validated', key, fn.loc(n['id']),
                    '`%s` in %s can evaluate to %s: the character is converted to a digit value without having been tested to lie in '
                    '%r..%r on every path' % (fn.expr(n['id']), fn.q, _fmt_iv(v), chr(c), chr(c + hi)),
                    'value in %s' % _fmt_iv(v))


def rule_index(R, fns, cache):
    import re
    for fn in fns:
        cands = [n for n in fn.all_nodes() if n.get('k') == 'call' and n.get('q') == 'std::array::operator[]' and n.get('args')]
        if not cands:
            continue
        it = cache.get(fn, R)
        if it is None:
            continue
        res = it.res
        for n in cands:
            m = re.search(r',\s*(\d+)\s*>\s*$', n.get('rclsT', ''))
            if m is None or n['id'] not in res.reached:
                continue
            size = int(m.group(1))
            v = res.obs.get(n['args'][0])
            key = _k('%s#%s[]' % (fn.q, n.get('rclsT', 'std::array').replace('const ', '')))
            R.check(v is not None and U.inside(v, (0, size - 1)), 'T1-array-index-in-range', key, fn.loc(n['id']),
                    'subscript of %s in %s can be %s, outside 0..%d' % (n.get('rclsT'), fn.q, _fmt_iv(v), size - 1),
                    'index in %s' % _fmt_iv(v))


# ------------------------------------------------------------------------------------------------ S1-S4

def _arg_text(fn, a):
    return fn.expr(_rv(fn, fn.strip(a)))


def _pointee_text(fn, a):
    """text of `*p` for an argument `&p`, of `*a` otherwise."""
    x = _rv(fn, fn.strip(a))
    n = fn.nodes.get(x)
    if n is not None and n.get('k') == 'unop' and n.get('op') == '&':
        return fn.expr(_rv(fn, n['sub']))
    return '*' + fn.expr(x)


def _walk_after(fn, call, alts):
    """Interpret fn with the effect of `call` replaced: alts(pre state, post state) -> [(extra facts {key: iv}, value)].
    Returns (interp, hook was reached)."""
    hit = []

    def hook(it, st, vals, n):
        pre = dict(st)
        it.eval(n['id'], st, vals)
        hit.append(1)
        outs = []
        for (facts, value) in alts(pre, st):
            s = dict(st)
            s[('x', 'after')] = (1, 1)
            for k, v in facts.items():
                if v is None:
                    s.pop(k, None)
                else:
                    s[k] = v
            outs.append((s, value))
        return outs
    it = U.Interp(fn, hooks={call['id']: hook})
    it.run()
    return it, bool(hit)


def _outcome(fn, it):
    """(witness return that hands back a non-constant value after the assumed failure | None, saw a rejecting exit?)"""
    bad = None
    rejecting = False
    for (nid, mk, _v) in it.res.returns:
        if not mk.get('after'):
            continue
        n = fn.nodes.get(nid, {})
        if 'sub' in n and fn.const_value(n['sub']) is not None:
            rejecting = True
        elif bad is None:
            bad = nid if nid is not None else -1      # -1: control falls off the end of a void function
    for (_nid, mk) in it.res.throws:
        if mk.get('after'):
            rejecting = True
    return bad, rejecting


def rule_strto(R, fns):
    for fn in fns:
        for call in _strto_calls(fn):
            name = call['q']
            args = call.get('args', [])
            if len(args) < 2 or args[0] is None or args[1] is None:
                R.broken('S: %s call in %s has an unexpected argument list' % (name, fn.q))
                continue
            rt = U.type_range(call.get('t'))
            if rt is None:
                R.broken('S: %s call in %s has a non-integer type' % (name, fn.q))
                continue
            endkey = ('e', '*' + _pointee_text(fn, args[1]))
            srckey = ('e', '*' + _arg_text(fn, args[0]))
            site = fn.loc(call['id'])
            sentinels = [rt[1]] if rt[0] == 0 else [rt[0], rt[1]]
            value_conv = fn.q in VALUE_CONVENTION

            def run_mode(rule, what, alts, label):
                it, hit = _walk_after(fn, call, alts)
                key = _k('%s#%s:%s' % (fn.q, name, label))
                if not hit or it.res.truncated:
                    R.broken('%s: the %s call in %s was not reached by the interpretation' % (rule, name, fn.q))
                    return
                bad, rejecting = _outcome(fn, it)
                if bad is not None:
                    R.bad(rule, key, site, 'if %s %s, %s still reaches `%s` (%s) and hands the converted value to the caller instead of '
                          'rejecting the string' % (name, what, fn.q, fn.expr(bad) if bad in fn.nodes else 'end of function', fn.loc(bad)))
                elif not rejecting:
                    R.broken('%s: no exit of %s reached after the %s call' % (rule, fn.q, name))
                else:
                    R.ok(rule, key, site, 'every path after the call ends in a throw%s' % (' or returns a constant' if value_conv else ''))

            run_mode('S1-strto-range-rejected', 'saturates (returns %s)' % ' or '.join(str(s) for s in sentinels),
                     lambda pre, st: [({endkey: (0, 0)}, (s, s)) for s in sentinels], 'range')
            run_mode('S2-strto-trailing-rejected', 'stops before the end of the string (*end != 0)',
                     lambda pre, st: [({endkey: iv}, rt) for iv in ((1, 127), (-128, -1))], 'trailing')
            if not value_conv:
                run_mode('S3-strto-no-digits-rejected', 'converts nothing (returns 0 with end == input)',
                         lambda pre, st: [({endkey: pre.get(srckey, (-128, 127))}, (0, 0))], 'no-digits')
            a0 = _arg_text(fn, args[0])

            def first_char_walk(rule, label, intervals, what, example):
                """assume the first input character lies in one of `intervals` from the entry of the function on (both
                spellings `*p` / `p[0]` are one location): the call is unreachable, or nothing converted is returned after it"""
                key = _k('%s#%s:%s' % (fn.q, name, label))
                verdicts = []
                for iv in intervals:
                    seeds = {('e', '*' + a0): iv}
                    state = {'hit': False, 'lost': False}

                    def hook(it, st, vals, n, seeds=seeds, state=state, iv=iv):
                        pre = dict(st)
                        it.eval(n['id'], st, vals)
                        state['hit'] = True
                        got = pre.get(('e', '*' + a0))
                        if got is None or not U.inside(got, iv):
                            state['lost'] = True      # the first character is no longer tracked at the call
                        s2 = dict(st)
                        s2[('x', 'after')] = (1, 1)
                        s2[endkey] = (0, 0)
                        return [(s2, rt)]             # any value, input fully consumed
                    itw = U.Interp(fn, hooks={call['id']: hook}, init=dict(seeds))
                    itw.run()
                    if itw.res.truncated or state['lost']:
                        R.broken('%s: cannot follow the first input character of %s up to the %s call' % (rule, fn.q, name))
                        return
                    if state['hit']:
                        bad, _rej = _outcome(fn, itw)
                        if bad is not None:
                            verdicts.append(bad)
                if verdicts:
                    bad = verdicts[0]
                    R.bad(rule, key, site, '%s in %s is reached with an input that starts with %s and the converted value reaches `%s`: %s'
                          % (name, fn.q, what, fn.expr(bad) if bad in fn.nodes else 'end of function', example))
                else:
                    R.ok(rule, key, site, 'with a first character that is %s the call is unreachable or every path after it rejects' % what)
            if rt[0] == 0:
                # S5: strtoul / strtoull accept a leading '-' and negate in the unsigned type
                first_char_walk('S5-strtoul-minus-rejected', 'leading-minus', [(45, 45)], "'-'",
                                '%s negates in the unsigned type, e.g. "-18446744073709551615" is returned as 1 (an upper bound does not '
                                'exclude wrapped values)' % name)
            if not value_conv:
                # S4: strto* skip leading white space (isspace: 9..13 and 32)
                first_char_walk('S4-strto-leading-space-rejected', 'leading-space', [(32, 32), (9, 13)], 'white space',
                                '%s skips leading white space, so " 1" would be accepted' % name)


# ------------------------------------------------------------------------------------------------ A2

def _conjuncts(fn, nid):
    n = fn.nodes.get(fn.strip(nid))
    if n is not None and n.get('k') == 'binop' and n.get('op') == '&&':
        return _conjuncts(fn, n['lhs']) + _conjuncts(fn, n['rhs'])
    return [nid]


def _loop_cond(fn, L):
    for b in fn.blocks.values():
        t = b.get('term')
        if isinstance(t, int) and t in fn.nodes:
            tn = fn.nodes[t]
            if tn.get('k') == 'stmt' and tn.get('o') == L['b'] and tn.get('cls') == L['cls'] and isinstance(b.get('cond'), int):
                return b['cond']
    return None


def rule_scale_down(R, fns, cache):
    """A loop that divides an accumulator by a constant once per step of a counter (`for (; c < 0 && x > 0; ++c) x /= 10`)
    computes x / k^|c|: whenever it is left, either the counter's own condition is exhausted or x is 0 (further divisions
    would not change it).  Leaving earlier hands an under-divided value to what follows ("5e-9" -> rounds to 1)."""
    for fn in fns:
        if not fn.loops:
            continue
        shell = cache.shell(fn)
        ups = accumulator_updates(fn, shell)
        roles = update_roles(fn, ups)
        sites = []
        for (a, x, L, _mult, _spine, form) in ups:
            if not form.startswith('x/') or a['id'] not in roles:
                continue
            k = form[2:]
            if not k.isdigit() or int(k) < 2:
                continue
            # counters of this loop: integer locals stepped by a constant inside it (any spelling of the step)
            cs = set()
            for m in fn.all_nodes():
                lv = None
                if m.get('k') == 'unop' and m.get('op') in ('++', '--'):
                    lv = m['sub']
                elif m.get('k') == 'assign' and m is not a:
                    lv = m['lhs']
                if lv is None or not fn.in_range(m['id'], L['b'], L['e']):
                    continue
                d = _int_local(fn, shell, lv)
                if d is not None and d in shell.counters and d != x:
                    cs.add(d)
            if not cs:
                continue           # digit extraction (`do { v /= 10; } while (v != 0)`): nothing counts the divisions
            cond = _loop_cond(fn, L)
            mine = []
            for c in (_conjuncts(fn, cond) if cond is not None else []):
                ds = {fn.nodes[y]['d'] for y in fn.subtree(c) if fn.nodes[y].get('k') == 'var' and fn.nodes[y].get('vk') in ('local', 'param')}
                if ds and ds <= cs:
                    mine.append(c)
            sites.append((a, x, L, (mine, cs, roles[a['id']])))
        for (a, x, L, mine) in sites:
            def inside(b, seen=None):
                blk = fn.blocks[b]
                if blk['elems']:
                    return any(fn.in_range(e, L['b'], L['e']) for e in blk['elems'])
                seen = seen or set()
                if b in seen:
                    return False
                seen.add(b)
                ss = fn.succs(b)
                return len(ss) == 1 and inside(ss[0], seen)     # empty loop-back / join block
            exits = []

            def probe(b, succ, st):
                if inside(b) and not inside(succ):
                    exits.append(dict(st))
            it = U.Interp(fn, edge_probe=probe)
            it.run()
            mine, cs, role = mine
            key = _k('%s#%s' % (fn.q, role))
            if it.res.truncated:
                R.broken('A2: interpretation of %s truncated' % fn.q)
                continue
            if not exits:
                continue
            badst = None
            for st in exits:
                xv = st.get(('v', x))
                # the counter is exhausted: its own part of the loop condition cannot hold any more, or (loop forms that
                # leave by `break`) every counter of the loop is known exactly
                done = (bool(mine) and all(not it.refine(c, True, st, {}, U._Everything()) for c in mine)) \
                    or all((st.get(('v', c)) or (0, 1))[0] == (st.get(('v', c)) or (0, 1))[1] for c in cs)
                if not (done or xv == (0, 0)):
                    badst = (st, xv)
                    break
            if badst is None:
                R.ok('A2-scale-down-complete', key, fn.loc(a['id']), '%d exit states: counter exhausted or value 0' % len(exits))
            else:
                st, xv = badst
                R.bad('A2-scale-down-complete', key, fn.loc(a['id']),
                      'the dividing loop around `%s` in %s can be left while its counter condition `%s` still holds and the value is %s '
                      '(not 0): the value is divided fewer times than the counter demands and what follows (rounding) sees a digit that '
                      'should have been shifted out' % (fn.expr(a['id']), fn.q, ' && '.join(fn.expr(c) for c in mine) or 'counter not yet at its final value', _fmt_iv(xv)))


# ------------------------------------------------------------------------------------------------ A3 / B1 (loop edges)

def _loop_counters(fn, shell, L, skip=None):
    """integer locals stepped by a constant inside loop L (any spelling of the step)"""
    cs = set()
    for m in fn.all_nodes():
        lv = None
        if m.get('k') == 'unop' and m.get('op') in ('++', '--'):
            lv = m['sub']
        elif m.get('k') == 'assign':
            lv = m['lhs']
        if lv is None or not fn.in_range(m['id'], L['b'], L['e']):
            continue
        d = _int_local(fn, shell, lv)
        if d is not None and d in shell.counters and d != skip:
            cs.add(d)
    return cs


def _counter_conjuncts(fn, L, cs):
    cond = _loop_cond(fn, L)
    mine = []
    for c in (_conjuncts(fn, cond) if cond is not None else []):
        ds = {fn.nodes[y]['d'] for y in fn.subtree(c) if fn.nodes[y].get('k') == 'var' and fn.nodes[y].get('vk') in ('local', 'param')
              and not (fn.nodes[y].get('t') or '').startswith('const ')}      # const locals (`max_length`) are bounds, not state
        if ds and ds <= cs:
            mine.append(c)
    return mine


def _inside_fn(fn, L):
    def inside(b, seen=None):
        blk = fn.blocks[b]
        if blk['elems']:
            return any(fn.in_range(e, L['b'], L['e']) for e in blk['elems'])
        seen = seen or set()
        if b in seen:
            return False
        seen.add(b)
        ss = fn.succs(b)
        return len(ss) == 1 and inside(ss[0], seen)     # empty loop-back / join block
    return inside


def rule_scale_up_early_exit(R, fns, cache):
    """A loop that only scales an accumulator (x *= k / x <<= k, no digit added in the loop) once per step of a counter computes
    x * k^c.  Leaving it while the counter's condition still holds (`&& result < max_result`, a `break`) delivers an under-scaled
    value; that is acceptable only if the value is then rejected: no normal return is reachable from such an exit state.  (The
    bound that triggers the early exit must be large enough for the range test behind the loop to reject everything above it;
    decided from the interval that leaves the loop pushed through the code that follows, not from the literal.)"""
    for fn in fns:
        if not fn.loops:
            continue
        shell = cache.shell(fn)
        ups = accumulator_updates(fn, shell)
        roles = update_roles(fn, ups)
        for (a, x, L, mult, _spine, form) in ups:
            if not mult or '+' in form or '-' in form or '/' in form or a['id'] not in roles:
                continue
            if any(u[1] == x and u[2]['b'] == L['b'] and u[0] is not a for u in ups):
                continue           # a digit is added elsewhere in the loop: accumulation, the counter is a budget (A1 / B1)
            cs = _loop_counters(fn, shell, L, skip=x)
            if not cs:
                continue
            mine = _counter_conjuncts(fn, L, cs)
            inside = _inside_fn(fn, L)
            box = {}
            n_early = [0]

            def probe(b, succ, st):
                if not (inside(b) and not inside(succ)):
                    return
                it = box['it']
                if mine:
                    early = any(it.refine(c, True, st, {}, U._Everything()) for c in mine)
                else:
                    early = any((st.get(('v', c)) or (0, 1))[0] != (st.get(('v', c)) or (0, 1))[1] for c in cs)
                if early:
                    n_early[0] += 1
                    st[('x', 'early')] = (1, 1)
            it = U.Interp(fn, edge_probe=probe)
            box['it'] = it
            it.run()
            key = _k('%s#%s:early-exit' % (fn.q, roles[a['id']]))
            if it.res.truncated:
                R.broken('A3: interpretation of %s truncated' % fn.q)
                continue
            rets = [nid for (nid, mk, _v) in it.res.returns if mk.get('early')]
            if rets:
                v = [v for (nid, mk, v) in it.res.returns if mk.get('early')][0]
                R.bad('A3-scale-up-early-exit-rejected', key, fn.loc(a['id']),
                      'the scaling loop around `%s` in %s can be left before its counter is exhausted and the under-scaled value still reaches '
                      '`%s` (returned interval %s): the bound that stops the loop is too small for the range test behind it to reject every '
                      'such value' % (fn.expr(a['id']), fn.q, fn.expr(rets[0]) if rets[0] in fn.nodes else 'end of function', _fmt_iv(v)))
            else:
                R.ok('A3-scale-up-early-exit-rejected', key, fn.loc(a['id']),
                     '%d early-exit states, none reaches a normal return' % n_early[0])


def rule_budget_constant(R, fns, cache):
    """A loop that consumes input characters (advances a pointer) under a counter is entered with that counter holding one and
    the same constant in every abstract state: how many characters one part of the grammar may have does not depend on how many
    an earlier part consumed (`max_digits = 20;` before the next digit run)."""
    for fn in fns:
        if not fn.loops:
            continue
        shell = cache.shell(fn)
        preds = fn.preds()
        sites = []
        for idx, L in enumerate(sorted(fn.loops, key=lambda L: L['b'])):
            advances = False
            for m in fn.all_nodes():
                if m.get('k') == 'unop' and m.get('op') in ('++', '--') and fn.in_range(m['id'], L['b'], L['e']) \
                        and _innermost_loop(fn, m['id']) is L and (m.get('t') or '').rstrip().endswith('*'):
                    advances = True
            if not advances:
                continue
            cs = {c for c in _loop_counters(fn, shell, L)}
            mine = _counter_conjuncts(fn, L, cs)
            used = set()
            for c in mine:
                used |= {fn.nodes[y]['d'] for y in fn.subtree(c) if fn.nodes[y].get('k') == 'var' and 'd' in fn.nodes[y]}
            cs &= used
            if not cs:
                continue           # no counter bounds this loop
            inside = _inside_fn(fn, L)
            heads = {b for b in fn.blocks if inside(b) and fn.blocks[b]['elems'] and any(p <= b for p in preds.get(b, []))
                     and _innermost_loop(fn, fn.blocks[b]['elems'][0]) is L}
            if heads:
                sites.append((idx, L, cs, heads, []))
        if not sites:
            continue

        def probe(b, succ, st):
            for (_i, _L, _cs, heads, entries) in sites:
                if succ in heads and b > succ:
                    entries.append(dict(st))
        it = U.Interp(fn, edge_probe=probe)      # one interpretation serves every loop of the function
        it.run()
        if it.res.truncated:
            R.broken('B1: interpretation of %s truncated' % fn.q)
            continue
        for (idx, L, cs, heads, entries) in sites:
            if not entries:
                continue
            key = '%s#consuming-loop%d:budget' % (fn.q, idx + 1)
            bad = None
            for c in sorted(cs):
                vs = [st.get(('v', c)) for st in entries]
                if any(v is None for v in vs):
                    bad = (c, None)
                    break
                h = (min(v[0] for v in vs), max(v[1] for v in vs))
                if h[0] != h[1]:
                    bad = (c, h)
                    break
            if bad is None:
                R.ok('B1-digit-budget-constant', key, '%s:%d' % (fn.file, L['l']), 'counter is one constant at every entry (%d states)' % len(entries))
            else:
                R.bad('B1-digit-budget-constant', key, '%s:%d' % (fn.file, L['l']),
                      'the character-consuming loop at line %d of %s is entered with its budget counter in %s: the number of characters it '
                      'accepts depends on what earlier loops consumed (the counter is not re-initialised with a constant before the loop)'
                      % (L['l'], fn.q, _fmt_iv(bad[1])))


# ------------------------------------------------------------------------------------------------ T2 / T3 (calendar)

CALENDAR = [31, 29, 31, 30, 31, 30, 31, 31, 30, 31, 30, 31]
TM_RANGES = {'tm_mon': (0, 11), 'tm_mday': (1, 31), 'tm_hour': (0, 23), 'tm_min': (0, 59), 'tm_sec': (0, 60), 'tm_year': (0, 8099)}


def rule_calendar(R, fns, cache):
    for fn in fns:
        # T2: a table subscripted with the month field of a struct tm is the calendar's days-per-month table
        for n in fn.all_nodes():
            if n.get('k') != 'call' or n.get('q') not in ('std::array::operator[]', 'std::array::at') or not n.get('args'):
                continue
            ix = fn.nodes.get(_rv(fn, fn.strip(n['args'][0])))
            if ix is None or ix.get('k') != 'member' or ix.get('q') != 'tm::tm_mon':
                continue
            tab = cache.shell(fn).const_array(n['recv']) if n.get('recv') is not None else None
            key = '%s#month-length-table' % fn.q
            if tab is None:
                R.broken('T2: the table subscripted with tm_mon in %s is not a constant-initialised const std::array' % fn.q)
                continue
            R.check(tab == CALENDAR, 'T2-month-length-table', key, fn.loc(n['id']),
                    'the month-length table of %s is %s, the calendar demands %s (leap days / month ends written by to_iso() would be '
                    'rejected, or impossible days accepted)' % (fn.q, tab, CALENDAR), 'table equals the calendar maximum days per month')
        # T3: what is handed to timegm lies inside the calendar ranges in every state (timegm silently normalises otherwise)
        calls = [n for n in fn.all_nodes() if n.get('k') == 'call' and n.get('q') in ('timegm', '_mkgmtime', 'mktime') and n.get('args')]
        for call in calls:
            an = fn.nodes.get(_rv(fn, fn.strip(call['args'][0])))
            if an is None or an.get('k') != 'unop' or an.get('op') != '&':
                continue
            base = fn.expr(_rv(fn, an['sub']))
            seen = {}

            def hook(it, st, vals, n, seen=seen, base=base):
                for f in TM_RANGES:
                    v = st.get(('e', '%s.%s' % (base, f)))
                    seen.setdefault(f, []).append(v)
                return None
            it = U.Interp(fn, hooks={call['id']: hook})
            it.run()
            if it.res.truncated:
                R.broken('T3: interpretation of %s truncated' % fn.q)
                continue
            if not seen:
                continue
            for f, r in TM_RANGES.items():
                vs = seen.get(f, [])
                key = '%s#%s:%s' % (fn.q, call['q'], f)
                if any(v is None for v in vs):
                    R.bad('T3-timegm-fields-in-range', key, fn.loc(call['id']),
                          '%s.%s is not bounded when %s is called in %s (a field outside %d..%d is silently normalised into a different date '
                          'instead of being rejected)' % (base, f, call['q'], fn.q, r[0], r[1]))
                    continue
                h = (min(v[0] for v in vs), max(v[1] for v in vs))
                # T4: the guards accept the whole spec range (the abstract hull covers every accepted value, so a hull that is
                # smaller than the range proves that a valid value -- a leap second, December, 23 h -- is rejected)
                want = r if f != 'tm_year' else (max(h[0], 0) if h[0] <= 70 else 70, r[1])
                stored = None
                for m in fn.all_nodes():       # what the field can hold before the guards: only a field fed from input is judged
                    if m.get('k') == 'assign' and m.get('op') == '=' and fn.expr(fn.strip(m['lhs'], casts=False)) == '%s.%s' % (base, f):
                        o = it.res.obs.get(m['id'])
                        if o is not None:
                            stored = o if stored is None else U.hull(stored, o)
                if stored is None or not U.inside(want, stored):
                    R.check(U.inside(h, r), 'T3-timegm-fields-in-range', key, fn.loc(call['id']),
                            '%s.%s can be %s when %s is called in %s, outside %d..%d' % (base, f, _fmt_iv(h), call['q'], fn.q, r[0], r[1]),
                            'field in %s' % _fmt_iv(h))
                    continue
                R.check(h[0] <= want[0] and h[1] >= want[1], 'T4-timegm-fields-complete', '%s:complete' % key, fn.loc(call['id']),
                        '%s.%s is at most %s when %s is called in %s: the guards reject valid values of the range %d..%d (e.g. the leap '
                        'second 60, which to_iso() of such an instant / other writers produce)' % (base, f, _fmt_iv(h), call['q'], fn.q, r[0], r[1]),
                        'accepted hull %s covers %d..%d' % (_fmt_iv(h), want[0], want[1]))
                R.check(U.inside(h, r), 'T3-timegm-fields-in-range', key, fn.loc(call['id']),
                        '%s.%s can be %s when %s is called in %s, outside %d..%d: such a field is silently normalised into a different '
                        'date instead of being rejected' % (base, f, _fmt_iv(h), call['q'], fn.q, r[0], r[1]), 'field in %s' % _fmt_iv(h))


# ------------------------------------------------------------------------------------------------ O1 (output iterator threading)

def _norm_t(t):
    return (t or '').replace('const ', '').strip()


def _by_value_var(fn, nid):
    """decl id of the variable an argument copies (`it`, std::move(it), copy-constructed temporary of it), else None"""
    hops = 0
    while nid is not None and nid in fn.nodes and hops < 12:
        hops += 1
        n = fn.nodes[nid]
        k = n.get('k')
        if k in ('wrap', 'icast') and 'sub' in n:
            nid = n['sub']
        elif k == 'construct' and len(n.get('args', [])) == 1 and (n.get('elidable') or n.get('copymove')):
            nid = n['args'][0]
        elif k == 'call' and n.get('q') in ('std::move', 'std::forward') and n.get('args'):
            nid = n['args'][0]
        elif k == 'var' and n.get('vk') in ('local', 'param'):
            return n['d']
        else:
            return None
    return None


def rule_output_iterator(R, fns):
    """A function that takes an output iterator by value and returns one of the same type threads the position through every
    write: a call that receives the iterator by value and returns the advanced iterator (std::copy_n, std::copy, std::fill_n, a
    sibling formatter) makes the caller's copy stale until it is assigned the result; a stale copy must not be used again
    (returned, written through, passed on).  With std::back_insert_iterator a stale copy happens to work, with char* the next
    write overwrites the text -- decided on the CFG for every instantiation, pointer or not."""
    from ..flow import forward_may
    for fn in fns:
        if fn.is_lambda or not fn.has_cfg:
            continue
        T = _norm_t(fn.retC)
        if not T or U.type_range(T) is not None or T in ('void', 'double', 'float', 'long double') or T.endswith('&'):
            continue
        if T.endswith('*') and T.startswith('const') or 'const char *' in fn.retC or 'const unsigned char *' in fn.retC:
            continue               # nothing can be written through it
        ps = [p for p in fn.params if _norm_t(p['tC']) == T and not p['tC'].rstrip().endswith('&')]
        if not ps:
            continue
        tracked = {p['d'] for p in ps}
        for n in fn.all_nodes():
            if n.get('k') == 'decl':
                for v in n['vars']:
                    if _norm_t(v['tC']) == T:
                        tracked.add(v['d'])
        # writer calls: receive a tracked variable by value, return the same iterator type
        writer = {}
        for n in fn.all_nodes():
            if n.get('k') == 'call' and _norm_t(n.get('t')) == T and n.get('op') is None:
                for a in n.get('args', []) or []:
                    d = _by_value_var(fn, a) if a is not None else None
                    if d in tracked:
                        writer.setdefault(n['id'], set()).add(d)
        stores = [n for n in fn.all_nodes() if n.get('k') == 'assign' and (fn.root_var(n['lhs']) or (None, None))[1] in tracked
                  and fn.nodes.get(fn.strip(n['lhs'], casts=False), {}).get('k') != 'var']
        if not writer and not stores:
            continue               # does not write through the iterator at all (e.g. a pointer getter)
        lhs_use = set()            # variable references that are overwritten, not read
        assigns = {}
        for n in fn.all_nodes():
            tgt = None
            if n.get('k') == 'assign' and n.get('op') == '=':
                tgt = n['lhs']
            elif n.get('k') == 'call' and n.get('op') == '=' and n.get('recv') is not None:
                tgt = n['recv']
            if tgt is not None:
                x = fn.strip(tgt, casts=False)
                m = fn.nodes.get(x)
                if m is not None and m.get('k') == 'var' and m.get('d') in tracked:
                    lhs_use.add(x)
                    assigns[n['id']] = m['d']
            if n.get('k') == 'decl':
                for v in n['vars']:
                    if v['d'] in tracked:
                        assigns.setdefault(n['id'], v['d'])

        def transfer(st, n):
            nid = n['id']
            if nid in writer:
                st = st | frozenset(writer[nid])
            if nid in assigns:
                st = st - {assigns[nid]}
            return st
        before = forward_may(fn, transfer)
        bad = None
        for n in fn.all_nodes():
            if n.get('k') == 'var' and n.get('d') in tracked and n['id'] not in lhs_use:
                st = before.get(n['id'])
                if st and n['d'] in st:
                    bad = n
                    break
        key = '%s#iterator-threaded' % fn.q
        if bad is not None:
            R.bad('O1-output-iterator-threaded', key, fn.loc(bad['id']),
                  '%s uses its output iterator `%s` after a call that received it by value and returned the advanced position (result '
                  'dropped): with a pointer iterator the returned / next write position is stale and the text is overwritten'
                  % (fn.q, bad.get('name')))
        else:
            R.ok('O1-output-iterator-threaded', key, fn.site, '%d advancing calls, every later use goes through their result' % len(writer))


# ------------------------------------------------------------------------------------------------ W1 (who may call)

NON_REENTRANT = {
    'gmtime': 'returns a pointer to one static struct tm; use gmtime_r / gmtime_s',
    'localtime': 'returns a pointer to one static struct tm; use localtime_r',
    'asctime': 'formats into one static buffer',
    'ctime': 'formats into one static buffer',
    'strtok': 'keeps its position in hidden static state',
}


def rule_non_reentrant(R, fb):
    """The output formatters run concurrently in the thread pool: nothing under include/osmium may call a libc function that works
    on hidden static storage (frozen list)."""
    hits = {}
    for fn in fb.functions:
        if not fn.has_cfg:
            continue
        for n in fn.all_nodes():
            if n.get('k') == 'call' and n.get('q', '').rsplit('::', 1)[-1] in NON_REENTRANT and is_extern_c(n):
                hits.setdefault(n['q'].rsplit('::', 1)[-1], []).append((fn, n))
    for name, why in NON_REENTRANT.items():
        hs = hits.get(name, [])
        if not hs:
            R.ok('W1-no-nonreentrant-libc', '%s#not-called' % name, 'include/osmium', 'no caller in %d function bodies' % len(fb.functions))
        for (fn, n) in hs:
            R.bad('W1-no-nonreentrant-libc', '%s#not-called' % name, fn.loc(n['id']),
                  '%s calls %s (%s): concurrent formatting / parsing in the thread pool reads another call\'s result' % (fn.q, name, why))


# ------------------------------------------------------------------------------------------------ S6 (strict decimal)

STRTO_INT = ('strtol', 'strtoll', 'strtoul', 'strtoull', 'strtoimax', 'strtoumax')


def rule_strto_base(R, fns):
    """OSM attributes and option values are decimal: every strto* integer conversion passes the constant base 10.  Base 0 reads
    "010" as 8 and accepts "0x10"; another base reads different digits; a base that is not a constant cannot be judged."""
    for fn in fns:
        if not fn.has_cfg:
            continue
        for call in fn.all_nodes():
            if not (is_extern_c(call) and call.get('q') in STRTO_INT):
                continue
            args = call.get('args', []) or []
            key = _k('%s#%s:base' % (fn.q, call['q']))
            if len(args) < 3 or args[2] is None:
                R.broken('S6: %s call in %s has no base argument' % (call['q'], fn.q))
                continue
            base = fn.const_value(args[2])
            if base is None:
                R.broken('S6: the base passed to %s in %s (%s) is not a compile-time constant' % (call['q'], fn.q, fn.loc(call['id'])))
                continue
            R.check(base == 10, 'S6-strto-base-10', key, fn.loc(call['id']),
                    '%s in %s is called with base %d: %s' % (call['q'], fn.q, base,
                                                            'zero-prefixed numbers are read as octal ("010" -> 8, "08" -> 0) and "0x10" is accepted as 16'
                                                            if base == 0 else 'the text is not read as a decimal number'),
                    'base is the constant 10')


# ------------------------------------------------------------------------------------------------ L1

def rule_consumed(R, fns):
    for fn in fns:
        calls = [n for n in fn.all_nodes() if n.get('k') == 'call' and n.get('q') == COORD_PARSER and n.get('args')]
        if not calls or fn.q == COORD_PARSER:
            continue
        whole = any(p['tC'].replace(' ', '') in ('constchar*', 'constchar*const') for p in fn.params)
        if not whole:
            continue   # partial API (const char**): the caller continues behind the coordinate
        for call in calls:
            left = '*' + _pointee_text(fn, call['args'][0])
            key = '%s#whole-string-consumed' % fn.q
            it, hit = _walk_after(fn, call, lambda pre, st: [({('e', left): iv}, U.type_range(call.get('t'))) for iv in ((1, 127), (-128, -1))])
            if not hit or it.res.truncated:
                R.broken('L1: the coordinate parser call in %s was not reached by the interpretation' % fn.q)
                continue
            rets = [nid for (nid, mk, _v) in it.res.returns if mk.get('after')]
            thr = [nid for (nid, mk) in it.res.throws if mk.get('after')]
            if rets:
                R.bad('L1-coordinate-fully-consumed', key, fn.loc(call['id']),
                      '%s takes the whole string but returns normally (%s) when characters follow the coordinate (%s != 0): "1.5x" is '
                      'accepted as 1.5' % (fn.q, fn.loc(rets[0]) if rets[0] is not None else 'end of function', left))
            elif not thr:
                R.broken('L1: no exit of %s reached after the coordinate parser call' % fn.q)
            else:
                R.ok('L1-coordinate-fully-consumed', key, fn.loc(call['id']), 'trailing characters always reach a throw')


# ------------------------------------------------------------------------------------------------ driver

def all_rules(fb, R, fns=None, all_functions=True):
    fns = scope_fns(fb) if fns is None else fns
    cache = Cache()
    parsers = parser_functions(fns)
    rule_accum(R, fns, cache)
    rule_scale_down(R, fns, cache)
    rule_scale_up_early_exit(R, fns, cache)
    rule_budget_constant(R, fns, cache)
    rule_calendar(R, fns, cache)
    rule_neg(R, fns, cache)
    rule_narrow(R, fns, cache, parsers)
    rule_digit(R, fns, cache)
    rule_index(R, fns, cache)
    rule_strto(R, fns)
    rule_strto_base(R, [f for f in fb.functions if f.has_cfg] if all_functions else fns)
    rule_consumed(R, fns)
    rule_output_iterator(R, [f for f in fb.functions if f.has_cfg] if all_functions else fns)
    rule_non_reentrant(R, fb)


ANCHORS = (COORD_PARSER, 'osmium::io::detail::opl_parse_int', 'osmium::io::detail::opl_parse_escaped',
           'osmium::detail::append_location_coordinate_to_string', 'osmium::io::detail::OutputBlock::output_int',
           'osmium::detail::string_to_ulong', 'osmium::string_to_object_id', 'osmium::detail::str_to_int',
           'osmium::detail::parse_timestamp', 'osmium::Location::set_lon', 'osmium::Location::set_lat')


def run(ctx):
    R = ctx.R
    # drivers/c13_extra.cpp holds exactly the scope headers plus the instantiations the library uses (small TU: the mutant
    # self-test re-extracts it for every seeded edit); the thorough tier adds the full reader / writer units as a cross-check
    # that the same bodies are what the I/O code instantiates.
    units = [(['c13_extra'], 'ndebug14')]
    if ctx.tier != 'quick':
        units += [(['c13_extra'], c) for c in ('debug14', 'ndebug17', 'debug17')] + [(['io_read', 'io_write'], 'ndebug14')]
    for (drivers, cfg) in units:
        fb = ctx.facts(drivers, cfg)
        fns = scope_fns(fb)
        for need in ANCHORS:
            if not any(f.q == need for f in fns):
                R.broken('anchor %s not found in the fact base (%s %s)' % (need, '+'.join(drivers), cfg))
        all_rules(fb, R, fns)
    if ctx.tier != 'quick':
        # who-may-call and iterator threading over everything the drivers instantiate (the quick tier covers the scope headers)
        import os
        ddir = os.path.join(os.path.dirname(os.path.dirname(os.path.dirname(os.path.abspath(__file__)))), 'drivers')
        rest = sorted(f[:-4] for f in os.listdir(ddir) if f.endswith('.cpp') and f[:-4] not in ('c13_extra', 'io_read', 'io_write'))
        if rest:
            fb = ctx.facts(rest, 'ndebug14')
            rule_output_iterator(R, [f for f in fb.functions if f.has_cfg])
            rule_non_reentrant(R, fb)
            rule_strto_base(R, fb.functions)
    R.expect('A1-accum-bounded', 10)          # coordinate parser 4 (int digits, fraction, exponent digits, scale-up), opl_parse_int 2, opl_parse_escaped 4
    R.expect('S1-strto-range-rejected', 3)    # string_to_object_id, string_to_ulong, str_to_int
    R.expect('S2-strto-trailing-rejected', 3)
    R.expect('S3-strto-no-digits-rejected', 2)       # the two throwing wrappers
    R.expect('S4-strto-leading-space-rejected', 2)
    R.expect('S5-strtoul-minus-rejected', 1)         # string_to_ulong (the only strtoul site)
    R.expect('S6-strto-base-10', 3)                  # string_to_object_id, string_to_ulong, str_to_int (thorough: + PBFOutputFormat option)
    R.expect('A2-scale-down-complete', 1)            # the negative-exponent loop of the coordinate parser
    R.expect('A3-scale-up-early-exit-rejected', 1)   # the positive-exponent loop of the coordinate parser
    R.expect('B1-digit-budget-constant', 5)          # coordinate parser: int digits, fraction, ignored digits, exponent digits; opl_parse_escaped
    R.expect('T2-month-length-table', 1)
    R.expect('T3-timegm-fields-in-range', 6)         # mon, mday, hour, min, sec, year at the timegm call of parse_timestamp
    R.expect('T4-timegm-fields-complete', 6)
    R.expect('O1-output-iterator-threaded', 3)       # append_location_coordinate_to_string, Location::as_string, as_string_without_check
    R.expect('W1-no-nonreentrant-libc', 5)           # one per banned function
    R.expect('L1-coordinate-fully-consumed', 2)      # set_lon, set_lat (const char*)
    R.expect('N1-negation-excludes-minimum', 2)      # coordinate formatter, opl_parse_int (output_int works on the unsigned magnitude since bb05cce)
    R.expect('C1-narrowing-in-range', 7)      # coordinate parser, string_to_ulong, str_to_int x3, opl_parse_int<uint32>, Timestamp(const char*)
    R.expect('D1-digit-validated', 19)        # parse_timestamp 14, coordinate parser 1 (5 sites, one text), opl_parse_int 1, opl_parse_escaped 3
    R.expect('T1-array-index-in-range', 1)    # mon_lengths[tm.tm_mon]


_SELFTEST_MEMO = {}


def _selftest(fb, R):
    """all rules on selftest/positive/c13_text.cpp: every bad_<rule>_* function reported by that rule, every ok_* silent
    (computed once per run, replayed for each listed rule)"""
    from ..engine import AnalysisBroken
    memo_key = tuple(str(u) for u in fb.units)
    if memo_key in _SELFTEST_MEMO:
        inst, exc = _SELFTEST_MEMO[memo_key]
        R.instances.update(inst)
        if exc is not None:
            raise AnalysisBroken(exc)
        return
    try:
        _selftest_once(fb, R)
    except AnalysisBroken as e:
        _SELFTEST_MEMO[memo_key] = (dict(R.instances), str(e))
        raise
    _SELFTEST_MEMO[memo_key] = (dict(R.instances), None)


def _selftest_once(fb, R):
    from ..engine import AnalysisBroken
    fns = [f for f in fb.functions if f.q.startswith('c13pos::') and f.has_cfg]
    all_rules(fb, R, fns, all_functions=False)
    wrong = []
    names = {f.name for f in fns}
    for nm in sorted(names):
        mine = [i for i in R.instances.values() if ('::%s#' % nm) in i.key or (i.rule.startswith('W1') and not i.ok and ('::%s ' % nm) in (i.msg or ''))]
        if nm.startswith('bad_'):
            tag = nm.split('_')[1].upper()
            if not any((not i.ok) and i.rule.startswith(tag) for i in mine):
                wrong.append('%s not reported by %s*' % (nm, tag))
        elif nm.startswith('ok_'):
            for i in mine:
                if not i.ok:
                    wrong.append('%s reported by %s' % (nm, i.rule))
    if wrong or R.broken_msgs or len(names) < 43:
        raise AnalysisBroken('IVAL self-test: unexpected verdicts on selftest/positive/c13_text.cpp: %s %s' % (wrong, R.broken_msgs))


SELFTESTS = [(r, 'c13_text.cpp', _selftest) for r in (
    'A1-accum-bounded', 'S1-strto-range-rejected', 'S2-strto-trailing-rejected', 'S3-strto-no-digits-rejected',
    'S4-strto-leading-space-rejected', 'S5-strtoul-minus-rejected', 'S6-strto-base-10', 'A2-scale-down-complete', 'A3-scale-up-early-exit-rejected',
    'B1-digit-budget-constant', 'T2-month-length-table', 'T3-timegm-fields-in-range', 'T4-timegm-fields-complete',
    'O1-output-iterator-threaded', 'W1-no-nonreentrant-libc', 'L1-coordinate-fully-consumed', 'N1-negation-excludes-minimum', 'C1-narrowing-in-range',
    'D1-digit-validated', 'T1-array-index-in-range')]
