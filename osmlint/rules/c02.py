"""C02 -- readers decode every spec-conformant file, however it was encoded: CODEC (reader side against the specification
witness) + PAIR (exactly-once on CFG paths) + constant / comparison-only evaluation.

Decides necessary structural conditions only (never that decoded values equal what an independent encoder meant):

 clause 1  PBF field dispatch (engine: osmlint/codec.py pbf_switches / pbf_decoder_cases)
   pbf-unknown-field-skipped        every `switch (X.tag_and_type())` over a pbf_message has a `default` that calls X.skip() exactly
                                    once on every path to the next X.next() and never decodes
   pbf-field-consumed-once          every case of such a switch, and the body of every `while (X.next(TAG, WIRE))`, consumes the
                                    field (X.get_*() / X.skip()) exactly once on every path that reaches the next X.next()
                                    (paths ending in throw are exempt; a return may follow 0 or 1 consumption)
   pbf-spec-field-dispatched        every field of every message declared in protobuf_tags.hpp (the specification witness) is
                                    dispatched on by some reader site, except the frozen NOT_DECODED rows
   pbf-sibling-switches-agree       two switches over the same message type dispatch on the same fields (DenseNodes with / without
                                    metadata; one exempt row)
 clause 2  PBF block parameters reach every value
   pbf-convert-formula              convert_pbf_lon/lat return (arg * G + O) / resolution_convert with one shared granularity member G and
                                    two distinct offset members; lonlat_resolution is the spec's 1e9 and resolution_convert its quotient
   pbf-location-through-convert     every two-argument osmium::Location built in the block decoder takes convert_pbf_lon(..) first and
                                    convert_pbf_lat(..) second; every function that dispatches on a lat/lon field builds one
   pbf-timestamp-scaled             every set_timestamp argument in the block decoder is V * <date factor member> / 1000, same member
                                    at all sites; every function that dispatches on a timestamp field has one
   pbf-block-param-from-own-field   the member read as granularity / lat offset / lon offset / date factor is assigned from the accessor of
                                    the PrimitiveBlock case of the like-named field and nowhere else
   pbf-block-param-default          their in-class defaults are the spec's (granularity 100, offsets 0, date_granularity 1000)
   pbf-block-params-before-data     operator() runs the pass that stores the block parameters before (and separately from) the pass
                                    that converts coordinates / timestamps (field order inside a PrimitiveBlock is free)
 clause 3  PBF blob framing
   blob-header-length-big-endian    the 4-byte BlobHeader length is rebuilt from bytes 0..3 with shifts 24/16/8/0, every byte zero-extended
   blob-header-size-limit           every value produced by that function passes a `> max_blob_header_size => throw` test before it is
                                    returned to the framing loop (fd path and queue path)
   blob-framing-limits-are-spec     max_blob_header_size == 64 KiB, max_uncompressed_blob_size == 32 MiB; each throwing comparison against
                                    max_blob_header_size rejects exactly the sizes above it
 clause 4  o5m reset
   o5m-reset-clears-all-state       O5mParser::reset() calls clear() on every member of type DeltaDecode<..> (each element of arrays of
                                    them) and on the ReferenceTable on every path; clear() stores 0
   o5m-reset-on-marker              decode_data calls reset() exactly for dataset byte 0xff (exhaustive over 0..255)
 clause 6  o5m string reference ring
   o5m-ring-constants               the slot counter wraps at 15000, the stride covers the longest stored string, table sized entries * stride
   o5m-ring-add                     add() stores exactly the strings of size <= 250 + 2; for EVERY prior counter value c in [0, N-1] (N = table
                                    size / stride; exhaustive abstract execution over the counter only) the copy goes to slot c -- inside the
                                    table -- and the counter afterwards is (c + 1) mod N, so it stays in [0, N-1]
   o5m-ring-get                     get() rejects exactly index 0 and index > number_of_entries, and addresses slot
                                    (current + k*N - index) % N with the same N and the same entry size
   pbf-field-numbers-are-spec       every enumerator of protobuf_tags.hpp carries the field number, label and type of the published
                                    fileformat.proto / osmformat.proto (frozen table PROTO in this module = the specification witness)
   o5m-prefetch-not-required        in O5mParser::decode_data a refill request for a constant number of bytes > 1 (the varint prefetch) is
                                    best effort only: its result decides nothing, so a short final dataset is still accepted
   pbf-range-guard-tests-consumed-range  a value taken from a packed range X (varint_range::next_*) under emptiness guards is under the guard
                                    `!X.empty()` of X itself, never only of sibling ranges (dense info columns, way refs/lat/lon, relation
                                    roles/memids/types, keys/vals)
   loop-state-fresh-per-iteration   (OPL, o5m, PBF, XML reader files) a local handed directly to a builder call inside a loop and redefined
                                    somewhere in that loop is redefined on EVERY path from one execution of the call to the next (declared in
                                    the body or reset each iteration): no value is inherited from the previous element
 XML       attribute order independence
   xml-attribute-branch-own-field   in every per-attribute dispatcher (the lambdas handed to XMLParser::check_attributes, OSMObject::set_attribute,
                                    Changeset::set_attribute) a branch for one attribute updates only its own field of the state being assembled:
                                    no two writes under different attribute tests where one target is a prefix of (whole object / sub-object
                                    assigned or re-created) or equal to (same field) the other; an accumulated local is not handed on inside the
                                    loop and is used after it
 extra     o5m dataset framing
   o5m-dataset-codes                dataset_type enumerators carry the codes of the o5m description
   o5m-dataset-length-framing       a length is decoded exactly for dataset bytes < 0xf0 (exhaustive over 0..255); on every path from the
                                    length to the next dataset byte the window is advanced by that length exactly once and nothing else
                                    moves it (unknown datasets are skipped, known ones consumed once)

Not decided (=> "not decided" in the manifest):
 * clause 5 of the design (o5m window validity: m_data/m_end re-derived after every mutation of m_input) is implemented by the
   C06 module with the STALE-W engine (osmlint/stale.py) and deliberately NOT duplicated here; finding F2 is reported there.
 * value-level correctness: granularity arithmetic beyond the formula shape, delta chains, "most recent first" numbering beyond the
   linear form of get(), o5m field order / signedness inside a dataset, XML attribute-order independence and change sections, OPL,
   agreement of the four readers with each other, decompression layers (C09), entity-mask pairing (C05).
 * whether a skipped o5m dataset (entity type not requested) should still feed the string table / delta state.
"""
from .. import codec
from ..codec import short
from ..flow import path_search, describe_path
from ..c01_util import edge_guards
from ..c02_util import (Shape, strip_casts, this_field, leaves, linear_terms, eval_cond, count_paths, describe, always_throws,
                        cond_block_of)

NS = 'osmium::io::detail::'

# (rule, key, explanation) of genuine defects of the pristine tree this module reports.
# History: blob-header-length-big-endian / ...PBFParser::get_size_in_network_byte_order#zero-extension (F15: length bytes widened from
# plain signed char, BlobHeaders of 128..255 or >= 32768 bytes rejected) was reported by this module and has since been fixed in /repo
# ("fix: PBF BlobHeader length bytes are read as unsigned"); its revert is the mutant blob-header-length-sign-extended.
KNOWN = []

EXPLANATION = (
    'Decided: (1) every switch over tag_and_type() of a protozero::pbf_message in the PBF reader has a default that skips, and '
    'every case / next(TAG, WIRE) loop body consumes its field exactly once on every path to the next field; every field of the '
    'messages declared in protobuf_tags.hpp is dispatched on (frozen list of 4 fields that are deliberately not decoded); the two '
    'DenseNodes switches agree. (2) convert_pbf_lon/lat compute (v * granularity + offset) / resolution_convert with distinct '
    'offset members; every Location of the block decoder goes through them (lon first); every timestamp is scaled by the date '
    'factor; each block parameter is stored only in the case of the like-named PrimitiveBlock field, has the spec default, and the '
    'parameter pass precedes the data pass. (3) the BlobHeader length is assembled big-endian with zero-extended bytes; both input '
    'paths apply the max_blob_header_size limit; the limits are the spec\'s. (4) O5mParser::reset() clears every DeltaDecode member '
    'and the reference table and is called exactly for byte 0xff. (6) the o5m reference ring: constants, add() boundary '
    '(size <= 252), slot advance / wrap, get() range test and modular slot arithmetic agree. (extra) o5m dataset codes, length '
    'framing (< 0xf0) and exactly-once skipping of every dataset payload. (XML) every per-attribute branch writes only its own field '
    'of the object being assembled (no whole-object re-creation, no shared field), accumulators are committed after the loop. '
    'NOT decided: o5m input window validity (clause 5; decided by C06 with STALE-W), equality of decoded values with what an '
    'independent encoder meant, delta chains, o5m positional field order, XML/OPL decoding, agreement between the four readers, '
    'decompression, entity-mask pairing.')
ASSUMPTIONS = ['protozero implements the protobuf wire format: get_<k>()/skip() consume the current field, next() advances to the next one',
               'the enumerator names in protobuf_tags.hpp transcribe osmformat.proto / fileformat.proto correctly',
               'plain char is a signed type on the analysed target (x86-64 System V)',
               'drivers/io_read.cpp instantiates every PBF and o5m reader body']

R_DEFAULT = 'pbf-unknown-field-skipped'
R_ONCE = 'pbf-field-consumed-once'
R_SPEC = 'pbf-spec-field-dispatched'
R_SIB = 'pbf-sibling-switches-agree'

# fields of the .proto files that the reader deliberately does not decode (they fall to `default: skip`)
NOT_DECODED = {
    'FileFormat::BlobHeader::optional_bytes_indexdata': 'index data is optional to interpret',
    'OSMFormat::HeaderBlock::optional_string_source': 'not represented in osmium::io::Header',
    'OSMFormat::PrimitiveGroup::repeated_ChangeSet_changesets': 'changesets are not delivered from PBF files (documented)',
    'OSMFormat::PrimitiveGroup::unknown': 'value 0, not a field',
}
# (function, field) rows a sibling switch over the same message may leave to `default`
SIBLING_EXEMPT = {
    (NS + 'PBFPrimitiveBlockDecoder::decode_dense_nodes_without_metadata', 'OSMFormat::DenseNodes::optional_DenseInfo_denseinfo'):
        'metadata not requested (read_meta::no)',
}
# methods of pbf_reader / pbf_message that do not consume the current field
NEUTRAL = {'next', 'tag', 'wire_type', 'tag_and_type', 'has_wire_type', 'length', '(conv)', 'operator bool', 'data'}


# ================================================================================================ clause 1: dispatch

def _reader_call(n):
    return n.get('k') == 'call' and n.get('rcls') in (codec.READER, codec.MESSAGE) and 'q' in n


def _on_root(fn, n, root):
    return n.get('recv') is not None and fn.root_var(n['recv']) == root


def _mname(n):
    return n['q'].rsplit('::', 1)[-1]


def _root_problem(fn, root):
    """Text if the message object is used in a way the path rules cannot follow (passed on, copied, unknown method)."""
    okvars = set()
    for n in fn.all_nodes():
        start = None
        if _reader_call(n) and n.get('recv') is not None:
            start = n['recv']
        elif n.get('k') == 'member' and 'base' in n and n.get('method'):
            start = n['base']
        if start is None:
            continue
        x = start
        hops = 0
        while x in fn.nodes and hops < 10:
            hops += 1
            okvars.add(x)
            m = fn.nodes[x]
            if m.get('k') in ('wrap', 'icast') and 'sub' in m:
                x = m['sub']
            else:
                break
    for n in fn.all_nodes():
        if n.get('k') == 'var' and n.get('d') == root[1] and n['id'] not in okvars:
            return 'the message object %s is used other than as the receiver of a pbf_reader call at %s' % (root[2], fn.loc(n['id']))
        if _reader_call(n) and _on_root(fn, n, root):
            nm = _mname(n)
            if not (nm.startswith('get_') or nm == 'skip' or nm in NEUTRAL):
                return 'unknown pbf_reader method %s() called on %s at %s' % (nm, root[2], fn.loc(n['id']))
    return None


def _walk(fn, root, block):
    def ev(n):
        return _reader_call(n) and _on_root(fn, n, root) and (_mname(n).startswith('get_') or _mname(n) == 'skip')

    def stop(n):
        return _reader_call(n) and _on_root(fn, n, root) and _mname(n) == 'next'
    return count_paths(fn, block, ev, stop)


def _once_verdict(fn, res, what):
    """messages for a {(terminal, count): path} result of a case / loop body."""
    msgs = []
    if ('stop', 0) in res:
        msgs.append('%s: a path reaches the next call of next() with the field neither decoded nor skipped, so the field\'s payload '
                    'is parsed as the next tag: %s' % (what, describe(fn, res[('stop', 0)])))
    if ('stop', 2) in res:
        msgs.append('%s: a path consumes the field twice (the second accessor reads the bytes of the following field): %s'
                    % (what, describe(fn, res[('stop', 2)])))
    if ('exit', 2) in res:
        msgs.append('%s: a path consumes the field twice before returning: %s' % (what, describe(fn, res[('exit', 2)])))
    return msgs


def pbf_dispatch_rules(fb, R):
    sws = codec.pbf_switches(fb)
    dc = codec.pbf_decoder_cases(fb)
    for p in getattr(dc, 'problems', []):
        R.broken(p)
    if not sws:
        R.broken('no switch over pbf_message::tag_and_type() found (PBF decoder not instantiated?)')
        return sws, dc
    covered = set()
    for sw in sws:
        fn, root = sw['fn'], sw['root']
        covered.add((id(fn), root))
        mname = short(sw['msg']) if sw['msg'] else '?'
        swkey = '%s#switch(%s)' % (fn.q, mname)
        site = fn.loc(sw['cond'])
        prob = _root_problem(fn, root)
        if prob:
            R.broken('%s: %s' % (fn.q, prob))
            continue
        # ---- default
        d = sw['default']
        if d is None:
            R.bad(R_DEFAULT, swkey, site,
                  'the switch over %s fields in %s has no default: a field this reader does not know (newer writers, optional '
                  'extensions) is neither decoded nor skipped and its payload is parsed as the next tag' % (mname, fn.q))
        else:
            res = _walk(fn, root, d.block)
            msgs = _once_verdict(fn, res, 'default')
            gets = [nm for (nm, _c) in d.accessors if nm != 'skip']
            if gets:
                msgs.append('default decodes the unknown field with %s() instead of skip() (its wire type is not known)' % gets[0])
            if not msgs and ('stop', 1) not in res and ('exit', 1) not in res:
                msgs.append('default never reaches the next field')
            R.check(not msgs, R_DEFAULT, swkey, site, '%s: %s' % (fn.q, '; '.join(msgs)),
                    detail={'paths': sorted('%s/%d' % k for k in res)})
        # ---- cases
        for c in sw['cases']:
            spec = codec.pbf_spec(fb, c.msg, c.num) if c.msg is not None and c.num is not None else None
            fkey = spec.key if spec is not None else '%s#%s' % (short(c.msg), c.num)
            res = _walk(fn, root, c.block)
            msgs = _once_verdict(fn, res, 'case %s' % fkey)
            R.check(not msgs, R_ONCE, '%s#%s' % (fn.q, fkey), c.site, '%s: %s' % (fn.q, '; '.join(msgs)),
                    detail={'paths': sorted('%s/%d' % k for k in res), 'accessors': [a for (a, _x) in c.accessors]})
    # ---- while (X.next(TAG, WIRE)) { ... }
    for c in dc:
        if getattr(c, 'how', None) != 'next':
            continue
        fn = c.fn
        call = fn.nodes[c.node]
        root = fn.root_var(call['recv'])
        covered.add((id(fn), root))
        spec = codec.pbf_spec(fb, c.msg, c.num) if c.msg is not None and c.num is not None else None
        fkey = spec.key if spec is not None else '%s#%s' % (short(c.msg), c.num)
        prob = _root_problem(fn, root)
        if prob:
            R.broken('%s: %s' % (fn.q, prob))
            continue
        blk = cond_block_of(fn, c.node)
        if blk is None or blk['succs'][0] is None:
            R.broken('%s: next(%s, ..) at %s is not the condition of a loop / branch' % (fn.q, fkey, c.site))
            continue
        res = _walk(fn, root, blk['succs'][0])
        msgs = _once_verdict(fn, res, 'body of while (next(%s))' % fkey)
        R.check(not msgs, R_ONCE, '%s#%s(next-loop)' % (fn.q, fkey), c.site, '%s: %s' % (fn.q, '; '.join(msgs)),
                detail={'paths': sorted('%s/%d' % k for k in res)})
    # ---- every zero-argument next() belongs to a switch that was examined
    for fn in fb.functions:
        if not fn.has_cfg:
            continue
        for n in fn.all_nodes():
            if _reader_call(n) and _mname(n) == 'next' and not n.get('args') and n.get('recv') is not None:
                root = fn.root_var(n['recv'])
                if root is not None and root[0] == 'var' and codec.message_of_type(
                        codec._clean_type(codec.var_types(fn).get(root[1])), (codec.MESSAGE,)) is not None:
                    if (id(fn), root) not in covered:
                        R.broken('%s: %s.next() at %s is not followed by a switch over tag_and_type() -- dispatch shape not understood'
                                 % (fn.q, root[2], fn.loc(n['id'])))
    return sws, dc


def pbf_spec_rules(fb, R, sws, dc, like=(NS + 'OSMFormat::Node', NS + 'FileFormat::Blob')):
    msgs = set()
    for l in like:
        if fb.enum(l) is not None:
            msgs |= codec.message_enums(fb, l)
    if not msgs:
        R.broken('message enums of protobuf_tags.hpp not found')
        return
    cases = {}
    for c in dc:
        cases.setdefault((c.msg, c.num), []).append(c)
    for m in sorted(msgs):
        e = fb.enum(m)
        for en in e['enumerators']:
            num = int(en['value'])
            spec = codec.pbf_spec(fb, m, num)
            if spec is None or spec.key in NOT_DECODED:
                continue
            if spec.label is None:
                R.broken('enumerator %s does not transcribe a proto declaration (<label>_<type>_<field>)' % spec.key)
                continue
            cs = [c for c in cases.get((m, num), []) if c.consumed or c.throws]
            site = cs[0].site if cs else '%s:%s' % (e.get('file', '?'), en.get('l', e.get('line', '?')))
            R.check(bool(cs), R_SPEC, spec.key, site,
                    'field %s (%s %s) is declared by the format but no reader site dispatches on it: it falls to `default: skip` and the '
                    'data it carries is dropped%s' % (spec.key, spec.label, spec.ptype,
                                                      ' (a case exists but only skips)' if cases.get((m, num)) else ''),
                    detail={'decoded_by': sorted({c.fn.q for c in cs})})
    # ---- sibling switches over the same message
    by_msg = {}
    for sw in sws:
        if sw['msg'] is not None:
            by_msg.setdefault(sw['msg'], {}).setdefault(sw['fn'].q, sw)
    for m, group in sorted(by_msg.items()):
        if len(group) < 2:
            continue
        union = {}
        for q, sw in group.items():
            for c in sw['cases']:
                if c.num is not None:
                    union.setdefault(c.num, q)
        for q, sw in sorted(group.items()):
            have = {c.num for c in sw['cases']}
            for num, other in sorted(union.items()):
                spec = codec.pbf_spec(fb, m, num)
                fkey = spec.key if spec is not None else '%s#%s' % (short(m), num)
                if (q, fkey) in SIBLING_EXEMPT:
                    continue
                R.check(num in have, R_SIB, '%s#%s' % (q, fkey), sw['fn'].loc(sw['cond']),
                        '%s has no case for %s although %s, which decodes the same message type, has one: the field is silently skipped '
                        'on this path' % (q, fkey, other))


# ================================================================================================ clause 2: block parameters

R_FORMULA = 'pbf-convert-formula'
R_LOC = 'pbf-location-through-convert'
R_TS = 'pbf-timestamp-scaled'
R_STORE = 'pbf-block-param-from-own-field'
R_DEFAULTS = 'pbf-block-param-default'
R_ORDER = 'pbf-block-params-before-data'

# role -> (field name in the PrimitiveBlock message, spec default)
PARAM_FIELDS = {'granularity': ('granularity', 100), 'lat_offset': ('lat_offset', 0), 'lon_offset': ('lon_offset', 0),
                'date_factor': ('date_granularity', 1000)}


def resolve(fn, nid):
    """Stripped node of an expression, looking through casts and through locals that only name another expression."""
    n = strip_casts(fn, nid)
    hops = 0
    while n is not None and hops < 8:
        hops += 1
        m = codec.through_locals(fn, n['id'])
        m = strip_casts(fn, m['id']) if m is not None else None
        if m is None or m['id'] == n['id']:
            break
        n = m
    return n


def resolved_leaves(fn, nid, depth=0):
    """leaves() with single-assignment locals replaced by the leaves of their initialiser."""
    out = []
    for x in leaves(fn, nid):
        if x[0] == 'local' and x[1] in codec.local_inits(fn) and depth < 6:
            out.extend(resolved_leaves(fn, codec.local_inits(fn)[x[1]], depth + 1))
        else:
            out.append(x)
    return out


def _parse_convert(fn):
    """{'gran': field q, 'off': field q, 'den': global q} of `return (param * G + O) / D`; raises Shape; returns ('bad', text) when
    the dependencies of the result are not {param, two members, one global}."""
    rets = [n for n in fn.all_nodes() if n.get('k') == 'return' and 'sub' in n]
    if len(rets) != 1:
        raise Shape('%d return statements' % len(rets))
    lv = resolved_leaves(fn, rets[0]['sub'])
    params = {x[1] for x in lv if x[0] == 'param'}
    fields = [x for x in lv if x[0] == 'field']
    globs = {x[1] for x in lv if x[0] == 'global'}
    other = [x for x in lv if x[0] in ('local', 'call')]
    if other:
        raise Shape('result depends on %s' % sorted({str(x[1]) for x in other}))
    if len(params) != 1 or len({f[1] for f in fields}) != 2 or len(fields) != 2 or len(globs) != 1:
        return ('bad', 'the result must depend on exactly {argument, granularity member, offset member, resolution constant}; it depends on '
                       'parameters %d, members %s, constants %s'
                % (len(params), sorted(f[2] for f in fields), sorted(g.rsplit('::', 1)[-1] for g in globs)))
    e = resolve(fn, rets[0]['sub'])
    if e is None or e.get('k') != 'binop' or e['op'] != '/':
        raise Shape('return expression is not a quotient')
    den = resolve(fn, e['rhs'])
    if den is None or den.get('k') != 'var' or den.get('vk') not in ('global', 'static_member'):
        raise Shape('divisor is not a named constant')
    num = resolve(fn, e['lhs'])
    if num is None or num.get('k') != 'binop' or num['op'] != '+':
        raise Shape('dividend is not a sum')
    a, b = resolve(fn, num['lhs']), resolve(fn, num['rhs'])
    prod, off = (a, b) if (a is not None and a.get('k') == 'binop' and a['op'] == '*') else (b, a)
    if prod is None or prod.get('k') != 'binop' or prod['op'] != '*' or this_field(fn, off) is None:
        raise Shape('dividend is not (argument * member) + member')
    x, y = resolve(fn, prod['lhs']), resolve(fn, prod['rhs'])
    par, gran = (x, y) if (x is not None and x.get('k') == 'var') else (y, x)
    if par is None or par.get('k') != 'var' or par.get('vk') != 'param' or this_field(fn, gran) is None:
        raise Shape('product is not argument * member')
    return {'gran': this_field(fn, gran), 'off': this_field(fn, off), 'den': den.get('q'), 'gran_name': gran['name'], 'off_name': off['name']}


def pbf_block_param_rules(fb, R, sws, PD=NS + 'PBFPrimitiveBlockDecoder', LONF='convert_pbf_lon', LATF='convert_pbf_lat',
                          RESOLUTION=NS + 'lonlat_resolution', RESCONV=NS + 'resolution_convert', BLOCK_MSG='PrimitiveBlock'):
    lonq, latq = '%s::%s' % (PD, LONF), '%s::%s' % (PD, LATF)
    roles = {}
    parsed = {}
    for q in (lonq, latq):
        fns = [f for f in fb.fns(q) if f.has_cfg]
        if not fns:
            R.broken('%s not found' % q)
            continue
        for fn in fns:
            try:
                p = _parse_convert(fn)
            except Shape as ex:
                R.broken('%s: conversion formula not understood (%s)' % (q, ex))
                continue
            if isinstance(p, tuple):
                R.bad(R_FORMULA, q + '#formula', fn.site, '%s: %s' % (q, p[1]))
                continue
            parsed[q] = (fn, p)
    if lonq in parsed and latq in parsed:
        (flon, plon), (flat, plat) = parsed[lonq], parsed[latq]
        R.check(plon['den'] == RESCONV, R_FORMULA, lonq + '#formula', flon.site,
                '%s divides by %s instead of resolution_convert' % (lonq, plon['den']), detail=plon)
        msgs = []
        if plat['den'] != RESCONV:
            msgs.append('divides by %s instead of resolution_convert' % plat['den'])
        if plat['gran'] != plon['gran']:
            msgs.append('scales by %s while %s scales by %s (one granularity applies to both axes)' % (plat['gran_name'], LONF, plon['gran_name']))
        if plat['off'] == plon['off']:
            msgs.append('adds %s, the same offset member as %s: lat_offset and lon_offset are independent block parameters, a block with '
                        'lat_offset != lon_offset decodes every latitude shifted by their difference' % (plat['off_name'], LONF))
        R.check(not msgs, R_FORMULA, latq + '#formula', flat.site, '%s: %s' % (latq, '; '.join(msgs)), detail=plat)
        if plat['gran'] == plon['gran'] and plat['off'] != plon['off']:
            roles = {'granularity': plon['gran'], 'lon_offset': plon['off'], 'lat_offset': plat['off']}
    # constants: nanodegrees in the file, coordinate_precision units in memory
    res = fb.global_const(RESOLUTION)
    conv = fb.global_const(RESCONV)
    prec = None
    for e in fb.enums:
        for en in e['enumerators']:
            if en['name'] == 'coordinate_precision' and e['q'].startswith('osmium::detail::'):
                prec = int(en['value'])
    if prec is None:
        g = fb.global_const('osmium::detail::coordinate_precision')
        prec = int(g['cv']) if g is not None and 'cv' in g else None
    if res is None or conv is None or 'cv' not in res or 'cv' not in conv:
        R.broken('constants %s / %s not found' % (RESOLUTION, RESCONV))
    else:
        r, c = int(res['cv']), int(conv['cv'])
        msgs = []
        if r != 1000000000:
            msgs.append('lonlat_resolution is %d, the format stores nanodegrees (1e9 units per degree)' % r)
        if prec is not None and c * prec != r:
            msgs.append('resolution_convert (%d) * coordinate_precision (%d) != lonlat_resolution (%d)' % (c, prec, r))
        if prec is None and c != 100:
            msgs.append('resolution_convert is %d, expected 100' % c)
        R.check(not msgs, R_FORMULA, RESCONV + '#constants', '%s:%s' % (conv['file'], conv['l']), '; '.join(msgs),
                detail={'lonlat_resolution': r, 'resolution_convert': c, 'coordinate_precision': prec})

    members = [f for f in fb.functions if f.cls == PD and f.has_cfg and not f.is_lambda]
    if not members:
        R.broken('no method body of %s found' % PD)
        return
    my_sws = [sw for sw in sws if sw['fn'].cls == PD]

    def fields_of(fn):
        out = set()
        for sw in my_sws:
            if sw['fn'] is fn:
                for c in sw['cases']:
                    sp = codec.pbf_spec(fb, c.msg, c.num) if c.msg and c.num is not None else None
                    if sp is not None and sp.field:
                        out.add(sp.field)
        return out

    # ---- Location through convert
    for fn in members:
        found = 0
        for n in fn.all_nodes():
            if n.get('k') != 'construct' or n.get('q') != 'osmium::Location::(ctor)' or len(n.get('args', [])) != 2:
                continue
            found += 1
            a0, a1 = codec.through_locals(fn, n['args'][0]), codec.through_locals(fn, n['args'][1])
            who = _enclosing_callee(fn, n['id'])
            key = '%s#Location%s' % (fn.q, '->' + who if who else '')
            msgs = []
            for (a, want, axis) in ((a0, lonq, 'first (longitude)'), (a1, latq, 'second (latitude)')):
                got = a.get('q') if a is not None and a.get('k') == 'call' else None
                if got != want:
                    msgs.append('the %s argument is %s, not a call of %s: granularity / offset of the block are not applied'
                                % (axis, fn.expr(a['id'])[:60] if a is not None else '?', want.rsplit('::', 1)[-1]))
            R.check(not msgs, R_LOC, key, fn.loc(n['id']), '%s: %s' % (fn.q, '; '.join(msgs)))
        if found == 0 and fields_of(fn) & {'lat', 'lon'}:
            R.bad(R_LOC, '%s#Location' % fn.q, fn.site,
                  '%s dispatches on lat / lon fields but never builds an osmium::Location from %s / %s' % (fn.q, LONF, LATF))

    # ---- timestamps
    df_members = {}
    for fn in members:
        found = 0
        for n in fn.all_nodes():
            if n.get('k') != 'call' or not n.get('q', '').endswith('::set_timestamp') or not n.get('args'):
                continue
            found += 1
            key = '%s#set_timestamp' % fn.q
            a = codec.through_locals(fn, n['args'][0])
            hops = 0
            while a is not None and a.get('k') == 'construct' and len(a.get('args', [])) == 1 and hops < 4:
                hops += 1   # implicit conversion of the integer to osmium::Timestamp
                a = codec.through_locals(fn, a['args'][0])
            e = strip_casts(fn, a['id']) if a is not None else None
            fl = [x for x in leaves(fn, n['args'][0]) if x[0] == 'field'] if a is None else \
                [x for x in leaves(fn, a['id']) if x[0] == 'field']
            if not fl:
                R.bad(R_TS, key, fn.loc(n['id']),
                      '%s: the timestamp %s does not depend on any block parameter: date_granularity of the block is not applied'
                      % (fn.q, fn.expr(n['args'][0])[:80]))
                continue
            ok = False
            if e is not None and e.get('k') == 'binop' and e['op'] == '/' and fn.const_value(e['rhs']) == 1000:
                p = strip_casts(fn, e['lhs'])
                if p is not None and p.get('k') == 'binop' and p['op'] == '*':
                    sides = [strip_casts(fn, p['lhs']), strip_casts(fn, p['rhs'])]
                    fs = [s for s in sides if this_field(fn, s) is not None]
                    if len(fs) == 1:
                        df_members.setdefault(this_field(fn, fs[0]), []).append((fn, n['id'], fs[0]['name']))
                        ok = True
            if not ok:
                R.broken('%s: timestamp expression %s is not V * member / 1000' % (fn.q, fn.expr(n['args'][0])[:80]))
                continue
            R.ok(R_TS, key, fn.loc(n['id']))
        if found == 0 and 'timestamp' in fields_of(fn):
            R.bad(R_TS, '%s#set_timestamp' % fn.q, fn.site, '%s dispatches on a timestamp field but never calls set_timestamp' % fn.q)
    if len(df_members) > 1:
        names = sorted(v[0][2] for v in df_members.values())
        for q, lst in df_members.items():
            for (fn, nid, nm) in lst[:1]:
                R.bad(R_TS, '%s#set_timestamp' % fn.q, fn.loc(nid), 'timestamps are scaled by different members (%s) in sibling decoders' % ', '.join(names))
    elif len(df_members) == 1:
        roles['date_factor'] = next(iter(df_members))

    # ---- each parameter stored in the case of the like-named field, and nowhere else
    if len(roles) < 4:
        return roles
    role_of = {q: r for r, q in roles.items()}
    blk = [sw for sw in my_sws if sw['msg'] and sw['msg'].rsplit('::', 1)[-1] == BLOCK_MSG]
    if not blk:
        R.broken('no switch over %s fields in %s' % (BLOCK_MSG, PD))
        return roles
    msgq = blk[0]['msg']
    writes = []   # (fn, node id, field q)
    for fn in members:
        if fn.kind in ('ctor', 'dtor'):
            continue
        for n in fn.all_nodes():
            tgt = None
            if n.get('k') == 'assign':
                tgt = n['lhs']
            elif n.get('k') == 'unop' and n['op'] in ('++', '--', '&'):
                tgt = n['sub']
            if tgt is None:
                continue
            f = this_field(fn, fn.sn(tgt))
            if f in role_of:
                writes.append((fn, n, f))
    e = fb.enum(msgq)
    for role, (fname, _default) in sorted(PARAM_FIELDS.items()):
        spec = None
        for en in (e['enumerators'] if e else []):
            sp = codec.pbf_spec(fb, msgq, int(en['value']))
            if sp is not None and sp.field == fname:
                spec = sp
        if spec is None:
            R.broken('enum %s declares no field %s' % (short(msgq), fname))
            continue
        key = '%s#stored' % spec.key
        member = roles[role]
        mname = member.rsplit('::', 1)[-1]
        cs = [(sw, c) for sw in blk for c in sw['cases'] if c.num == spec.num]
        if not cs:
            R.bad(R_STORE, key, blk[0]['fn'].loc(blk[0]['cond']),
                  'no case for %s: the block parameter is skipped and %s keeps its default for every block' % (spec.key, mname))
            continue
        msgs = []
        for (sw, c) in cs:
            fn = sw['fn']
            stored = set()
            for (g, n, f) in writes:
                if g is fn and n.get('k') == 'assign' and n.get('op') == '=' and c.lo <= n.get('o', -1) < c.hi:
                    sc = getattr(c, 'scalar_node', None)
                    if sc is not None and sc in fn.subtree(n['rhs']):
                        stored.add(f)
            if stored != {member}:
                msgs.append('the case stores the decoded value in %s but the value is read from %s by %s'
                            % (sorted(s.rsplit('::', 1)[-1] for s in stored) or 'no block parameter', mname, _reader_of(role, LONF, LATF)))
        for (g, n, f) in writes:
            if f != member:
                continue
            inside = any(sw['fn'] is g and c.lo <= n.get('o', -1) < c.hi for (sw, c) in cs)
            if not inside:
                msgs.append('%s is also written at %s, outside the case of its field' % (mname, g.loc(n['id'])))
        R.check(not msgs, R_STORE, key, cs[0][1].site, '%s: %s' % (spec.key, '; '.join(msgs)), detail={'member': member})
        # defaults
        for ctor in [f for f in members if f.kind == 'ctor']:
            for n in ctor.all_nodes():
                if n.get('k') == 'init' and n.get('q') == member:
                    v = ctor.const_value(n['init']) if isinstance(n.get('init'), int) else None
                    want = PARAM_FIELDS[role][1]
                    R.check(v == want, R_DEFAULTS, '%s#default' % spec.key, ctor.loc(n['id']),
                            '%s starts as %s; a block that omits %s must be decoded with the format\'s default %d' % (mname, v, fname, want))

    # ---- the pass that stores the parameters runs before, and apart from, the pass that uses them
    setters = {g.q for (g, _n, _f) in writes}
    users = {lonq, latq} | {fn.q for lst in df_members.values() for (fn, _i, _nm) in lst}
    closure = {}

    def reach(q):
        if q not in closure:
            s = {q}
            for g in fb.fns(q):
                s |= fb.callees_closure(g)
            closure[q] = s
        return closure[q]
    for fn in [f for f in members if f.name in ('operator()',)]:
        calls = [n for n in fn.all_nodes() if n.get('k') == 'call' and n.get('rcls') == PD and 'q' in n]
        scalls = [c for c in calls if reach(c['q']) & setters]
        ucalls = [c for c in calls if reach(c['q']) & users]
        msgs = []
        if not scalls or not ucalls:
            R.broken('%s: cannot find the parameter pass / data pass (%d / %d calls)' % (fn.q, len(scalls), len(ucalls)))
            continue
        for u in ucalls:
            if u in scalls:
                msgs.append('%s both stores block parameters and converts values in one pass: a PrimitiveBlock that carries granularity / '
                            'offsets after its primitivegroup fields (field numbers 17..20 > 2, the order a canonical serialiser emits) is '
                            'decoded with the defaults' % u['q'].rsplit('::', 1)[-1])
            elif not any(fn.elem_dominates(s['id'], u['id']) for s in scalls if s is not u):
                msgs.append('%s runs without the parameter pass (%s) before it' % (u['q'].rsplit('::', 1)[-1],
                                                                                 ', '.join(sorted({s['q'].rsplit('::', 1)[-1] for s in scalls}))))
        R.check(not msgs, R_ORDER, '%s#params-before-data' % fn.q, fn.site, '%s: %s' % (fn.q, '; '.join(msgs)))
    return roles


def _reader_of(role, LONF, LATF):
    return {'granularity': LONF + '/' + LATF, 'lon_offset': LONF, 'lat_offset': LATF, 'date_factor': 'set_timestamp'}[role]


def _enclosing_callee(fn, nid):
    pm = fn.parent_map()
    x = nid
    hops = 0
    while x in pm and hops < 8:
        x = pm[x]
        hops += 1
        n = fn.nodes[x]
        if n.get('k') == 'call' and 'q' in n:
            return n['q'].rsplit('::', 1)[-1]
        if n.get('k') not in ('wrap', 'icast', 'cast', 'construct'):
            return None
    return None


# ================================================================================================ clause 3: blob framing

R_BE = 'blob-header-length-big-endian'
R_LIMIT = 'blob-header-size-limit'
R_SPECLIM = 'blob-framing-limits-are-spec'
UNSIGNED8 = ('unsigned char', 'const unsigned char')
SIGNED8 = ('char', 'const char', 'signed char', 'const signed char')


def _byte_term(fn, node):
    # node: id of the (unstripped) term expression
    """(byte index, shift, zero-extended?, element type, base root) for `cast(p[i]) << K` / `cast(p[i])` / masked forms."""
    shift = 0
    n = strip_casts(fn, node)
    if n is None:
        return None
    if n.get('k') == 'binop' and n['op'] == '<<':
        shift = fn.const_value(n['rhs'])
        if shift is None:
            return None
        top = n['lhs']
    else:
        top = node
    masked = False
    t = strip_casts(fn, top)
    if t is not None and t.get('k') == 'var':
        r = resolve(fn, t['id'])
        if r is not None and r['id'] != t['id']:
            # a local that only names the byte: judge the widening at its initialiser (declared type of the local included)
            d = t.get('d')
            init = codec.local_inits(fn).get(d)
            if init is not None:
                top = init
                t = strip_casts(fn, top)
    if t is not None and t.get('k') == 'binop' and t['op'] == '&' and fn.const_value(t['rhs']) == 0xff:
        masked = True
        top = t['lhs']
        t = strip_casts(fn, top)
    if t is None or t.get('k') != 'index':
        return None
    idx = fn.const_value(t['idx'])
    base = resolve(fn, t['base'])
    root = fn.root_var(base['id']) if base is not None else None
    if idx is None or root is None:
        return None
    elem = t.get('t', '')
    zext = masked or elem in UNSIGNED8
    if not zext:
        # the first value conversion applied to the byte decides: via unsigned char => zero-extended
        x = top
        chain = []
        hops = 0
        while x in fn.nodes and hops < 20:
            hops += 1
            m = fn.nodes[x]
            if m['id'] == t['id']:
                break
            chain.append(m)
            if m.get('k') in ('wrap', 'icast', 'cast') and 'sub' in m:
                x = m['sub']
            else:
                break
        for m in reversed(chain):   # innermost first
            ty = m.get('t', '')
            if m.get('ck') in ('LValueToRValue', 'NoOp') and ty in SIGNED8 + UNSIGNED8 and ty not in UNSIGNED8:
                continue
            if ty in UNSIGNED8:
                zext = True
            break
    return (idx, shift, zext, elem, root)


def _assembler(fn):
    """[(idx, shift, zext, elem, root)] if fn returns the OR / sum of >= 2 shifted bytes of one buffer, else None."""
    for n in fn.all_nodes():
        if n.get('k') != 'return' or 'sub' not in n:
            continue
        terms = []
        stack = [n['sub']]
        ok = True
        while stack and ok:
            raw = stack.pop()
            x = strip_casts(fn, raw)
            if x is not None and x.get('k') == 'var':
                y = resolve(fn, x['id'])
                if y is not None and y.get('k') == 'binop' and y['op'] in ('|', '+'):
                    x = y
            if x is not None and x.get('k') == 'binop' and x['op'] in ('|', '+'):
                stack += [x['lhs'], x['rhs']]
                continue
            t = _byte_term(fn, raw) if x is not None else None
            if t is None:
                ok = False
            else:
                terms.append(t)
        if ok and len(terms) >= 2 and len({t[4] for t in terms}) == 1:
            return terms, n['id']
    return None


def _limit_guard(fn, ret, LIMIT):
    """Does `return v` execute only when a comparison of v against LIMIT said "not above"?  Returns (ok, text)."""
    v = strip_casts(fn, fn.nodes[ret]['sub'])
    if v is None or v.get('k') != 'var':
        return None
    for (c, sense, _b) in edge_guards(fn, ret, loop_exits=True):
        n = strip_casts(fn, c)
        if n is None or n.get('k') != 'binop' or n['op'] not in ('<', '<=', '>', '>='):
            continue
        l, r = strip_casts(fn, n['lhs']), strip_casts(fn, n['rhs'])
        if l is None or r is None:
            continue
        op = n['op']
        if r.get('k') == 'var' and r.get('d') == v.get('d') and l.get('q') == LIMIT:
            l, r = r, l
            op = {'<': '>', '>': '<', '<=': '>=', '>=': '<='}[op]
        if l.get('k') == 'var' and l.get('d') == v.get('d') and r.get('q') == LIMIT:
            # the return runs when (v op LIMIT) == sense; it must run exactly for v <= LIMIT
            eff = op if sense else {'<': '>=', '>': '<=', '<=': '>', '>=': '<'}[op]
            return (eff == '<=', 'returns when size %s limit' % eff)
    return (False, 'no comparison with %s guards the return' % LIMIT.rsplit('::', 1)[-1])


def pbf_framing_rules(fb, R, PARSER=NS + 'PBFParser', LIMIT=NS + 'max_blob_header_size', BLOBLIMIT=NS + 'max_uncompressed_blob_size'):
    asm = None
    for fn in fb.functions:
        if fn.cls != PARSER or not fn.has_cfg:
            continue
        a = _assembler(fn)
        if a is not None:
            asm = (fn, a[0], a[1])
    if asm is None:
        R.broken('the function that rebuilds the 4-byte BlobHeader length (p[i] << s terms) was not found in %s' % PARSER)
        return
    afn, terms, _ret = asm
    pairs = {(t[0], t[1]) for t in terms}
    want = {(0, 24), (1, 16), (2, 8), (3, 0)}
    R.check(pairs == want and len(terms) == 4, R_BE, afn.q + '#byte-order', afn.site,
            '%s rebuilds the BlobHeader length from (byte index, shift) %s; the format stores it in network byte order %s'
            % (afn.q, sorted(pairs), sorted(want)), detail={'terms': sorted(pairs)})
    sx = sorted({t[0] for t in terms if not t[2]})
    R.check(not sx, R_BE, afn.q + '#zero-extension', afn.site,
            '%s widens byte(s) %s of a `%s` buffer without going through unsigned char: on targets where plain char is signed a length '
            'byte >= 0x80 sign-extends (0x80 -> 0xFFFFFF80) and the assembled size is garbage, e.g. a 128-byte BlobHeader (00 00 00 80) is '
            'rejected as > max_blob_header_size' % (afn.q, sx, terms[0][3]), detail={'element_type': terms[0][3]})

    # ---- every use of the assembled size is range checked before it reaches the framing loop
    def checker_ok(g):
        """g returns its parameter only under the limit guard."""
        rets = [n for n in g.all_nodes() if n.get('k') == 'return' and 'sub' in n]
        if not rets:
            return (False, 'no return')
        for r in rets:
            res = _limit_guard(g, r['id'], LIMIT)
            if res is None:
                return None
            if not res[0]:
                return res
        return (True, '')
    nsites = 0
    for fn in fb.functions:
        if not fn.has_cfg:
            continue
        for c in fn.all_nodes():
            if c.get('k') != 'call' or c.get('u') != afn.usr:
                continue
            nsites += 1
            src = fn.root_var(c['args'][0]) if c.get('args') else None
            srcname = src[2] if src is not None and len(src) > 2 else '?'
            key = '%s#size-from:%s' % (fn.q, srcname)
            pm = fn.parent_map()
            x = c['id']
            p = None
            hops = 0
            while x in pm and hops < 8:
                hops += 1
                p = fn.nodes[pm[x]]
                if p.get('k') in ('wrap', 'icast', 'cast'):
                    x = p['id']
                    continue
                break
            verdict = None
            if p is not None and p.get('k') == 'call' and p.get('u') and x in p.get('args', []):
                gs = [g for g in fb.by_usr.get(p['u'], []) if g.has_cfg]
                if gs:
                    verdict = checker_ok(gs[0])
                    if verdict is not None and not verdict[0]:
                        verdict = (False, 'it is passed to %s which %s' % (p['q'].rsplit('::', 1)[-1], verdict[1]))
            elif p is not None and (p.get('k') == 'assign' or p.get('k') == 'decl'):
                d = None
                if p.get('k') == 'assign':
                    l = fn.sn(p['lhs'])
                    d = l.get('d') if l is not None and l.get('k') == 'var' else None
                else:
                    for v in p['vars']:
                        if isinstance(v.get('init'), int) and c['id'] in fn.subtree(v['init']):
                            d = v['d']
                if d is not None:
                    rets = [n for n in fn.all_nodes() if n.get('k') == 'return' and 'sub' in n
                            and any(fn.nodes[y].get('k') == 'var' and fn.nodes[y].get('d') == d for y in fn.subtree(n['sub']))]
                    if rets:
                        verdict = (True, '')
                        for r in rets:
                            rv = strip_casts(fn, r['sub'])
                            if rv is not None and rv.get('k') == 'var':
                                res = _limit_guard(fn, r['id'], LIMIT)
                            elif rv is not None and rv.get('k') == 'call' and rv.get('u') and len(rv.get('args', [])) == 1 and \
                                    (strip_casts(fn, rv['args'][0]) or {}).get('d') == d:
                                gs = [g for g in fb.by_usr.get(rv['u'], []) if g.has_cfg]
                                res = checker_ok(gs[0]) if gs else None
                                if res is not None and not res[0]:
                                    res = (False, 'it is passed to %s which %s' % (rv['q'].rsplit('::', 1)[-1], res[1]))
                            else:
                                res = None
                            if res is None or not res[0]:
                                verdict = res
                                break
            elif p is not None and p.get('k') == 'return':
                verdict = (False, 'it is returned unchecked')
            if verdict is None:
                R.broken('%s: cannot follow the BlobHeader length from %s' % (fn.q, fn.loc(c['id'])))
                continue
            R.check(verdict[0], R_LIMIT, key, fn.loc(c['id']),
                    '%s: the BlobHeader length read from %s reaches the framing loop without the max_blob_header_size test (%s): this input '
                    'path accepts / allocates header sizes the other path rejects' % (fn.q, srcname, verdict[1]))
    if nsites == 0:
        R.broken('%s is never called' % afn.q)

    # ---- the limits are the format's
    lim = fb.global_const(LIMIT)
    blim = fb.global_const(BLOBLIMIT)
    if lim is None or blim is None or 'cv' not in lim or 'cv' not in blim:
        R.broken('constants %s / %s not found' % (LIMIT, BLOBLIMIT))
        return
    R.check(int(lim['cv']) == 64 * 1024, R_SPECLIM, LIMIT, '%s:%s' % (lim['file'], lim['l']),
            'max_blob_header_size is %s; the format allows BlobHeaders of up to 64 KiB (65536)' % lim['cv'])
    R.check(int(blim['cv']) == 32 * 1024 * 1024, R_SPECLIM, BLOBLIMIT, '%s:%s' % (blim['file'], blim['l']),
            'max_uncompressed_blob_size is %s; the format allows blobs of up to 32 MiB (33554432)' % blim['cv'])
    L = int(lim['cv'])
    for fn in fb.functions:
        if not fn.has_cfg:
            continue
        for n in fn.all_nodes():
            if n.get('k') != 'binop' or n['op'] not in ('<', '<=', '>', '>=', '==', '!='):
                continue
            l, r = strip_casts(fn, n['lhs']), strip_casts(fn, n['rhs'])
            if l is None or r is None or LIMIT not in (l.get('q'), r.get('q')):
                continue
            blk = cond_block_of(fn, n['id'])
            if blk is None:
                continue
            tt, ft = always_throws(fn, blk['succs'][0]), always_throws(fn, blk['succs'][1])
            if tt == ft:
                continue
            lim_right = r.get('q') == LIMIT

            def rejected(v, n=n, lim_right=lim_right, tt=tt):
                from ..c02_util import _CMP
                res = _CMP[n['op']](v, L) if lim_right else _CMP[n['op']](L, v)
                return res == tt
            bad = [v for v in (0, 1, L - 1, L, L + 1, 2 * L) if rejected(v) != (v > L)]
            R.check(not bad, R_SPECLIM, '%s#%s' % (fn.q, LIMIT.rsplit('::', 1)[-1]), fn.loc(n['id']),
                    '%s: the test %s %s a BlobHeader of %s bytes; exactly the sizes above max_blob_header_size (%d) may be rejected'
                    % (fn.q, fn.expr(n['id']), 'rejects' if bad and bad[0] <= L else 'accepts', bad[0] if bad else '', L))


# ================================================================================================ clause 4: o5m reset

R_RESET = 'o5m-reset-clears-all-state'
R_MARK = 'o5m-reset-on-marker'


def _exit_t(x):
    return isinstance(x, tuple) and x[0] == 'exit'


def o5m_reset_rules(fb, R, PARSER=NS + 'O5mParser', TABLE=NS + 'ReferenceTable', DELTA='osmium::DeltaDecode'):
    rec = fb.record(PARSER)
    fns = [f for f in fb.fns(PARSER + '::reset') if f.has_cfg]
    if rec is None or not fns:
        R.broken('%s / its reset() not found' % PARSER)
        return
    required = []   # (field q, field name, element index or None)
    for f in rec.fields:
        t = f['tC']
        if t.startswith(DELTA + '<') or t == TABLE:
            required.append((f['q'], f['name'], None))
        elif t.startswith('std::array<' + DELTA + '<'):
            ta = codec.template_args(t)
            try:
                n = int(ta[-1])
            except (ValueError, IndexError):
                R.broken('%s: cannot read the extent of %s' % (PARSER, t))
                continue
            for i in range(n):
                required.append((f['q'], f['name'], i))
        elif DELTA + '<' in t or TABLE in t:
            R.broken('%s::%s has type %s: a container of delta / table state this checker does not understand' % (PARSER, f['name'], t))
    if not required:
        R.broken('%s has no DeltaDecode / ReferenceTable member' % PARSER)
    for fn in fns:
        clears = {}
        inits = {}
        for n in fn.all_nodes():
            if n.get('k') == 'decl':
                for v in n['vars']:
                    if isinstance(v.get('init'), int):
                        inits[v['d']] = (v['init'], n['id'])
        unknown = False
        for n in fn.all_nodes():
            if n.get('k') != 'call' or n.get('q') not in (DELTA + '::clear', TABLE + '::clear') or n.get('recv') is None:
                continue
            r = fn.sn(n['recv'])
            if r is not None and r.get('k') == 'var' and r.get('d') in inits:
                # `for (auto& x : member) x.clear();`  x = *__begin, __begin = __range.begin(), __range = member
                rng = _range_for_field(fn, r['d'], inits)
                if rng is not None:
                    clears.setdefault((rng[0], 'all'), []).append(rng[1])
                    continue
                unknown = True
                R.broken('%s: clear() on local %s whose origin is not understood at %s' % (fn.q, r['name'], fn.loc(n['id'])))
                continue
            idx = None
            if r is not None and r.get('k') == 'call' and r.get('op') == '[]' and r.get('args'):
                idx = fn.const_value(r['args'][0])
                if idx is None:
                    R.broken('%s: clear() on an element with a non-constant index at %s' % (fn.q, fn.loc(n['id'])))
                    continue
            elif r is not None and r.get('k') == 'index':
                idx = fn.const_value(r['idx'])
            root = fn.root_var(n['recv'])
            if root is not None and root[0] == 'field':
                clears.setdefault((root[1], idx), []).append(n['id'])
        if unknown:
            continue
        for (fq, fname, i) in required:
            ids = set(clears.get((fq, i), [])) | set(clears.get((fq, 'all'), []))
            label = fname if i is None else '%s[%d]' % (fname, i)
            w = path_search(fn, fn.entry, _exit_t, lambda x: x in ids, from_block_start=True) if ids else ['none']
            R.check(bool(ids) and w is None, R_RESET, '%s#%s' % (fn.q, label), fn.site,
                    '%s does not clear %s%s: after a reset marker (0xff) the next delta-coded value / string reference is resolved against '
                    'state from before the marker, while the writer restarted from zero'
                    % (fn.q, label, '' if not ids else ' on the path ' + describe_path(fn, w)))
    # clear() really resets
    for q in (DELTA + '::clear', TABLE + '::clear'):
        gs = [g for g in fb.fns(q) if g.has_cfg]
        if not gs:
            R.broken('%s not found' % q)
        seen = set()
        for g in gs:
            if g.pat in seen:
                continue
            seen.add(g.pat)
            zeroed = [n for n in g.all_nodes() if n.get('k') == 'assign' and n.get('op') == '=' and this_field(g, g.sn(n['lhs'])) is not None
                      and g.const_value(n['rhs']) == 0]
            ids = {n['id'] for n in zeroed}
            w = path_search(g, g.entry, _exit_t, lambda x: x in ids, from_block_start=True) if ids else ['none']
            R.check(bool(ids) and w is None, R_RESET, q + '#stores-zero', g.site, '%s must store 0 to the state it resets' % q)


def _range_for_field(fn, d, inits):
    """(field q, id of the __range declaration) when local d is the loop variable of a range-based for over a member."""
    hops = 0
    cur = d
    while cur in inits and hops < 6:
        hops += 1
        init, decl = inits[cur]
        n = fn.sn(init)
        if n is None:
            return None
        if n.get('k') == 'unop' and n['op'] == '*':
            n = fn.sn(n['sub'])
        if n is not None and n.get('k') == 'call' and n.get('recv') is not None and n.get('q', '').rsplit('::', 1)[-1] in ('begin', 'cbegin'):
            n = fn.sn(n['recv'])
        if n is None:
            return None
        if n.get('k') == 'var':
            cur = n.get('d')
            continue
        f = this_field(fn, n)
        if f is not None:
            return (f, decl)
        return None
    return None


def _byte_guard_set(fn, nid, var_d):
    """Set of byte values v in 0..255 for which node nid executes, judging only the guards that mention variable var_d.
    Raises Shape if such a guard cannot be evaluated."""
    gs = []
    for (c, sense, _b) in edge_guards(fn, nid, loop_exits=True):
        n = fn.sn(c)
        if n is None:
            continue
        if n.get('k') == 'binop' and n['op'] in ('&&', '||'):
            continue   # expanded by edge_guards where the sense allows; otherwise evaluated as a whole below
        if n.get('k') == 'unop' and n['op'] == '!':
            continue
        if any(fn.nodes[x].get('k') == 'var' and fn.nodes[x].get('d') == var_d for x in fn.subtree(c)):
            gs.append((c, sense))
    # whole conditions that mention the variable but were not split (|| under true sense etc.)
    for (c, sense, _b) in edge_guards(fn, nid, loop_exits=True):
        n = fn.sn(c)
        if n is not None and n.get('k') == 'binop' and n['op'] in ('&&', '||') and \
                any(fn.nodes[x].get('k') == 'var' and fn.nodes[x].get('d') == var_d for x in fn.subtree(c)):
            if not ((n['op'] == '&&' and sense) or (n['op'] == '||' and not sense)):
                gs.append((c, sense))
    out = set()
    for v in range(256):
        def value_of(f, node, v=v):
            if node.get('k') == 'var' and node.get('d') == var_d:
                return v
            return None
        ok = True
        for (c, sense) in gs:
            r = eval_cond(fn, c, value_of)
            if r is None:
                raise Shape('guard %s cannot be evaluated' % fn.expr(c))
            if r != sense:
                ok = False
                break
        if ok:
            out.add(v)
    return out, len(gs)


def _fmt_bytes(s):
    s = sorted(s)
    if not s:
        return 'no byte value'
    runs = []
    a = b = s[0]
    for v in s[1:]:
        if v == b + 1:
            b = v
        else:
            runs.append((a, b))
            a = b = v
    runs.append((a, b))
    return ', '.join('0x%02x' % a if a == b else '0x%02x..0x%02x' % (a, b) for (a, b) in runs)


R_CODES = 'o5m-dataset-codes'
R_FRAME = 'o5m-dataset-length-framing'
O5M_CODES = {'node': 0x10, 'way': 0x11, 'relation': 0x12, 'bounding_box': 0xdb, 'timestamp': 0xdc, 'header': 0xe0, 'sync': 0xee,
             'jump': 0xef, 'reset': 0xff}


def o5m_dataset_rules(fb, R, PARSER=NS + 'O5mParser', ENUM='dataset_type', WINDOW='m_data'):
    e = fb.enum('%s::%s' % (PARSER, ENUM))
    if e is None:
        R.broken('enum %s::%s not found' % (PARSER, ENUM))
    else:
        have = {en['name']: int(en['value']) for en in e['enumerators']}
        for name, code in sorted(O5M_CODES.items()):
            R.check(have.get(name) == code, R_CODES, '%s::%s::%s' % (PARSER, ENUM, name), '%s:%s' % (e['file'], e['line']),
                    'dataset type %s is %s, the o5m description says 0x%02x' % (name, 'missing' if name not in have else '0x%02x' % have[name], code))
    fns = [f for f in fb.fns(PARSER + '::decode_data') if f.has_cfg]
    if not fns:
        R.broken('%s::decode_data not found' % PARSER)
    for fn in fns:
        # the dataset byte: a local initialised from *WINDOW++
        ds = None
        for n in fn.all_nodes():
            if n.get('k') == 'decl':
                for v in n['vars']:
                    if isinstance(v.get('init'), int):
                        for x in fn.subtree(v['init']):
                            m = fn.nodes[x]
                            if m.get('k') == 'unop' and m['op'] == '++' and this_field(fn, fn.sn(m['sub'])) == '%s::%s' % (PARSER, WINDOW):
                                ds = (v['d'], v['name'], m['id'])
        if ds is None:
            R.broken('%s: the dataset type byte (a local initialised from *%s++) was not found' % (fn.q, WINDOW))
            continue
        # ---- reset marker
        resets = [n for n in fn.all_nodes() if n.get('k') == 'call' and n.get('q') == PARSER + '::reset']
        key = '%s#reset-on-0xff' % fn.q
        if not resets:
            R.bad(R_MARK, key, fn.site, '%s never calls reset(): the reset marker 0xff is ignored and delta / string-table state is carried '
                                        'across it' % fn.q)
        for c in resets:
            try:
                vals, ng = _byte_guard_set(fn, c['id'], ds[0])
            except Shape as ex:
                R.broken('%s: %s' % (fn.q, ex))
                continue
            R.check(vals == {0xff}, R_MARK, key, fn.loc(c['id']),
                    '%s calls reset() for dataset byte(s) %s; the o5m description defines exactly 0xff as the reset marker'
                    % (fn.q, _fmt_bytes(vals)), detail={'guards': ng})
        # ---- length decoded exactly for bytes < 0xf0
        lens = []
        for n in fn.all_nodes():
            if n.get('k') == 'call' and n.get('q') == 'protozero::decode_varint' and n.get('args'):
                a0 = fn.sn(n['args'][0])
                if a0 is not None and a0.get('k') == 'unop' and a0['op'] == '&' and this_field(fn, fn.sn(a0['sub'])) == '%s::%s' % (PARSER, WINDOW):
                    lens.append(n)
        if len(lens) != 1:
            R.broken('%s: expected one decode_varint(&%s, ..) for the dataset length, found %d' % (fn.q, WINDOW, len(lens)))
            continue
        lc = lens[0]
        try:
            vals, ng = _byte_guard_set(fn, lc['id'], ds[0])
        except Shape as ex:
            R.broken('%s: %s' % (fn.q, ex))
            continue
        want = set(range(0xf0))
        R.check(vals == want, R_FRAME, '%s#length-for-bytes-below-0xf0' % fn.q, fn.loc(lc['id']),
                '%s decodes a length for dataset bytes %s; the o5m description gives every dataset below 0xf0 a length and none from 0xf0 '
                '(differs for %s)' % (fn.q, _fmt_bytes(vals), _fmt_bytes(vals ^ want)), detail={'guards': ng})
        # the variable the length is stored in
        lenvar = None
        pm = fn.parent_map()
        x = lc['id']
        hops = 0
        while x in pm and hops < 6:
            hops += 1
            p = fn.nodes[pm[x]]
            if p.get('k') in ('wrap', 'icast', 'cast'):
                x = p['id']
                continue
            if p.get('k') == 'assign' and p.get('op') == '=':
                l = fn.sn(p['lhs'])
                lenvar = l.get('d') if l is not None and l.get('k') == 'var' else None
            elif p.get('k') == 'decl':
                for v in p['vars']:
                    if isinstance(v.get('init'), int) and lc['id'] in fn.subtree(v['init']):
                        lenvar = v['d']
            break
        if lenvar is None:
            R.broken('%s: the decoded dataset length is not stored in a local' % fn.q)
            continue
        # ---- payload skipped exactly once on every path to the next dataset byte
        wq = '%s::%s' % (PARSER, WINDOW)

        def moves(n):
            if n.get('k') == 'assign' and this_field(fn, fn.sn(n['lhs'])) == wq:
                return True
            if n.get('k') == 'unop' and n['op'] in ('++', '--', '&') and this_field(fn, fn.sn(n['sub'])) == wq:
                return True
            return False

        def good_move(n):
            if n.get('k') == 'assign' and n.get('op') == '+=' and this_field(fn, fn.sn(n['lhs'])) == wq:
                r = strip_casts(fn, n['rhs'])
                return r is not None and r.get('k') == 'var' and r.get('d') == lenvar
            return False
        pos = fn.positions()
        if lc['id'] not in pos:
            R.broken('%s: length decode is not a CFG element' % fn.q)
            continue
        b0, i0 = pos[lc['id']]
        dsdecl = ds[2]
        res = count_paths(fn, b0, moves, lambda n: n['id'] == dsdecl, start_index=i0 + 1)
        msgs = []
        if ('stop', 0) in res:
            msgs.append('a path reaches the next dataset byte without advancing %s past the payload (the payload is parsed as datasets): %s'
                        % (WINDOW, describe(fn, res[('stop', 0)])))
        if ('stop', 2) in res:
            msgs.append('%s is moved more than once between the length and the next dataset byte: %s' % (WINDOW, describe(fn, res[('stop', 2)])))
        for (kind, cnt), path in res.items():
            if kind == 'stop' and cnt == 1:
                mv = [p for p in path[:-1] if not isinstance(p, tuple) and moves(fn.nodes[p])]
                if not all(good_move(fn.nodes[p]) for p in mv):
                    msgs.append('%s is advanced by something other than the decoded length: %s' % (WINDOW, describe(fn, path)))
        if not any(k == 'stop' for (k, _c) in res):
            msgs.append('the dataset loop is never re-entered after a dataset with a length')
        R.check(not msgs, R_FRAME, '%s#payload-skipped-once' % fn.q, fn.loc(lc['id']), '%s: %s' % (fn.q, '; '.join(msgs)),
                detail={'paths': sorted('%s/%d' % k for k in res)})


# ================================================================================================ clause 6: o5m reference ring

R_RCONST = 'o5m-ring-constants'
R_RADD = 'o5m-ring-add'
R_RGET = 'o5m-ring-get'
RING_ENTRIES = 15000
INT_TYPES_RING = ('unsigned int', 'int', 'unsigned long', 'long', 'unsigned short', 'short', 'unsigned long long', 'long long')
RING_MAXLEN = 250 + 2


def _mentions(fn, nid, d, depth=0):
    """Does expression nid depend on variable d, directly or through locals that only name another expression?"""
    li = codec.local_inits(fn)
    for x in fn.subtree(nid):
        m = fn.nodes[x]
        if m.get('k') != 'var':
            continue
        if m.get('d') == d:
            return True
        if depth < 5 and m.get('vk', 'local') == 'local' and m.get('d') in li and _mentions(fn, li[m['d']], d, depth + 1):
            return True
    return False


def _cmp_consts(fn, nid, d, out, depth=0):
    li = codec.local_inits(fn)
    for x in fn.subtree(nid):
        m = fn.nodes[x]
        if m.get('k') == 'binop' and m['op'] in ('<', '<=', '>', '>=', '==', '!=') and _mentions(fn, x, d):
            for side in (m['lhs'], m['rhs']):
                v = fn.const_value(side)
                if v is not None:
                    out.add(v)
        elif m.get('k') == 'var' and m.get('vk', 'local') == 'local' and m.get('d') in li and depth < 5:
            _cmp_consts(fn, li[m['d']], d, out, depth + 1)


def _guard_consts(fn, nid, d):
    """integer constants compared with variable d in the guards of node nid (named conditions looked through)."""
    out = set()
    for (c, _s, _b) in edge_guards(fn, nid, loop_exits=True):
        _cmp_consts(fn, c, d, out)
    return out


def _reached_for(fn, nid, d, v, extra=None):
    """Does node nid execute when variable d == v, judging the guards that depend on d (also through locals that name a
    condition, e.g. `const bool in_range = d != 0 && d <= N`)?  Raises Shape when such a guard cannot be evaluated."""
    from ..c02_util import _int_value
    li = codec.local_inits(fn)

    def value_of(f, node, depth=0):
        if node.get('k') == 'var' and node.get('d') == d:
            return v
        if node.get('k') == 'var' and node.get('vk', 'local') == 'local' and node.get('d') in li and depth < 5:
            init = li[node['d']]
            n2 = strip_casts(f, init)
            if n2 is not None and ((n2.get('k') == 'binop' and n2['op'] in ('<', '<=', '>', '>=', '==', '!=', '&&', '||'))
                                   or (n2.get('k') == 'unop' and n2['op'] == '!')):
                return eval_cond(f, init, value_of)
            return _int_value(f, init, value_of)
        if extra is not None:
            return extra(f, node)
        return None
    for (c, sense, _b) in edge_guards(fn, nid, loop_exits=True):
        if not _mentions(fn, c, d):
            continue
        n = fn.sn(c)
        if n is not None and n.get('k') == 'unop' and n['op'] == '!':
            continue            # expanded into its operand
        if n is not None and n.get('k') == 'binop' and ((n['op'] == '&&' and sense) or (n['op'] == '||' and not sense)):
            continue            # expanded into its operands
        r = eval_cond(fn, c, value_of)
        if r is None:
            raise Shape('guard %s cannot be evaluated' % fn.expr(c))
        if r != sense:
            return False
    return True


def _run_counter(fn, cur, size_d, size_v, c0, mul_id, copy_id):
    """Abstract execution of one call of add() over integers: the slot counter (member `cur`) and the integer locals computed
    from it (a local copy that is updated and stored back counts as the counter), for prior counter value c0 and byte count
    size_v.  Returns (counter afterwards, [slot index used by the copy destination], number of copies).  Raises Shape when the
    counter is given a value, or a branch depends on a value, that is not an integer expression over these."""
    st = {'c': c0}
    env = {}          # decl id of a local -> int | None (unknown)
    vals = {}         # executed ++ / -- nodes -> value of the expression

    def is_cur(node):
        return node is not None and this_field(fn, node) == cur

    def ival(nid):
        n = strip_casts(fn, nid)
        if n is None:
            return None
        k = n.get('k')
        if k == 'unop' and n.get('op') in ('++', '--'):
            return vals.get(n['id'])
        if is_cur(n):
            return st['c']
        if k == 'var' and n.get('vk', 'local') in ('local', 'param'):
            if n.get('d') == size_d:
                return size_v
            return env.get(n.get('d'))
        cv = fn.const_value(n['id'])
        if cv is not None:
            return cv
        if k == 'binop' and n.get('op') in ('+', '-', '*', '/', '%'):
            a, b2 = ival(n['lhs']), ival(n['rhs'])
            if a is None or b2 is None:
                return None
            if n['op'] == '+':
                return a + b2
            if n['op'] == '-':
                return a - b2
            if n['op'] == '*':
                return a * b2
            if b2 == 0:
                return None
            return a // b2 if n['op'] == '/' else a % b2
        if k == 'condop':
            c = eval_cond(fn, n['cond'], value_of)
            if c is None:
                return None
            return ival(n['then'] if c else n['else'])
        return None

    def value_of(f, node):
        k = node.get('k')
        if k == 'binop' and node.get('op') in ('<', '<=', '>', '>=', '==', '!=', '&&', '||'):
            return None
        if k == 'call' and node.get('q', '').endswith('::empty'):
            return False        # table already allocated; the other branch only allocates
        v = ival(node['id'])
        if v is not None:
            return v
        if k == 'var' and node.get('vk') == 'param' and node.get('d') != size_d:
            return 1            # non-null pointer argument (assert(string))
        return None

    def apply(op, old, v):
        if op == '=':
            return v
        if old is None or v is None:
            return None
        return {'+=': old + v, '-=': old - v, '*=': old * v}.get(op)
    slots = []
    ncopy = 0
    b = fn.entry
    steps = 0
    while steps < 400:
        steps += 1
        blk = fn.blocks[b]
        for e in blk['elems']:
            n = fn.nodes[e]
            k = n.get('k')
            if k == 'unop' and n.get('op') in ('++', '--'):
                t = fn.sn(n['sub'])
                delta = 1 if n['op'] == '++' else -1
                if is_cur(t):
                    old = st['c']
                    st['c'] = old + delta
                    vals[e] = old if n.get('postfix') else st['c']
                elif t is not None and t.get('k') == 'var' and t.get('d') in env:
                    old = env[t['d']]
                    env[t['d']] = None if old is None else old + delta
                    vals[e] = None if old is None else (old if n.get('postfix') else old + delta)
            elif k == 'decl':
                for v in n['vars']:
                    env[v['d']] = ival(v['init']) if isinstance(v.get('init'), int) else None
            elif k == 'assign':
                t = fn.sn(n['lhs'])
                if is_cur(t):
                    v = apply(n.get('op'), st['c'], ival(n['rhs']))
                    if v is None:
                        raise Shape('the counter is assigned %s, which is not an integer expression over the counter' % fn.expr(n['rhs']))
                    st['c'] = v
                elif t is not None and t.get('k') == 'var' and t.get('vk', 'local') == 'local':
                    env[t['d']] = apply(n.get('op'), env.get(t['d']), ival(n['rhs']))
            elif k == 'unop' and n.get('op') == '&':
                t = fn.sn(n['sub'])
                if is_cur(t):
                    raise Shape('the address of the counter is taken')
                if t is not None and t.get('k') == 'var' and t.get('d') in env:
                    env[t['d']] = None
            elif e == copy_id:
                ncopy += 1
            elif k == 'throw':
                raise Shape('add() throws')
            if e == mul_id:
                got = None
                for side in (n['lhs'], n['rhs']):
                    if fn.const_value(side) is None:
                        got = ival(side)
                if got is None:
                    raise Shape('slot index of the copy destination is not an integer expression over the counter')
                slots.append(int(got))
        if b == fn.exit:
            return st['c'], slots, ncopy
        succs = blk['succs']
        if 'cond' in blk and len(succs) == 2:
            r = eval_cond(fn, blk['cond'], value_of)
            if r is None:
                raise Shape('condition %s cannot be evaluated over the counter' % fn.expr(blk['cond']))
            nb = succs[0] if r else succs[1]
        elif len(succs) == 1:
            nb = succs[0]
        elif not succs:
            raise Shape('execution ends in block B%d' % b)
        else:
            raise Shape('multi-way branch in add()')
        if nb is None:
            raise Shape('pruned edge taken in block B%d' % b)
        b = nb
    raise Shape('add() does not terminate in 400 steps')


def o5m_ring_rules(fb, R, TABLE=NS + 'ReferenceTable'):
    adds = [f for f in fb.fns(TABLE + '::add') if f.has_cfg]
    gets = [f for f in fb.fns(TABLE + '::get') if f.has_cfg]
    rec = fb.record(TABLE)
    if not adds or not gets or rec is None:
        R.broken('%s::add / get not found' % TABLE)
        return
    site = '%s:%d' % (rec.file, rec.line)
    cur = None      # the slot counter member
    ES = None       # stride add() writes with
    N = None        # value the slot counter wraps at
    stored_max = None
    for fn in adds:
        key0 = fn.q
        copies = [n for n in fn.all_nodes() if n.get('k') == 'call' and n.get('q') in ('std::copy_n', 'std::copy', 'std::memcpy', 'memcpy')]
        if len(copies) != 1 or len(copies[0].get('args', [])) < 3:
            R.broken('%s: expected one copy into the table, found %d' % (fn.q, len(copies)))
            continue
        cp = copies[0]
        params = {p['d']: p['name'] for p in fn.params}
        sized = [d for d in params if _mentions(fn, cp['args'][1], d)]
        if len(sized) != 1:
            R.broken('%s: the byte count of the copy is not a parameter' % fn.q)
            continue
        sd = sized[0]
        # ---- destination slot = <counter value> * stride; the counter is the integer member add() updates (a local copy that is
        #      updated and stored back is followed by the counter evaluation below)
        stride = None
        for x in fn.subtree(cp['args'][2]):
            m = fn.nodes[x]
            if m.get('k') == 'binop' and m['op'] == '*':
                cs = [fn.const_value(sd_) for sd_ in (m['lhs'], m['rhs'])]
                if (cs[0] is None) != (cs[1] is None):
                    stride = cs[0] if cs[0] is not None else cs[1]
        written = {}
        for n in fn.all_nodes():
            t = None
            if n.get('k') == 'assign':
                t = fn.sn(n['lhs'])
            elif n.get('k') == 'unop' and n.get('op') in ('++', '--'):
                t = fn.sn(n['sub'])
            f = this_field(fn, t) if t is not None else None
            if f is not None and t.get('t', '').replace('const ', '') in INT_TYPES_RING:
                written[f] = t['name']
        if stride is None or len(written) != 1:
            R.broken('%s: destination of the table copy is not &table[index * constant], or add() does not update exactly one integer member '
                     '(%s)' % (fn.q, sorted(written.values())))
            continue
        dest = (next(iter(written)), stride, next(iter(written.values())))
        cur, ES = dest[0], dest[1]
        # ---- boundary: stored exactly for size <= 250 + 2 (every ordering of size against the constants it is compared with)
        reps = {0, 1}
        for c in _guard_consts(fn, cp['id'], sd) | {RING_MAXLEN, ES}:
            reps |= {c - 1, c, c + 1}
        try:
            verdicts = {v: _reached_for(fn, cp['id'], sd, v) for v in sorted(reps) if v >= 0}
        except Shape as ex:
            R.broken('%s: %s' % (fn.q, ex))
            continue
        wrong = [v for v, st in sorted(verdicts.items()) if st != (v <= RING_MAXLEN)]
        stored_max = max([v for v, st in verdicts.items() if st] or [0])
        R.check(not wrong, R_RADD, key0 + '#stores-up-to-max_length', fn.loc(cp['id']),
                '%s %s a string pair of %s bytes; the format enters exactly the pairs of up to 250 characters (%d bytes with both NULs) into '
                'the table, so from such a pair on every back-reference of the file is off by one entry'
                % (fn.q, 'drops' if wrong and wrong[0] <= RING_MAXLEN else 'stores', wrong[0] if wrong else '', RING_MAXLEN),
                detail={'stored_for_size': {str(k): v for k, v in sorted(verdicts.items())}})
        # ---- table extent: N slots of ES bytes
        tbl = None
        tsite = site
        for n in fn.all_nodes():
            if n.get('k') == 'call' and n.get('q') in ('std::basic_string::resize', 'std::vector::resize') and n.get('args'):
                tbl = fn.const_value(n['args'][0])
                tsite = fn.loc(n['id'])
        if tbl is None or ES <= 0:
            R.broken('%s: the table is not allocated with a constant size in add()' % fn.q)
            continue
        R.check(tbl % ES == 0, R_RCONST, TABLE + '#table-size', tsite,
                'the table is sized %d bytes, not a multiple of the %d-byte stride its entries are written with' % (tbl, ES))
        N = tbl // ES
        R.check(N == RING_ENTRIES, R_RCONST, TABLE + '#number-of-entries', tsite,
                'the o5m string table holds %d entries in this reader; the format fixes it at %d, so a reference older than %d '
                'resolves to a different string than the writer meant' % (N, RING_ENTRIES, min(N, RING_ENTRIES)))
        R.check(ES >= stored_max, R_RCONST, TABLE + '#entry-size', site,
                'entries are %d bytes apart but strings of up to %d bytes are stored: neighbouring entries overlap' % (ES, stored_max))
        # ---- counter invariant, decided for EVERY prior counter value c in [0, N-1] by abstract execution of add() over the counter
        #      alone (the only operations on it are ++ / = const / comparisons with constants; anything else => analysis-broken):
        #      storing path: the slot written is c (so the write [c*ES, c*ES+size) stays inside the N*ES table) and the counter
        #      afterwards is (c + 1) mod N, hence again in [0, N-1]; non-storing path: no write, counter unchanged.
        if N > 2000000:
            R.broken('%s: table of %d entries is too large for the exhaustive counter evaluation' % (fn.q, N))
            continue
        mul_id = None
        for x in fn.subtree(cp['args'][2]):
            m = fn.nodes[x]
            if m.get('k') == 'binop' and m['op'] == '*':
                mul_id = x
        store_size = stored_max if stored_max > 0 else 1
        skip_size = next((v for v, st in sorted(verdicts.items()) if not st), None)
        first_bad = {}
        try:
            for c0 in range(N):
                c1, slots, ncopy = _run_counter(fn, cur, sd, store_size, c0, mul_id, cp['id'])
                if ncopy != 1 or len(slots) != 1:
                    first_bad.setdefault('copy', 'for counter %d the string is copied %d times' % (c0, ncopy))
                else:
                    if not (0 <= slots[0] < N):
                        first_bad.setdefault('slot', 'with the counter at %d the string is copied to slot %d = byte offset %d of a %d-byte table '
                                                     '(%d slots): the write runs past the end of the table' % (c0, slots[0], slots[0] * ES, tbl, N))
                    elif slots[0] != c0:
                        first_bad.setdefault('slotc', 'with the counter at %d the string is written to slot %d; get(1) addresses the slot the '
                                                      'counter pointed to before the call' % (c0, slots[0]))
                if not (0 <= c1 < N):
                    first_bad.setdefault('range', 'a call with the counter at %d leaves it at %d, outside [0, %d]: the next string is written '
                                                  'to byte offset %d of the %d-byte table' % (c0, c1, N - 1, c1 * ES, tbl))
                elif c1 != (c0 + 1) % N:
                    first_bad.setdefault('step', 'a call with the counter at %d leaves it at %d instead of %d (advance by one, wrap at %d)'
                                         % (c0, c1, (c0 + 1) % N, N))
            if skip_size is not None:
                for c0 in (0, 1, N // 2, N - 2, N - 1):
                    if 0 <= c0 < N:
                        c1, slots, ncopy = _run_counter(fn, cur, sd, skip_size, c0, mul_id, cp['id'])
                        if ncopy or c1 != c0:
                            first_bad.setdefault('skip', 'a string too long for the table (size %d) still moves the counter (%d -> %d) or is '
                                                         'copied' % (skip_size, c0, c1))
        except Shape as ex:
            R.broken('%s: counter evaluation: %s' % (fn.q, ex))
            continue
        R.check(not first_bad, R_RADD, key0 + '#slot-advance', fn.loc(cp['id']),
                '%s: %s' % (fn.q, '; '.join(first_bad[k] for k in sorted(first_bad))),
                detail={'counter_values_evaluated': N, 'slots': N, 'stride': ES})
    if cur is None or ES is None or N is None:
        return

    for fn in gets:
        params = {p['d']: p['name'] for p in fn.params}
        if len(params) != 1:
            R.broken('%s: expected one parameter' % fn.q)
            continue
        idxd = next(iter(params))
        rets = [n for n in fn.all_nodes() if n.get('k') == 'return' and 'sub' in n]
        if not any(n.get('k') == 'throw' for n in fn.all_nodes()) or len(rets) != 1:
            R.broken('%s: expected a throw and one return' % fn.q)
            continue
        ret = rets[0]
        # ---- range test: the lookup is reached exactly for 1..N (table in use)
        reps = {0, 1, 2}
        for c in _guard_consts(fn, ret['id'], idxd) | {RING_ENTRIES, N}:
            reps |= {c - 1, c, c + 1}

        def in_use(f, node):
            if node.get('k') == 'call' and node.get('q', '').endswith('::empty'):
                return False
            return None
        try:
            wrong = [v for v in sorted(reps) if v >= 0 and _reached_for(fn, ret['id'], idxd, v, in_use) != (1 <= v <= RING_ENTRIES)]
        except Shape as ex:
            R.broken('%s: %s' % (fn.q, ex))
            continue
        R.check(not wrong, R_RGET, fn.q + '#index-range', fn.site,
                '%s %s reference %s; valid references are 1..%d (1 = most recent string)'
                % (fn.q, 'rejects' if wrong and 1 <= wrong[0] <= RING_ENTRIES else 'accepts', wrong[0] if wrong else '', RING_ENTRIES))
        # ---- slot arithmetic
        try:
            mul = None
            for x in fn.subtree(ret['sub']):
                m = fn.nodes[x]
                if m.get('k') == 'binop' and m['op'] == '*':
                    mul = m
            if mul is None:
                raise Shape('returned address is not &table[slot * constant]')
            ca, cb = fn.const_value(mul['lhs']), fn.const_value(mul['rhs'])
            if cb is not None and ca is None:
                slot, stride = resolve(fn, mul['lhs']), cb
            elif ca is not None and cb is None:
                slot, stride = resolve(fn, mul['rhs']), ca
            else:
                raise Shape('returned address is not &table[slot * constant]')
            if slot is None or slot.get('k') != 'binop' or slot['op'] != '%':
                raise Shape('slot is not reduced with %')
            mod = fn.const_value(slot['rhs'])
            terms = linear_terms(fn, slot['lhs'])
            cur_terms = [sg for (sg, t) in terms if this_field(fn, t) is not None]
            cur_fields = {this_field(fn, t) for (sg, t) in terms if this_field(fn, t) is not None}
            idx_terms = [sg for (sg, t) in terms if t.get('k') == 'var' and t.get('d') == idxd]
            const_sum = 0
            for (sg, t) in terms:
                if this_field(fn, t) is not None or (t.get('k') == 'var' and t.get('d') == idxd):
                    continue
                cv = fn.const_value(t['id'])
                if cv is None:
                    raise Shape('slot expression has a term that is neither the counter, the index nor a constant: %s' % fn.expr(t['id']))
                const_sum += sg * cv
        except Shape as ex:
            R.broken('%s: %s' % (fn.q, ex))
            continue
        msgs = []
        if mod != N:
            msgs.append('the slot is reduced modulo %s, add() wraps at %d' % (mod, N))
        if cur_terms != [1] or cur_fields != {cur}:
            msgs.append('the slot must be counted from the member add() advances (+1 x current entry)')
        if idx_terms != [-1]:
            msgs.append('the reference must be subtracted exactly once (reference 1 = the string stored last)')
        if mod and (const_sum % mod != 0 or const_sum < mod):
            msgs.append('the constant offset %d is not a positive multiple of %d: reference k no longer addresses the k-th most recent '
                        'string (or the unsigned difference underflows)' % (const_sum, mod))
        if stride != ES:
            msgs.append('entries are read with stride %d but written with stride %d' % (stride, ES))
        R.check(not msgs, R_RGET, fn.q + '#slot-arithmetic', fn.loc(ret['id']), '%s: %s' % (fn.q, '; '.join(msgs)),
                detail={'modulus': mod, 'constant': const_sum, 'stride': stride})


# ================================================================================================ spec witness: field numbers

R_NUM = 'pbf-field-numbers-are-spec'
# fileformat.proto / osmformat.proto of the OSM-binary project, transcribed once: message -> field -> (number, label, type).
# label 'packed' = `repeated ... [packed = true]`.  This table is the oracle (the published format), not the code.
PROTO = {
    'FileFormat::Blob': {'raw': (1, 'optional', 'bytes'), 'raw_size': (2, 'optional', 'int32'), 'zlib_data': (3, 'optional', 'bytes'),
                         'lzma_data': (4, 'optional', 'bytes'), 'lz4_data': (6, 'optional', 'bytes'), 'zstd_data': (7, 'optional', 'bytes')},
    'FileFormat::BlobHeader': {'type': (1, 'required', 'string'), 'indexdata': (2, 'optional', 'bytes'), 'datasize': (3, 'required', 'int32')},
    'OSMFormat::HeaderBlock': {'bbox': (1, 'optional', 'HeaderBBox'), 'required_features': (4, 'repeated', 'string'),
                               'optional_features': (5, 'repeated', 'string'), 'writingprogram': (16, 'optional', 'string'),
                               'source': (17, 'optional', 'string'), 'osmosis_replication_timestamp': (32, 'optional', 'int64'),
                               'osmosis_replication_sequence_number': (33, 'optional', 'int64'),
                               'osmosis_replication_base_url': (34, 'optional', 'string')},
    'OSMFormat::HeaderBBox': {'left': (1, 'required', 'sint64'), 'right': (2, 'required', 'sint64'), 'top': (3, 'required', 'sint64'),
                              'bottom': (4, 'required', 'sint64')},
    'OSMFormat::PrimitiveBlock': {'stringtable': (1, 'required', 'StringTable'), 'primitivegroup': (2, 'repeated', 'PrimitiveGroup'),
                                  'granularity': (17, 'optional', 'int32'), 'date_granularity': (18, 'optional', 'int32'),
                                  'lat_offset': (19, 'optional', 'int64'), 'lon_offset': (20, 'optional', 'int64')},
    'OSMFormat::PrimitiveGroup': {'nodes': (1, 'repeated', 'Node'), 'dense': (2, 'optional', 'DenseNodes'), 'ways': (3, 'repeated', 'Way'),
                                  'relations': (4, 'repeated', 'Relation'), 'changesets': (5, 'repeated', 'ChangeSet')},
    'OSMFormat::StringTable': {'s': (1, 'repeated', 'bytes')},
    'OSMFormat::Info': {'version': (1, 'optional', 'int32'), 'timestamp': (2, 'optional', 'int64'), 'changeset': (3, 'optional', 'int64'),
                        'uid': (4, 'optional', 'int32'), 'user_sid': (5, 'optional', 'uint32'), 'visible': (6, 'optional', 'bool')},
    'OSMFormat::DenseInfo': {'version': (1, 'packed', 'int32'), 'timestamp': (2, 'packed', 'sint64'), 'changeset': (3, 'packed', 'sint64'),
                             'uid': (4, 'packed', 'sint32'), 'user_sid': (5, 'packed', 'sint32'), 'visible': (6, 'packed', 'bool')},
    'OSMFormat::Node': {'id': (1, 'required', 'sint64'), 'keys': (2, 'packed', 'uint32'), 'vals': (3, 'packed', 'uint32'),
                        'info': (4, 'optional', 'Info'), 'lat': (8, 'required', 'sint64'), 'lon': (9, 'required', 'sint64')},
    'OSMFormat::DenseNodes': {'id': (1, 'packed', 'sint64'), 'denseinfo': (5, 'optional', 'DenseInfo'), 'lat': (8, 'packed', 'sint64'),
                              'lon': (9, 'packed', 'sint64'), 'keys_vals': (10, 'packed', 'int32')},
    'OSMFormat::Way': {'id': (1, 'required', 'int64'), 'keys': (2, 'packed', 'uint32'), 'vals': (3, 'packed', 'uint32'),
                       'info': (4, 'optional', 'Info'), 'refs': (8, 'packed', 'sint64'), 'lat': (9, 'packed', 'sint64'),
                       'lon': (10, 'packed', 'sint64')},
    'OSMFormat::Relation': {'id': (1, 'required', 'int64'), 'keys': (2, 'packed', 'uint32'), 'vals': (3, 'packed', 'uint32'),
                            'info': (4, 'optional', 'Info'), 'roles_sid': (8, 'packed', 'int32'), 'memids': (9, 'packed', 'sint64'),
                            'types': (10, 'packed', 'MemberType')},
}
NOT_FIELDS = {'OSMFormat::PrimitiveGroup::unknown'}


def pbf_field_number_rules(fb, R, ns=NS, table=None):
    table = PROTO if table is None else table
    for msg, fields in sorted(table.items()):
        e = fb.enum(ns + msg)
        if e is None:
            R.broken('enum %s%s (message %s of the .proto files) not found' % (ns, msg, msg))
            continue
        site = '%s:%s' % (e.get('file', '?'), e.get('line', '?'))
        have = {}
        for en in e['enumerators']:
            sp = codec.pbf_spec(fb, ns + msg, int(en['value']))
            name = en['name']
            parts = name.split('_')
            if '%s::%s' % (msg, name) in NOT_FIELDS:
                continue
            if len(parts) < 3 or parts[0] not in ('required', 'optional', 'repeated', 'packed'):
                R.bad(R_NUM, '%s::%s' % (msg, name), '%s:%s' % (e.get('file', '?'), en.get('l', e.get('line', '?'))),
                      'enumerator %s::%s does not transcribe a proto declaration (<label>_<type>_<field>)' % (msg, name))
                continue
            have['_'.join(parts[2:])] = (int(en['value']), parts[0], parts[1], en.get('l'))
            _ = sp
        for fname, (num, label, ptype) in sorted(fields.items()):
            key = '%s::%s' % (msg, fname)
            if fname not in have:
                if any(k.endswith('_' + fname) and k.startswith(msg) for k in NOT_DECODED):
                    continue
                R.bad(R_NUM, key, site, 'message %s has no enumerator for field `%s %s %s = %d` of the format' % (msg, label, ptype, fname, num))
                continue
            v, l, t, line = have[fname]
            msgs = []
            if v != num:
                other = [f for f, (n2, _l, _t) in fields.items() if n2 == v]
                msgs.append('field %s has number %d in the published .proto, the enumerator says %d%s: files written by any other encoder are '
                            'decoded with this field %s' % (fname, num, v, ' (which is field `%s`)' % other[0] if other else '',
                                                            'taken for `%s`' % other[0] if other else 'ignored'))
            if l != label or t != ptype:
                msgs.append('the format declares `%s %s %s`, the enumerator name says `%s %s`' % (label, ptype, fname, l, t))
            R.check(not msgs, R_NUM, key, '%s:%s' % (e.get('file', '?'), line or e.get('line', '?')), '%s: %s' % (key, '; '.join(msgs)))
        for fname in sorted(set(have) - set(fields)):
            R.bad(R_NUM, '%s::%s' % (msg, fname), site, 'enumerator for `%s` (= %d) in %s: the published message has no such field'
                  % (fname, have[fname][0], msg))


# ================================================================================================ o5m: short final dataset

R_PREF = 'o5m-prefetch-not-required'


def o5m_prefetch_rules(fb, R, PARSER=NS + 'O5mParser', ENSURE='ensure_bytes_available', WINDOW='m_data'):
    """The format guarantees only the dataset type byte, then a varint length, then `length` bytes.  A refill request for a constant
    number of bytes > 1 (the varint prefetch) may therefore only be best effort: its result must not decide anything (no throw, no
    loop exit), or a valid file whose last dataset is shorter than that constant is rejected / truncated."""
    fns = [f for f in fb.fns(PARSER + '::decode_data') if f.has_cfg]
    if not fns:
        R.broken('%s::decode_data not found' % PARSER)
    for fn in fns:
        # the local holding the decoded dataset length
        lenvars = set()
        for n in fn.all_nodes():
            if n.get('k') == 'call' and n.get('q') == 'protozero::decode_varint':
                pm = fn.parent_map()
                x = n['id']
                hops = 0
                while x in pm and hops < 6:
                    hops += 1
                    p = fn.nodes[pm[x]]
                    if p.get('k') in ('wrap', 'icast', 'cast'):
                        x = p['id']
                        continue
                    if p.get('k') == 'assign':
                        l = fn.sn(p['lhs'])
                        if l is not None and l.get('k') == 'var':
                            lenvars.add(l.get('d'))
                    elif p.get('k') == 'decl':
                        for v in p['vars']:
                            if isinstance(v.get('init'), int) and n['id'] in fn.subtree(v['init']):
                                lenvars.add(v['d'])
                    break
        conds = {}
        for b in fn.blocks.values():
            if 'cond' in b:
                for x in fn.subtree(b['cond']):
                    conds.setdefault(x, b)
        pm = fn.parent_map()
        calls = [n for n in fn.all_nodes() if n.get('k') == 'call' and n.get('q') == '%s::%s' % (PARSER, ENSURE) and n.get('args')]
        if not calls:
            R.broken('%s: no call of %s' % (fn.q, ENSURE))
        for c in calls:
            a = strip_casts(fn, c['args'][0])
            k = fn.const_value(c['args'][0])
            if k is not None:
                what = str(k)
            elif a is not None and a.get('k') == 'var' and a.get('d') in lenvars:
                what = 'length'
            else:
                R.broken('%s: %s(%s): argument is neither a constant nor the decoded dataset length' % (fn.q, ENSURE, fn.expr(c['args'][0])))
                continue
            # is the result used?
            used = c['id'] in conds
            x = c['id']
            hops = 0
            while not used and x in pm and hops < 6:
                hops += 1
                p = fn.nodes[pm[x]]
                if p.get('k') in ('wrap', 'icast', 'cast'):
                    x = p['id']
                    continue
                if p.get('k') == 'cast' and p.get('toC') == 'void':
                    break
                used = p.get('k') in ('assign', 'decl', 'return', 'unop', 'binop', 'condop', 'call', 'construct')
                break
            key = '%s#refill(%s)' % (fn.q, what)
            bad = used and k is not None and k > 1
            R.check(not bad, R_PREF, key, fn.loc(c['id']),
                    '%s makes %s(%s) a hard requirement (its result decides a throw / the loop): after the dataset type byte the format '
                    'guarantees only a varint length and then that many bytes, so a valid file whose last dataset is shorter than %s bytes '
                    '(e.g. a 3-byte final dataset) is rejected or dropped; a prefetch of a constant > 1 may only be best effort'
                    % (fn.q, ENSURE, what, what), detail={'result_used': used})


# ================================================================================================ guard tests what is consumed

R_RANGE = 'pbf-range-guard-tests-consumed-range'


def _range_var(fn, recv):
    r = fn.root_var(recv) if recv is not None else None
    return r if r is not None and r[0] == 'var' else None


def pbf_range_guard_rules(fb, R, RANGE=codec.VARINT_RANGE):
    """A value taken from a packed range X (`X.next_<k>()`) under emptiness guards must be under the guard of X itself."""
    n_inst = 0
    seen = set()
    for fn in fb.functions:
        if not fn.has_cfg:
            continue
        for c in fn.all_nodes():
            if c.get('k') != 'call' or c.get('rcls') != RANGE or not c.get('q', '').rsplit('::', 1)[-1].startswith('next_'):
                continue
            x = _range_var(fn, c.get('recv'))
            if x is None:
                continue
            nonempty = {}
            for (g, sense, _b) in edge_guards(fn, c['id']):
                n = fn.sn(g)
                if n is not None and n.get('k') == 'call' and n.get('q') == RANGE + '::empty' and not sense:
                    y = _range_var(fn, n.get('recv'))
                    if y is not None:
                        nonempty[y[1]] = y[2]
            if not nonempty:
                continue    # consumed without any emptiness guard: running dry raises end_of_buffer, not a silent mix-up
            key = '%s#%s.next' % (fn.q, x[2])
            if (fn.pat, c.get('o')) in seen:
                continue
            seen.add((fn.pat, c.get('o')))
            n_inst += 1
            R.check(x[1] in nonempty, R_RANGE, key, fn.loc(c['id']),
                    '%s takes a value from `%s` under the guard that %s %s not empty, but `%s` itself is not tested: when the file carries '
                    '%s without `%s` the read runs past the end of the field (end_of_buffer), and when it carries `%s` without %s the '
                    'values are never decoded' % (fn.q, x[2], ' / '.join('`%s`' % v for v in sorted(nonempty.values())),
                                                  'are' if len(nonempty) > 1 else 'is', x[2],
                                                  ' / '.join(sorted(nonempty.values())), x[2], x[2], ' / '.join(sorted(nonempty.values()))),
                    detail={'guarded_non_empty': sorted(nonempty.values())})
    if n_inst == 0:
        R.broken('no guarded varint_range::next_*() call found')


# ================================================================================================ per-iteration state is fresh

R_FRESH = 'loop-state-fresh-per-iteration'
SINK_BASES = ('osmium::builder::Builder',)


def _is_sink_class(fb, rcls):
    if rcls in SINK_BASES:
        return True
    rec = fb.record(rcls) if rcls else None
    return rec is not None and any(b in rec.allbases for b in SINK_BASES)


def _direct_var(fn, nid):
    """The local / parameter an argument expression names directly (through wrappers, casts and copy construction), else None."""
    x = nid
    hops = 0
    while x is not None and x in fn.nodes and hops < 12:
        hops += 1
        n = fn.nodes[x]
        k = n.get('k')
        if k in ('wrap', 'icast', 'cast') and 'sub' in n:
            x = n['sub']
        elif k == 'construct' and len(n.get('args', [])) == 1 and (n.get('elidable') or n.get('copymove')):
            x = n['args'][0]
        elif k == 'var' and n.get('vk', 'local') in ('local', 'param'):
            return n
        else:
            return None
    return None


def _writes_of(fb, fn, d):
    """ids of CFG elements that may (re)define local d: declaration, assignment, ++/--, address taken, non-const member call,
    passed to a non-const reference / pointer parameter (unknown callee => counted as a write: prefer a miss to a false alarm)."""
    out = set()
    for n in fn.all_nodes():
        k = n.get('k')
        if k == 'decl':
            if any(v['d'] == d for v in n['vars']):
                out.add(n['id'])
        elif k == 'assign':
            r = fn.root_var(n['lhs'])
            if r is not None and r[0] == 'var' and r[1] == d:
                out.add(n['id'])
        elif k == 'unop' and n.get('op') in ('++', '--', '&'):
            r = fn.root_var(n['sub'])
            if r is not None and r[0] == 'var' and r[1] == d:
                out.add(n['id'])
        elif k in ('call', 'construct'):
            if k == 'call' and n.get('recv') is not None:
                r = fn.root_var(n['recv'])
                if r is not None and r[0] == 'var' and r[1] == d:
                    callee = fb.by_usr.get(n.get('u'), [])
                    if not (callee and callee[0].const):
                        out.add(n['id'])
            callee = fb.by_usr.get(n.get('u'), []) if n.get('u') else []
            for i, a in enumerate(n.get('args', [])):
                v = _direct_var(fn, a) if a is not None else None
                if v is None or v.get('d') != d:
                    continue
                if callee and i < len(callee[0].params):
                    t = callee[0].params[i]['tC']
                    if (t.endswith('&') or t.endswith('*')) and not t.startswith('const '):
                        out.add(n['id'])
                elif not callee:
                    # callee body unknown: by-value / const-ref cannot be told apart from the facts of the call alone
                    if not _is_sink_class(fb, n.get('rcls')):
                        out.add(n['id'])
    return out


def loop_state_rules(fb, R, files=('/io/detail/opl_parser_functions.hpp', '/io/detail/o5m_input_format.hpp', '/io/detail/pbf_decoder.hpp',
                                   '/io/detail/xml_input_format.hpp')):
    """A value handed to a builder every iteration must have been (re)defined in that iteration: no path from one execution of the
    builder call to its next execution that avoids every definition of the variable, when the loop does redefine it somewhere."""
    n_inst = 0
    seen = set()
    for fn in fb.functions:
        if not fn.has_cfg or not fn.loops or not any(fn.file.endswith(f) for f in files):
            continue
        wcache = {}
        for c in fn.all_nodes():
            if c.get('k') != 'call' or not c.get('args') or not _is_sink_class(fb, c.get('rcls')):
                continue
            enclosing = [l for l in fn.loops if fn.in_range(c['id'], l['b'], l['e'])]
            if not enclosing:
                continue
            lo = min(l['b'] for l in enclosing)
            hi = max(l['e'] for l in enclosing)
            for a in c['args']:
                v = _direct_var(fn, a) if a is not None else None
                if v is None:
                    continue
                d = v['d']
                if d not in wcache:
                    wcache[d] = _writes_of(fb, fn, d)
                w_loop = {w for w in wcache[d] if fn.in_range(w, lo, hi) and w != c['id']}
                if not w_loop:
                    continue    # not redefined inside the loop: loop-invariant input
                key = '%s#%s(%s)' % (fn.q, c['q'].rsplit('::', 1)[-1], v['name'])
                if (fn.pat, c.get('o'), d) in seen:
                    continue
                seen.add((fn.pat, c.get('o'), d))
                n_inst += 1
                cid = c['id']
                w = path_search(fn, cid, lambda e: e == cid, lambda e: e in w_loop)
                R.check(w is None, R_FRESH, key, fn.loc(cid),
                        '%s: `%s` is handed to %s on every iteration but is only conditionally (re)defined inside the loop: on the path %s the '
                        'value of the previous iteration is used again (e.g. an element without the optional part inherits it from its '
                        'predecessor); declare it inside the loop body or reset it at the top of each iteration'
                        % (fn.q, v['name'], c['q'].rsplit('::', 1)[-1], describe_path(fn, [p for p in (w or []) if not isinstance(p, tuple)][:6])),
                        detail={'definitions_in_loop': len(w_loop)})
    if n_inst == 0:
        R.broken('no builder call fed from a loop-defined local found')


# ================================================================================================ XML attribute order

R_XATTR = 'xml-attribute-branch-own-field'


def _call_comp(g, n):
    lits = []
    for a in n.get('args', []):
        m = g.sn(a) if a is not None else None
        hops = 0
        while m is not None and m.get('k') == 'construct' and m.get('args') and hops < 3:
            hops += 1           # "literal" converted to std::string
            m = g.sn(m['args'][0])
        if m is not None and m.get('k') == 'lit' and 'str' in m:
            lits.append('"%s"' % m['str'])
        elif a is not None and g.const_value(a) is not None:
            lits.append(str(g.const_value(a)))
        else:
            lits.append('_')
    return '%s(%s)' % (n['q'].rsplit('::', 1)[-1] if 'q' in n else n.get('name', '?'), ','.join(lits))


def _chain(g, nid):
    """(root, path) of an lvalue / receiver expression: root = ('var', decl, name) for a captured local, ('field', q, name) for a
    member of the enclosing object, ('this',) for the object itself, None for anything local to the dispatcher; path = accessors
    applied to the root, outermost last."""
    comps = []
    x = nid
    hops = 0
    while x is not None and x in g.nodes and hops < 40:
        hops += 1
        n = g.nodes[x]
        k = n.get('k')
        if k in ('wrap', 'icast', 'cast') and 'sub' in n:
            x = n['sub']
        elif k == 'construct' and n.get('elidable') and len(n.get('args', [])) == 1:
            x = n['args'][0]
        elif k == 'call' and n.get('recv') is not None:
            comps.append(('op' + n['op']) if n.get('op') else _call_comp(g, n))
            x = n['recv']
        elif k == 'member' and n.get('field'):
            b = g.sn(n['base'])
            if b is not None and b.get('k') == 'this':
                return ('field', n['q'], n['name']), tuple(reversed(comps))
            comps.append('.' + n['name'])
            x = n['base']
        elif k == 'unop' and n.get('op') in ('*', '&'):
            comps.append(n['op'])
            x = n['sub']
        elif k == 'index':
            comps.append('[]')
            x = n['base']
        elif k == 'var':
            if n.get('captured'):
                return ('var', n.get('d'), n['name']), tuple(reversed(comps))
            return None, ()
        elif k == 'this':
            return ('this',), tuple(reversed(comps))
        else:
            return None, ()
    return None, ()


def _attr_guards(g, nid, name_d):
    """(frozenset of (condition text, sense), label) for the tests on the attribute name that node nid runs under."""
    out = set()
    labels = []
    for (c, sense, _b) in edge_guards(g, nid, loop_exits=True):
        if not any(g.nodes[x].get('k') == 'var' and g.nodes[x].get('d') == name_d for x in g.subtree(c)):
            continue
        n = g.sn(c)
        if n is not None and n.get('k') == 'unop' and n['op'] == '!':
            continue
        if n is not None and n.get('k') == 'binop' and ((n['op'] == '&&' and sense) or (n['op'] == '||' and not sense)):
            continue
        out.add((g.expr(c), sense))
        matched = (n is not None and n.get('k') == 'call' and not sense) or \
                  (n is not None and n.get('k') == 'binop' and n['op'] == '==' and sense)
        if matched:
            for x in g.subtree(c):
                m = g.nodes[x]
                if m.get('k') == 'lit' and 'str' in m:
                    labels.append(m['str'])
                elif m.get('k') == 'lit' and m.get('char') and m.get('cv') not in (None, '0'):
                    try:
                        labels.append(chr(int(m['cv'])))
                    except (ValueError, TypeError):
                        pass
    return frozenset(out), ('"%s"' % ''.join(labels[-1:]) if labels else ('any other attribute' if out else 'every attribute'))


def _dispatch_writes(fb, g, name_d):
    """[(root, path, node id, guard set, label, kind)] for every update of enclosing state in dispatcher body g."""
    pm = g.parent_map()
    writes = []
    reads_as_arg = []
    for n in g.all_nodes():
        k = n.get('k')
        tgt = None
        comp = None
        if k == 'assign':
            tgt = n['lhs']
        elif k == 'unop' and n.get('op') in ('++', '--'):
            tgt = n['sub']
        elif k == 'call' and n.get('recv') is not None and n.get('op') in ('=', '+=', '-=', '|=', '&=', '++', '--'):
            tgt = n['recv']
        elif k == 'call' and n.get('recv') is not None and not n.get('op'):
            # outermost call of a chain only
            x = n['id']
            inner = False
            hops = 0
            while x in pm and hops < 6:
                hops += 1
                p = g.nodes[pm[x]]
                if p.get('k') in ('wrap', 'icast'):
                    x = p['id']
                    continue
                if (p.get('k') == 'call' and p.get('recv') is not None and g.strip(p['recv']) == n['id']) or \
                        (p.get('k') == 'member' and g.strip(p.get('base')) == n['id']):
                    inner = True
                break
            if inner:
                continue
            callee = [f for f in fb.by_usr.get(n.get('u'), [])]
            if callee and callee[0].const:
                continue
            tgt = n['recv']
            comp = _call_comp(g, n)
        if k == 'call':
            for a in n.get('args', []):
                if a is None:
                    continue
                r, pth = _chain(g, a)
                if r is not None and r[0] == 'var':
                    reads_as_arg.append((r, n['id']))
        if tgt is None:
            continue
        root, path = _chain(g, tgt)
        if root is None:
            continue
        if comp is not None:
            path = path + (comp,)
        gs, label = _attr_guards(g, n['id'], name_d)
        writes.append((root, path, n['id'], gs, label))
    return writes, reads_as_arg


def _fmt_path(root, path):
    base = root[2] if len(root) > 2 else 'this'
    txt = base
    for c in path:
        txt += c if c.startswith('.') or c.startswith('[') else ('.' + c if not c.startswith('op') and c not in ('*', '&') else c)
    return txt


def xml_attribute_rules(fb, R, PARSER=NS + 'XMLParser', CHECK='check_attributes', SETATTR=('osmium::OSMObject::set_attribute', 'osmium::Changeset::set_attribute')):
    dispatchers = []   # (key, Fn body, name param decl, outer Fn or None, call node id, captured decls)
    seen = set()
    for fn in fb.functions:
        if not fn.has_cfg or fn.is_lambda:
            continue
        for c in fn.all_nodes():
            if c.get('k') != 'call' or c.get('q') != '%s::%s' % (PARSER, CHECK):
                continue
            lam = None
            for a in c.get('args', []):
                for x in fn.subtree(a):
                    if fn.nodes[x].get('k') == 'lambda':
                        lam = fn.nodes[x]
            g = fb.lambda_fn(fn, lam) if lam is not None else None
            if g is None or not g.has_cfg or len(g.params) != 2:
                R.broken('%s: the per-attribute callback passed to %s at %s is not a two-parameter lambda' % (fn.q, CHECK, fn.loc(c['id'])))
                continue
            caps = [cp.get('name', 'this') for cp in lam.get('captures', [])] or ['this']
            key = '%s#attributes->[%s]' % (fn.q, ','.join(caps))
            if (fn.pat, key) in seen:
                continue
            seen.add((fn.pat, key))
            dispatchers.append((key, g, g.params[0]['d'], fn, c['id'], {cp.get('d') for cp in lam.get('captures', []) if cp.get('byref')}))
    for q in SETATTR:
        for g in fb.fns(q):
            if g.has_cfg and len(g.params) == 2 and (g.pat, q) not in seen:
                seen.add((g.pat, q))
                dispatchers.append((q + '#attributes', g, g.params[0]['d'], None, None, set()))
    if not dispatchers:
        R.broken('no per-attribute dispatcher (%s lambda / set_attribute) found' % CHECK)
        return
    for (key, g, name_d, outer, call_id, capd) in dispatchers:
        writes, arg_reads = _dispatch_writes(fb, g, name_d)
        msgs = []
        for i, (ra, pa, na, ga, la) in enumerate(writes):
            for j, (rb, pb, nb, gb, lb) in enumerate(writes):
                if i == j or ra != rb or ga == gb or na == nb:
                    continue
                if len(pa) <= len(pb) and pb[:len(pa)] == pa:
                    if len(pa) == len(pb) and i > j:
                        continue   # symmetric pair reported once
                    what = _fmt_path(ra, pa)
                    if len(pa) < len(pb):
                        msgs.append('the branch for %s assigns / re-creates the whole of `%s` (line %s) although the branch for %s stores its value '
                                    'inside it (`%s`): what %s parsed is thrown away when %s comes later in the element, so the result depends '
                                    'on attribute order' % (la, what, g.nodes[na].get('l'), lb, _fmt_path(rb, pb), lb, la))
                    else:
                        msgs.append('the branches for %s and %s both write `%s`: the later attribute wins, so the result depends on attribute '
                                    'order' % (la, lb, what))
        written = {}
        for (r, pth, nid, gs, lab) in writes:
            if r[0] == 'var':
                written.setdefault(r[1], r[2])
        for (r, nid) in arg_reads:
            if r[1] in written and g.nodes[nid].get('k') == 'call':
                msgs.append('`%s` is handed to %s inside the attribute loop (line %s), before all attributes of the element have been seen'
                            % (r[2], g.nodes[nid].get('q', g.nodes[nid].get('name', 'a call')).rsplit('::', 1)[-1], g.nodes[nid].get('l')))
        if outer is not None:
            for d, nm in sorted(written.items(), key=lambda kv: str(kv[1])):
                if d not in capd:
                    continue
                later = [n for n in outer.all_nodes() if n.get('k') == 'var' and n.get('d') == d and outer.elem_dominates(call_id, n['id'])]
                if not later:
                    msgs.append('`%s` is filled by the attribute loop but never used after it: the parsed values are dropped' % nm)
        msgs = sorted(set(msgs))
        site = g.site if outer is None else outer.loc(call_id)
        R.check(not msgs, R_XATTR, key, site, '%s: %s' % (key, '; '.join(msgs[:4])),
                detail={'updates': sorted({'%s <- %s' % (_fmt_path(r, pth), lab) for (r, pth, _n, _g, lab) in writes})})


# ================================================================================================ driver

def run(ctx):
    R = ctx.R
    configs = ['ndebug14'] if ctx.tier == 'quick' else ['ndebug14', 'debug14', 'ndebug17', 'debug17']
    for cfg in configs:
        fb = ctx.facts(['io_read'], cfg)
        sws, dc = pbf_dispatch_rules(fb, R)
        if sws:
            pbf_spec_rules(fb, R, sws, dc)
            pbf_block_param_rules(fb, R, sws)
        pbf_framing_rules(fb, R)
        o5m_reset_rules(fb, R)
        o5m_dataset_rules(fb, R)
        o5m_ring_rules(fb, R)
        xml_attribute_rules(fb, R)
        pbf_field_number_rules(fb, R)
        o5m_prefetch_rules(fb, R)
        pbf_range_guard_rules(fb, R)
        loop_state_rules(fb, R)
    # instance floors, each count confirmed by reading the pristine tree (the evidence file lists the instances)
    floors = [
        (R_DEFAULT, 13),    # 13 switches over tag_and_type(): 9 in PBFPrimitiveBlockDecoder, decode_blob, decode_header_bbox, decode_header_block, decode_blob_header
        (R_ONCE, 71),       # 69 case labels + 2 next(TAG, WIRE) loops (StringTable.s, PrimitiveBlock.primitivegroup)
        (R_SPEC, 67),       # 71 enumerators of 13 message enums minus the 4 NOT_DECODED rows
        (R_SIB, 9),         # DenseNodes: 5 fields in decode_dense_nodes, 4 in ..._without_metadata (denseinfo exempt)
        (R_FORMULA, 3),     # convert_pbf_lon, convert_pbf_lat, constants
        (R_LOC, 4),         # decode_node, decode_way, decode_dense_nodes, decode_dense_nodes_without_metadata
        (R_TS, 2),          # decode_info, decode_dense_nodes
        (R_STORE, 4),       # granularity, date_granularity, lat_offset, lon_offset
        (R_DEFAULTS, 4),
        (R_ORDER, 1),
        (R_BE, 2),          # byte order, zero extension
        (R_LIMIT, 2),       # fd path, queue path
        (R_SPECLIM, 3),     # two constants, at least one throwing comparison (today 2: check_size, read_blob_header_size_from_file)
        (R_RESET, 12),      # 6 DeltaDecode members + 3 array elements + reference table, 2 clear() bodies
        (R_MARK, 1),
        (R_CODES, 9),
        (R_FRAME, 2),
        (R_RCONST, 3),      # number of entries, entry size, table size
        (R_RADD, 2),
        (R_RGET, 2),
        (R_XATTR, 10),
        (R_NUM, 70),        # every field of the 13 messages in the frozen PROTO table
        (R_PREF, 3),
        (R_RANGE, 21),      # way 3, relation 3, build_tag_list 2, dense tag list 1, dense without metadata 3, dense 9
        (R_FRESH, 10),      # o5m decode_tags 2, decode_relation 1; OPL tags 2, way nodes 2, relation members 3
        # ensure_bytes_available(1) loop condition, (max_varint_length) best-effort prefetch, (length)
      # 8 check_attributes lambdas (init_object, init_changeset, get_tag, top_level_element, bounds, nd, member, comment) + 2 set_attribute
    ]
    for rule, n in floors:
        R.expect(rule, n)


# ================================================================================================ positive self-tests

P = 'c02_positive::'


def _st_dispatch(fb, R):
    sws, dc = pbf_dispatch_rules(fb, R)
    if sws:
        pbf_spec_rules(fb, R, sws, dc, like=(P + 'Msg',))


def _st_block(fb, R):
    sws = codec.pbf_switches(fb)
    for cls in ('DecoderA', 'DecoderB'):
        pbf_block_param_rules(fb, R, sws, PD=P + cls, RESOLUTION=P + 'lonlat_resolution', RESCONV=P + 'resolution_convert')
    pbf_framing_rules(fb, R, PARSER=P + 'Framer', LIMIT=P + 'max_blob_header_size', BLOBLIMIT=P + 'max_uncompressed_blob_size')
    pbf_range_guard_rules(fb, R)
    loop_state_rules(fb, R, files=('c02_block.cpp',))


def _st_o5m(fb, R):
    o5m_reset_rules(fb, R, PARSER=P + 'Parser', TABLE=P + 'ReferenceTable')
    o5m_dataset_rules(fb, R, PARSER=P + 'Parser')
    o5m_ring_rules(fb, R, TABLE=P + 'ReferenceTable')


SELFTESTS = [(r, 'c02_dispatch.cpp', _st_dispatch) for r in (R_DEFAULT, R_ONCE, R_SPEC, R_SIB)] + \
            [(r, 'c02_block.cpp', _st_block) for r in (R_FORMULA, R_LOC, R_TS, R_STORE, R_DEFAULTS, R_ORDER, R_BE, R_LIMIT, R_SPECLIM, R_RANGE, R_FRESH)] + \
            [(r, 'c02_o5m.cpp', _st_o5m) for r in (R_RESET, R_MARK, R_CODES, R_FRAME, R_RCONST, R_RADD, R_RGET)]
