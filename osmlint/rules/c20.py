"""C20 -- handler dispatch and diff iteration (DISPATCH + PAIR engines).

Oracle = the library's own declarations: the enumerators of osmium::item_type, the exact truth set of every item class's
is_compatible_to() (abstractly evaluated over the finite enum domain), and the callback tables of handler::Handler /
diff_handler::DiffHandler (callback name <-> parameter class).

Decided (design clause in brackets):
 D1 [1,2,4] every path through `case E` of each apply_item_impl overload calls, on the handler parameter, exactly the
            callbacks whose parameter class accepts E, most general first (osm_object before node/way/relation/area,
            nothing else; no callback for `undefined`); all six overload x constness bodies are compared with the same
            oracle, so siblings agree
 D2 [1]     the argument of each such call is the item parameter, static_cast to the callback's parameter class with the
            item's constness (or the item itself when its static type already is that class)
 D3 [3]     the switch is on item.type(); every enumerator the item's static class accepts has an explicit case; the rest
            is either an explicit case or reaches a default that throws a std::exception
 W1 [5]     wrapper_handler: node/way/relation/area/changeset (both const and non-const overload) call operator()
            exactly once on every path with their own parameter, uncast
 W2 [5]     wrapper_handler declares both a `const T&` and a `T&` overload for each of these five callbacks
 A1 [6]     apply_item / apply_flush: one apply_item_impl(item, handler_i) / handler_i.flush() per handler, in pack order,
            inside a braced initializer list (left-to-right evaluation guaranteed)
 A2 [6]     apply_impl: one loop `it != end; ++it` whose body calls apply_item(*it, handlers in order) once;
            apply_flush(handlers in order) exactly once on every path, outside the loop
 A3 [6]     apply(): iterator overload forwards (it, end, make_handler(handler_i)... in order) to apply_impl; container
            overloads forward begin/end (cbegin/cend) of the SAME container and the handlers in order
 I1 [7]     ItemIterator<TMember>::advance_to_next_item_of_right_type loops while `data != end && !type_is_compatible<
            TMember>(item type)`, advancing by Item::next(); type_is_compatible<T> returns T::is_compatible_to(t)
 I2 [7]     the two-pointer constructor and prefix operator++ call it on every path (operator++ after moving m_data)
 X1 [8]     DiffIterator::set_diff: `use curr for prev` / `use curr for next` are mirror images (type and id of prev|next
            compared with curr), the `next == end` test exists and is evaluated first, the DiffObject is built from
            (cond ? curr : prev, curr, cond ? curr : next)
 X2 [8]     DiffIterator::operator++: prev <- curr strictly before curr <- next, then ++next only under next != end
 X3         DiffIterator constructor: prev and curr are copies of `begin` taken before `begin` is advanced, next is
            begin==end ? begin : ++begin, end is `end`
 X4         operator* / operator-> call set_diff() on every path; operator== compares the curr members
 X5         DiffObject: constructor stores (&prev,&curr,&next) in the members returned by prev()/curr()/next(); first()
            is prev==curr, last() is curr==next; type()/id()/version() read curr; DiffObjectDerived<T>::prev/curr/next
            forward to the same-named base accessor and cast to T
 X6 [1,3]   apply_diff_iterator_recurse: as D1-D3 against DiffHandler's table (cast target DiffObjectDerived<T>)
 X7         variadic apply_diff_iterator_recurse: first handler first, then the rest in order
 X8         apply_diff: dit{it,end}, dend{end,end}, one loop dit != dend; ++dit calling the dispatcher with *dit and the
            handlers in order
 Y1         DynamicHandler::M forwards its parameter to m_impl->M; HandlerWrapper<T>::M calls M_dispatch(m_handler,
            param, <int literal>); M_dispatch calls handler.M(object) (or handler(object) for the visitor flavour)
 Y2         every virtual callback of HandlerWrapperBase has a same-named DynamicHandler method and a HandlerWrapper
            override
 C1         ChainHandler::M starts the recursion at call_M<0, sizeof...(handlers)> with (m_handlers, own parameter)
 C2         call_M<N,SIZE>::operator() calls std::get<N>(handlers).M(object), then call_M<N+1,SIZE>
 R1         InputIterator: operator++ refills (update_buffer) when the item iterator reached the buffer's end, after
            advancing; the end-of-input branch of update_buffer resets every member operator== compares

Shape independence: dispatch functions are decided by evaluating their branch structure per item_type enumerator (switch,
if/else-if chain, early returns, named locals and merged tests are equivalent; library helpers that receive the handler
are inlined); conditions are normalised (negation, De Morgan, named bool locals, boolean helper functions); events inside
extracted private member helpers count at the helper call (c20_util.carriers); anchors are found by role (the function
that builds the DiffObject, the loop that steps `data = item->next()`), not by the helper's name; loop forms (for / while /
do-while / for(;;) with explicit exit) are not distinguished.

 P1         every postfix operator++(int) of ItemIterator / DiffIterator / InputIterator / CollectionIterator = copy of *this,
            then the prefix increment exactly once (or everything the prefix does: same member calls / member updates, must
            and may), return the copy taken before the advance
 R2         InputIterator: every read() of the source is followed on every path by binding the shared_ptr<Buffer> member to a
            freshly allocated object (make_shared / new) or by the end-of-input reset; nothing writes through the shared
            pointer (assignment to / mutator call on the pointee): copies of the iterator keep their own buffer alive

 K1         for every item class with its own is_compatible_to(item_type): the accepted set (the predicate evaluated for EVERY
            enumerator: equality / range / bit tests, casts, named locals, early returns, switch) equals the item types of the
            classes deriving from it (from the `itemtype` constants and base lists); enumerators that are no class's itemtype
            may only be accepted by the root class or when named in an explicit equality test.  This also validates the oracle
            the dispatch rules use.  A predicate the evaluator cannot decide is analysis-broken.

All eight clauses of DESIGN.md section 5 "C20" are implemented (clause 4, sibling agreement, follows from comparing every
overload with the same oracle).  Instances are keyed by what the oracle REQUIRES (callback x case, callback x constness),
so a dropped call / case / overload is a violated instance, not a vanished one.

Not decided: behaviour of the DiffIterator on all run-length patterns; evaluation order inside user handlers; that
ChainHandler / DynamicHandler forward only node/way/relation/area/changeset/flush (osm_object and the sub-item callbacks of
chained or dynamic sub-handlers are never called -- by construction of those classes, reported as an observation only);
make_handler's SFINAE selection (a wrong selection does not compile).  Observation (compile time, no rule): apply_diff(Buffer&) / apply_diff(const Buffer&)
cannot be instantiated (Buffer::begin() iterates OSMEntity, DiffIterator static_asserts OSMObject).
"""
from ..c20_util import (Oracle, Shape, split_ref, strip_const, expected_calls, xroot, has_explicit_cast, name_of, enum_paths,
                        must_pass, may_repeat, std_get_index, normal_exit_avoiding, resolve_alias, abnormal, carriers)
from ..flow import guards_of, path_search

KNOWN = []

EXPLANATION = (
    'Decided: dispatch tables of the five apply_item_impl overloads (const and non-const), apply_diff_iterator_recurse, '
    'wrapper_handler, DynamicHandler/HandlerWrapper and ChainHandler against the library\'s own oracle (item_type enumerators, '
    'exact truth sets of is_compatible_to, Handler/DiffHandler callback tables): per case label the called callbacks, their '
    'order (osm_object first), the static_cast target and constness, exhaustiveness / throwing default; pack-order and '
    'braced-list evaluation of apply_item/apply_flush, flush exactly once after the item loop, range forwarding of apply(); '
    'ItemIterator type filter in constructor and operator++; DiffIterator set_diff mirror conditions, end guard, '
    'prev<-curr<-next shift, constructor snapshot order; DiffObject role wiring; InputIterator refill/end state. '
    'NOT decided: DiffIterator behaviour over all run-length patterns, user handler behaviour, callbacks that ChainHandler / '
    'DynamicHandler do not forward by design.')
ASSUMPTIONS = ['the instantiations in drivers/c20_extra.cpp (all overloads x const/non-const x static, dynamic, chained, wrapped '
               'handlers, 1..4 handlers) are representative of every instantiation of the same template pattern',
               'braced initializer lists evaluate left to right (C++11 [dcl.init.list])']

HANDLER = 'osmium::handler::Handler'
DIFFHANDLER = 'osmium::diff_handler::DiffHandler'


def _exit_t(e):
    return isinstance(e, tuple) and e[0] == 'exit'


# ================================================================================================ DISPATCH

def _single_init(fn, d):
    """initialiser of a local variable that is written nowhere else (a named local for a sub-expression), else None"""
    init = None
    for n in fn.all_nodes():
        k = n.get('k')
        if k == 'decl':
            for v in n['vars']:
                if v['d'] == d:
                    if not isinstance(v.get('init'), int) or init is not None:
                        return None
                    init = v['init']
        elif k == 'assign':
            l = fn.sn(n['lhs'])
            if l is not None and l.get('k') == 'var' and l.get('d') == d:
                return None
        elif k == 'unop' and n.get('op') in ('++', '--'):
            s = fn.sn(n['sub'])
            if s is not None and s.get('k') == 'var' and s.get('d') == d:
                return None
    return init


def _is_type_expr(fn, nid, type_callee, depth=0):
    """the expression is <item parameter>.type() -- directly or through a named local initialised with it"""
    n = fn.sn(nid)
    if n is None or depth > 6:
        return False
    if n.get('k') == 'call' and n.get('q') == type_callee and n.get('recv') is not None:
        return (xroot(fn, n['recv'], free_calls=False) or (None, None))[:2] == ('param', 0)
    if n.get('k') == 'var' and n.get('vk') == 'local':
        init = _single_init(fn, n['d'])
        return init is not None and _is_type_expr(fn, init, type_callee, depth + 1)
    if n.get('k') == 'cast':
        return False
    return False


def _eval_cond(fn, nid, type_callee, value, depth=0):
    """three-valued (True / False / None = unknown) value of a branch condition when the item's type is `value`"""
    n = fn.sn(nid)
    if n is None or depth > 30:
        return None
    k = n.get('k')
    if k == 'binop' and n['op'] in ('&&', '||'):
        a = _eval_cond(fn, n['lhs'], type_callee, value, depth + 1)
        b = _eval_cond(fn, n['rhs'], type_callee, value, depth + 1)
        if n['op'] == '&&':
            if a is False or b is False:
                return False
            return True if (a is True and b is True) else None
        if a is True or b is True:
            return True
        return False if (a is False and b is False) else None
    if k == 'unop' and n['op'] == '!':
        v = _eval_cond(fn, n['sub'], type_callee, value, depth + 1)
        return None if v is None else (not v)
    p = _cmp_parts(fn, nid)
    if p is not None:
        op, l, r = p
        for a, b in ((l, r), (r, l)):
            if _is_type_expr(fn, a, type_callee):
                c = fn.const_value(b)
                if c is not None:
                    return (value == c) if op == '==' else (value != c)
        return None
    if k == 'var' and n.get('vk') == 'local':
        init = _single_init(fn, n['d'])
        if init is not None:
            return _eval_cond(fn, init, type_callee, value, depth + 1)
        return None
    return None


def _paths_for_type(fn, O, type_callee, value):
    """Block paths entry..end that are feasible when the item's type is `value`: switch statements on the item type and
    ==/!= tests of it against enumerators are decided, every other branch is followed both ways.  Loops -> Shape."""
    out = []
    stack = [(fn.entry, (fn.entry,))]
    decided = False
    while stack:
        b, path = stack.pop()
        blk = fn.blocks[b]
        if b == fn.exit:
            out.append(list(path))
            if len(out) > 2000:
                raise Shape('%s: too many paths' % fn.full)
            continue
        succs = blk['succs']
        nxt = None
        if blk.get('termcls') == 'SwitchStmt':
            if not _is_type_expr(fn, blk['cond'], type_callee):
                raise Shape('%s: switch on `%s`, which is not the item type' % (fn.full, fn.expr(blk['cond'])))
            decided = True
            match = dflt = after = None
            for s in succs:
                if s is None:
                    continue
                lab = fn.blocks[s].get('label') or {}
                if 'case' in lab:
                    v = fn.const_value(lab['case'])
                    if v is None:
                        raise Shape('%s: case label %s is not constant' % (fn.full, fn.expr(lab['case'])))
                    if v == value:
                        match = s
                elif lab.get('default'):
                    dflt = s
                else:
                    after = s
            nxt = [match if match is not None else (dflt if dflt is not None else after)]
            if nxt[0] is None:
                # all enumerators have a case and this value is none of them: not a value of the enum
                continue
        elif 'cond' in blk and len(succs) == 2:
            v = _eval_cond(fn, blk['cond'], type_callee, value)
            if v is None:
                nxt = [s for s in succs if s is not None]
            else:
                decided = True
                s = succs[0] if v else succs[1]
                nxt = [s] if s is not None else []
        else:
            nxt = [s for s in succs if s is not None]
        if not nxt:
            out.append(list(path))  # noreturn end
            continue
        for s in nxt:
            if s in path:
                raise Shape('%s: loop inside a dispatch function' % fn.full)
            stack.append((s, path + (s,)))
    return out, decided


def _handler_calls(fb, fn, blocks, hidx, iidx, depth=0):
    """Callback calls on the handler along a block path, in execution order; calls of library helpers that receive the
    handler are treated as inlined.  Each record: dict(fn=context function, n=call node, iidx=index of the item
    parameter in that context (or None), via=[(caller fn, call node, item argument id)...])."""
    out = []
    for b in blocks:
        for e in fn.blocks[b]['elems']:
            n = fn.nodes[e]
            if n.get('k') != 'call' or 'q' not in n:
                continue
            if n.get('recv') is not None:
                r = xroot(fn, n['recv'])
                if r is not None and r[:2] == ('param', hidx):
                    out.append({'fn': fn, 'n': n, 'iidx': iidx, 'via': []})
                    continue
            args = n.get('args', [])
            roots = [(xroot(fn, a) or (None, None))[:2] for a in args]
            if ('param', hidx) not in roots or depth >= 3:
                continue
            cal = fb.by_usr.get(n.get('u'), [])
            cal = [g for g in cal if g.has_cfg and len(g.params) == len(args)]
            if not cal:
                continue
            g = cal[0]
            h2 = roots.index(('param', hidx))
            i2 = roots.index(('param', iidx)) if (iidx is not None and ('param', iidx) in roots) else None
            seqs = []
            for p in enum_paths(g, g.entry):
                if any(abnormal(g, x) for bb in p for x in g.blocks[bb]['elems']):
                    continue
                seqs.append(_handler_calls(fb, g, p, h2, i2, depth + 1))
            sig = {tuple(name_of(r['n']['q']) for r in s) for s in seqs}
            if len(sig) > 1:
                raise Shape('%s: helper %s calls different callbacks on different paths' % (fn.full, g.full))
            if seqs:
                for r in seqs[0]:
                    r['via'] = [(fn, n, args[i2] if i2 is not None else None)] + r['via']
                    out.append(r)
    return out


def _path_outcome(fn, path):
    """'throw-std' | 'throw-other' | 'abort' | 'normal'"""
    for b in path:
        for e in fn.blocks[b]['elems']:
            n = fn.nodes[e]
            if n.get('k') == 'throw':
                return 'throw-std' if 'std::exception' in n.get('bases', []) else 'throw-other'
            if abnormal(fn, e):
                return 'abort'
    return 'normal'


def _check_item_arg(O, ctx, n, iidx, want_t, enumerator):
    """(ok, description) for the argument of one callback call in context function ctx (item parameter index iidx)."""
    if iidx is None:
        return False, 'is made in a helper that does not receive the item'
    p = ctx.params[iidx]
    item_cls, item_const, _r = split_ref(p['tC'])
    a = resolve_alias(ctx, n['args'][0])
    root = xroot(ctx, n['args'][0], free_calls=False)
    from_item = root is not None and root[:2] == ('param', iidx)
    tgt, tconst, _r2 = split_ref(want_t)
    if a is not None and a.get('k') == 'cast':
        want_here = ('const ' if item_const else '') + tgt + ' &'
        return from_item and a.get('toC') == want_here, 'casts the item to `%s`' % a.get('toC')
    if a is not None and a.get('k') == 'var':
        return from_item and (item_cls == tgt or O.is_derived(item_cls, tgt)), 'passes the item uncast (static type %s)' % item_cls
    return False, 'passes `%s`' % ctx.expr(n['args'][0])


def _check_via(O, via, enumerator, outer_const):
    """the item handed to an inlined helper must be the item parameter, uncast or cast to a class accepting the type"""
    for (cf, cn, arg) in via:
        if arg is None:
            return False, 'the helper %s does not receive the item' % name_of(cn.get('q', '?'))
        a = resolve_alias(cf, arg)
        if a is not None and a.get('k') == 'cast':
            cls, cst, _r = split_ref(a.get('toC', ''))
            acc = O.compat(cls)
            if acc is None or enumerator not in acc or (outer_const and not cst):
                return False, 'the item is handed to %s as `%s`' % (name_of(cn.get('q', '?')), a.get('toC'))
    return True, ''


def dispatch_function(fn, R, O, table, param_class_of, cast_type_of, type_callee, rule_prefix, key0, static_accepts):
    """Decide one dispatch function against the callback table by evaluating its branch structure (switch or if-chain on
    the item type, named locals, inlined helpers) for every enumerator of item_type.
    table: {callback: class}; param_class_of(cb) -> class deciding compatibility; cast_type_of(cb, const) -> canonical
    reference type of the argument; static_accepts: enumerators the item's static type (or the table) covers."""
    fb = O.fb
    r1, r2, r3 = (rule_prefix + s for s in ('1-case-calls', '2-cast-target', '3-exhaustive'))
    item_const = split_ref(fn.params[0]['tC'])[1]
    d3 = []
    any_decided = False
    for e, value in sorted(O.enum_by_name.items(), key=lambda kv: kv[1]):
        paths, decided = _paths_for_type(fn, O, type_callee, value)
        any_decided = any_decided or decided
        want = expected_calls(O, table, param_class_of, e)
        key = '%s#case %s' % (key0, e)
        normal = [p for p in paths if _path_outcome(fn, p) == 'normal']
        other = [(p, _path_outcome(fn, p)) for p in paths if _path_outcome(fn, p) != 'normal']
        recs = [_handler_calls(fb, fn, p, 1, 0) for p in normal]
        has_calls = any(r for r in recs)
        if e not in static_accepts:
            # not a type the item's static class can have: must be rejected with a std::exception -- or be dispatched correctly
            if normal and not has_calls:
                d3.append('items of type %s are silently ignored (no callback, no exception)' % e)
                continue
            if any(o != 'throw-std' for (_p, o) in other):
                d3.append('items of type %s end in %s' % (e, sorted({o for (_p, o) in other})))
            if not normal:
                continue
        site = fn.site
        for r in recs:
            if r:
                site = r[0]['fn'].loc(r[0]['n']['id'])
                break
        if not normal:
            R.bad(r1, key, fn.site, 'items of type %s are rejected (%s) instead of being dispatched to %s' %
                  (e, sorted({o for (_p, o) in other}), want or 'no callback'))
            for cb in want:
                R.bad(r2, '%s#%s' % (key, cb), fn.site, 'item_type::%s is not dispatched, so the call of %s(%s) is missing' %
                      (e, cb, cast_type_of(cb, item_const)))
            d3.append('%s is covered by the item\'s static type / the callback table but is not dispatched' % e)
            continue
        ok = True
        msg = None
        for r in recs:
            got = [name_of(x['n']['q']) for x in r]
            if got != want:
                ok = False
                msg = ('for item_type::%s the handler receives %s; the callbacks whose parameter class accepts %s are %s '
                       '(in that order)' % (e, got or 'nothing', e, want or 'none'))
                break
        if ok and other:
            ok = False
            msg = 'for item_type::%s some path ends in %s' % (e, sorted({o for (_p, o) in other}))
        R.check(ok, r1, key, site, msg, detail={'expected': want, 'paths': len(paths)})
        called = {name_of(x['n']['q']) for r in recs for x in r}
        for cb in want:
            if cb not in called:
                R.bad(r2, '%s#%s' % (key, cb), site, 'item_type::%s: the required call of %s(%s) is missing' %
                      (e, cb, cast_type_of(cb, item_const)))
        done = set()
        for r in recs:
            for x in r:
                n, ctx = x['n'], x['fn']
                cb = name_of(n['q'])
                if cb not in table or (id(ctx), n['id']) in done:
                    continue
                done.add((id(ctx), n['id']))
                k2 = '%s#%s' % (key, cb)
                if len(n.get('args', [])) != 1:
                    R.bad(r2, k2, ctx.loc(n['id']), 'callback %s is called with %d arguments' % (cb, len(n.get('args', []))))
                    continue
                want_t = cast_type_of(cb, item_const)
                good, what = _check_item_arg(O, ctx, n, x['iidx'], want_t, e)
                if good and x['via']:
                    good, what = _check_via(O, x['via'], e, item_const)
                R.check(good, r2, k2, ctx.loc(n['id']),
                        'item_type::%s: call of %s %s; required is the item parameter as `%s`' % (e, cb, what, want_t))
    if not any_decided:
        d3.append('no branch of the function depends on %s() of the item parameter' % type_callee)
    R.check(not d3, r3, key0, fn.site, '; '.join(d3))


def dispatch_rules(fb, R, O):
    table = O.callback_table(HANDLER)
    fns = fb.fns('osmium::detail::apply_item_impl')
    if not fns:
        R.broken('no instantiation of osmium::detail::apply_item_impl')
        return
    for fn in fns:
        if len(fn.params) != 2:
            R.broken('%s: expected (item, handler) parameters' % fn.full)
            continue
        icls, _c, ref = split_ref(fn.params[0]['tC'])
        acc = O.compat(icls)
        if acc is None or not ref:
            R.broken('%s: item parameter type %s has no is_compatible_to' % (fn.full, fn.params[0]['tC']))
            continue
        key0 = 'osmium::detail::apply_item_impl(%s)' % fn.params[0]['tC']
        try:
            dispatch_function(fn, R, O, table, lambda cb: table[cb],
                              lambda cb, const: ('const ' if const else '') + table[cb] + ' &',
                              'osmium::memory::Item::type', 'D', key0, acc)
        except Shape as e:
            R.broken(str(e))


def diff_dispatch_rules(fb, R, O):
    table = O.callback_table(DIFFHANDLER)   # name -> osmium::DiffObjectDerived<osmium::Node>
    inner = {}
    for cb, cls in table.items():
        if not (cls.startswith('osmium::DiffObjectDerived<') and cls.endswith('>')):
            R.broken('DiffHandler::%s takes %s, not a DiffObjectDerived<T>' % (cb, cls))
            return
        inner[cb] = cls[len('osmium::DiffObjectDerived<'):-1]
    must = set()
    for cb in table:
        must |= set(O.compat(inner[cb]) or ())
    n1 = n2 = 0
    for fn in fb.fns('osmium::detail::apply_diff_iterator_recurse'):
        if len(fn.params) == 2:
            n1 += 1
            try:
                dispatch_function(fn, R, O, table, lambda cb: inner[cb],
                                  lambda cb, const: 'const ' + table[cb] + ' &',
                                  'osmium::DiffObject::type', 'X6-diff-dispatch-', 'osmium::detail::apply_diff_iterator_recurse(1 handler)',
                                  must)
            except Shape as e:
                R.broken(str(e))
        elif len(fn.params) > 2:
            n2 += 1
            # X7: recurse(diff, handler) strictly before recurse(diff, more...)
            calls = [n for n in fn.all_nodes() if n.get('k') == 'call' and n.get('q') == fn.q]
            ok = len(calls) == 2
            msg = 'expected two recursive calls, found %d' % len(calls)
            if ok:
                first = [c for c in calls if len(c['args']) == 2 and (xroot(fn, c['args'][1]) or (None, None))[:2] == ('param', 1)]
                rest = [c for c in calls if c not in first]
                ok = len(first) == 1 and len(rest) == 1
                if ok:
                    f0, r0 = first[0], rest[0]
                    a = [xroot(fn, x) for x in f0['args']]
                    b = [xroot(fn, x) for x in r0['args']]
                    ok = (a[0] is not None and a[0][:2] == ('param', 0) and a[1] is not None and a[1][:2] == ('param', 1) and
                          [x[:2] if x else None for x in b] == [('param', 0)] + [('param', i) for i in range(2, len(fn.params))] and
                          fn.elem_dominates(f0['id'], r0['id']) and must_pass(fn, [f0['id']]) and must_pass(fn, [r0['id']]))
                    msg = ('the first handler must be served first, then the remaining handlers in order: found %s then %s'
                           % (fn.expr(f0['id']), fn.expr(r0['id'])))
                else:
                    msg = 'expected one call with the first handler and one with the rest'
            R.check(ok, 'X7-diff-recurse-order', 'osmium::detail::apply_diff_iterator_recurse(variadic)', fn.site, msg)
    if n1 == 0 or n2 == 0:
        R.broken('apply_diff_iterator_recurse: single-handler (%d) or variadic (%d) overload not instantiated' % (n1, n2))


# ================================================================================================ wrapper_handler

WRAP = 'osmium::detail::wrapper_handler'


def _entity_callbacks(O):
    """Handler callbacks whose parameter class is a single-type OSM entity (derives from OSMEntity, accepts exactly one
    item type): these are the ones a wrapped function object must see."""
    table = O.callback_table(HANDLER)
    out = {}
    for cb, cls in table.items():
        c = O.compat(cls)
        if c is not None and len(c) == 1 and O.is_derived(cls, 'osmium::OSMEntity'):
            out[cb] = cls
    if not out:
        raise Shape('no entity callbacks found in %s' % HANDLER)
    return out


def _forwards_to_functor(fb, fn, depth):
    """fn passes its first parameter, uncast, to operator() of *this exactly once on every path -- directly or through
    a member helper that does.  Returns (ok, description of what was found)."""
    calls = [n for n in fn.all_nodes() if n.get('k') == 'call' and (n.get('op') == '()' or name_of(n.get('q', '')) == 'operator()')]
    calls = [n for n in calls if n.get('recv') is not None and (xroot(fn, n['recv']) or (None,))[0] == 'this']
    if not calls and depth < 3 and fn.cls:
        helpers = [n for n in fn.all_nodes() if n.get('k') == 'call' and n.get('rcls') == fn.cls and 'u' in n and
                   (n.get('recv') is None or (xroot(fn, n['recv'], free_calls=False) or (None,))[0] == 'this')]
        if len(helpers) == 1:
            h = helpers[0]
            a = h.get('args', [])
            r = xroot(fn, a[0], free_calls=False) if len(a) == 1 else None
            if (r is not None and r[:2] == ('param', 0) and not has_explicit_cast(fn, a[0]) and must_pass(fn, [h['id']]) and
                    not may_repeat(fn, [h['id']])):
                for g in fb.by_usr.get(h['u'], []):
                    if g.clsT == fn.clsT and g.has_cfg:
                        return _forwards_to_functor(fb, g, depth + 1)
        return False, 'no call of operator()'
    if len(calls) != 1:
        return False, '%d calls of operator()' % len(calls)
    c = calls[0]
    a = c.get('args', [])
    r = xroot(fn, a[0], free_calls=False) if len(a) == 1 else None
    ok = (r is not None and r[:2] == ('param', 0) and not has_explicit_cast(fn, a[0]) and
          must_pass(fn, [c['id']]) and not may_repeat(fn, [c['id']]))
    return ok, fn.expr(c['id'])


def wrapper_rules(fb, R, O):
    ent = _entity_callbacks(O)
    recs = fb.records_named(WRAP)
    if not recs:
        R.broken('no instantiation of %s' % WRAP)
        return
    # W2: both overloads declared
    for rec in recs:
        for cb, cls in sorted(ent.items()):
            have = {p for m in rec.methods if m['name'] == cb and len(m['params']) == 1 for p in m['params']}
            want = {'const %s &' % cls, '%s &' % cls}
            R.check(want <= have, 'W2-wrapper-const-and-mutable-overload', '%s::%s#overloads' % (WRAP, cb), '%s:%d' % (rec.file, rec.line),
                    'wrapper_handler must declare %s for both `const %s&` and `%s&` (otherwise a function object taking the '
                    'other constness is silently bypassed through the fallback operator()); declared: %s' % (cb, cls, cls, sorted(have)))
    # W1: forwarding bodies (one instance per callback x constness the oracle requires, present or not)
    bodies = {(f.name, f.params[0]['tC']) for f in fb.functions if f.cls == WRAP and not f.is_lambda and len(f.params) == 1}
    for cb, cls in sorted(ent.items()):
        for t in ('const %s &' % cls, '%s &' % cls):
            if (cb, t) not in bodies:
                declared = any(t in m['params'] for rec in recs for m in rec.methods if m['name'] == cb)
                if declared:
                    R.broken('wrapper_handler::%s(%s) is declared but not instantiated by the driver' % (cb, t))
                else:
                    R.bad('W1-wrapper-forwards-own-parameter', '%s::%s(%s)#forwards' % (WRAP, cb, t), '%s:%d' % (recs[0].file, recs[0].line),
                          'wrapper_handler has no %s(%s), objects of that constness are not forwarded to the wrapped function object' % (cb, t))
    for fn in fb.functions:
        if fn.cls != WRAP or fn.is_lambda or fn.name not in ent or len(fn.params) != 1:
            continue
        key = '%s::%s(%s)#forwards' % (WRAP, fn.name, fn.params[0]['tC'])
        ok, found = _forwards_to_functor(fb, fn, 0)
        msg = 'must call operator() exactly once on every path with its own parameter (found %s)' % found
        R.check(ok, 'W1-wrapper-forwards-own-parameter', key, fn.site, 'wrapper_handler::%s %s' % (fn.name, msg))


# ================================================================================================ apply / apply_item / apply_flush

def _in_initlist(fn, nid):
    pm = fn.parent_map()
    x = nid
    hops = 0
    while x in pm and hops < 50:
        x = pm[x]
        hops += 1
        if fn.nodes[x].get('k') == 'initlist':
            return x
    return None


def _cfg_order(fn, ids):
    pos = fn.positions()
    return all(i in pos for i in ids) and all(fn.elem_dominates(a, b) for a, b in zip(ids, ids[1:]))


def _through_locals(fn, nid, hops=0):
    """node id with copies (single-argument constructions) and named locals (`auto first = begin(c);`, written nowhere
    else) replaced by what they are made from"""
    n = fn.sn(nid)
    while n is not None and hops < 8:
        hops += 1
        if n.get('k') == 'construct' and len(n.get('args', [])) == 1:
            nid = n['args'][0]
        elif n.get('k') == 'var' and n.get('vk') == 'local':
            init = _single_init(fn, n['d'])
            if init is None:
                break
            nid = init
        else:
            break
        n = fn.sn(nid)
    return nid


def _roots(fn, args):
    return [(xroot(fn, _through_locals(fn, a)) or (None, None))[:2] for a in args]


def apply_rules(fb, R, O):
    # ---- A1 apply_item
    fns = fb.fns('osmium::apply_item')
    if not fns:
        R.broken('no instantiation of osmium::apply_item')
    for fn in fns:
        k = len(fn.params) - 1
        calls = sorted((n for n in fn.all_nodes() if n.get('k') == 'call' and n.get('q') == 'osmium::detail::apply_item_impl'),
                       key=lambda n: (n.get('o', 0), n['id']))
        msgs = []
        if len(calls) != k:
            msgs.append('%d calls of apply_item_impl for %d handlers' % (len(calls), k))
        else:
            lists = {_in_initlist(fn, c['id']) for c in calls}
            if None in lists or len(lists) != 1:
                msgs.append('the apply_item_impl calls are not the elements of one braced initializer list (evaluation order of the '
                            'handlers would be unspecified)')
            else:
                il = fn.nodes[lists.pop()]
                order = []
                for el in il.get('args', []):
                    sub = [c for c in calls if c['id'] in fn.subtree(el)]
                    order.extend(sub)
                got = [_roots(fn, c['args']) for c in order]
                want = [[('param', 0), ('param', i)] for i in range(1, k + 1)]
                if got != want:
                    msgs.append('list elements call apply_item_impl with %s; required (item, handler_i) for i in pack order' % got)
                if not _cfg_order(fn, [c['id'] for c in order]):
                    msgs.append('the calls are not evaluated in pack order')
            for c in calls:
                if not must_pass(fn, [c['id']]):
                    msgs.append('a handler can be skipped on some path')
                    break
        R.check(not msgs, 'A1-pack-order-braced-list', 'osmium::apply_item#per-handler-dispatch', fn.site, '; '.join(msgs))
    # ---- A1 apply_flush
    fns = fb.fns('osmium::apply_flush')
    if not fns:
        impls = fb.fns('osmium::apply_impl')
        if impls and not any(n.get('k') == 'call' and n.get('q') == 'osmium::apply_flush' for f in impls for n in f.all_nodes()):
            R.bad('A1-pack-order-braced-list', 'osmium::apply_flush#per-handler-flush', impls[0].site,
                  'apply_flush is never called (and therefore not instantiated): no handler is flushed')
        else:
            R.broken('no instantiation of osmium::apply_flush')
    for fn in fns:
        k = len(fn.params)
        calls = [n for n in fn.all_nodes() if n.get('k') == 'call' and name_of(n.get('q', '')) == 'flush' and n.get('recv') is not None]
        msgs = []
        if len(calls) != k:
            msgs.append('%d flush() calls for %d handlers' % (len(calls), k))
        else:
            lists = {_in_initlist(fn, c['id']) for c in calls}
            if None in lists or len(lists) != 1:
                msgs.append('the flush() calls are not the elements of one braced initializer list')
            else:
                il = fn.nodes[lists.pop()]
                order = []
                for el in il.get('args', []):
                    order.extend(c for c in calls if c['id'] in fn.subtree(el))
                got = [(xroot(fn, c['recv']) or (None, None))[:2] for c in order]
                if got != [('param', i) for i in range(k)]:
                    msgs.append('flush() receivers are %s; required handler_i in pack order' % got)
                if not _cfg_order(fn, [c['id'] for c in order]):
                    msgs.append('the calls are not evaluated in pack order')
            for c in calls:
                if not must_pass(fn, [c['id']]):
                    msgs.append('a flush() can be skipped on some path')
                    break
        R.check(not msgs, 'A1-pack-order-braced-list', 'osmium::apply_flush#per-handler-flush', fn.site, '; '.join(msgs))
    # ---- A2 apply_impl
    fns = fb.fns('osmium::apply_impl')
    if not fns:
        R.broken('no instantiation of osmium::apply_impl')
    for fn in fns:
        k = len(fn.params) - 2
        hp = [('param', i) for i in range(2, 2 + k)]
        items = [n for n in fn.all_nodes() if n.get('k') == 'call' and n.get('q') == 'osmium::apply_item']
        flushes = [n for n in fn.all_nodes() if n.get('k') == 'call' and n.get('q') == 'osmium::apply_flush']
        # item loop
        msgs = []
        if len(fn.loops) != 1:
            msgs.append('expected exactly one loop, found %d' % len(fn.loops))
        elif len(items) != 1:
            msgs.append('expected exactly one apply_item call, found %d' % len(items))
        else:
            lp = fn.loops[0]
            it = items[0]
            if not fn.in_range(it['id'], lp['b'], lp['e']):
                msgs.append('apply_item is not inside the loop')
            a0 = resolve_alias(fn, it['args'][0]) if it.get('args') else None
            deref = (a0 is not None and a0.get('k') == 'call' and a0.get('op') == '*' and
                     (xroot(fn, a0['recv']) or (None, None))[:2] == ('param', 0)) or \
                    (a0 is not None and a0.get('k') == 'unop' and a0.get('op') == '*' and (xroot(fn, a0['sub']) or (None, None))[:2] == ('param', 0))
            if not deref or _roots(fn, it['args'][1:]) != hp:
                msgs.append('apply_item must be called with (*it, handlers in pack order); found %s' % fn.expr(it['id']))
            # guarded by it != end
            gs = guards_of(fn, it['id'])
            g_ok = False
            for (c, sense, _b) in gs:
                x = fn.sn(c)
                if x is None:
                    continue
                op = x.get('op')
                if x.get('k') == 'call' and op in ('!=', '==') and x.get('recv') is not None and x.get('args'):
                    ends = {(xroot(fn, x['recv']) or (None, None))[:2], (xroot(fn, x['args'][0]) or (None, None))[:2]}
                elif x.get('k') == 'call' and op in ('!=', '==') and len(x.get('args', [])) == 2:
                    ends = {(xroot(fn, a) or (None, None))[:2] for a in x['args']}
                elif x.get('k') == 'binop' and op in ('!=', '=='):
                    ends = {(xroot(fn, x['lhs']) or (None, None))[:2], (xroot(fn, x['rhs']) or (None, None))[:2]}
                else:
                    continue
                if ends == {('param', 0), ('param', 1)} and ((op == '!=') == bool(sense)):
                    g_ok = True
            if not g_ok:
                msgs.append('the loop is not guarded by `it != end`')
            incs = [n for n in fn.all_nodes() if ((n.get('k') == 'call' and n.get('op') == '++' and n.get('recv') is not None and
                                                   (xroot(fn, n['recv']) or (None, None))[:2] == ('param', 0)) or
                                                  (n.get('k') == 'unop' and n.get('op') == '++' and (xroot(fn, n['sub']) or (None, None))[:2] == ('param', 0)))]
            if len(incs) != 1 or not fn.in_range(incs[0]['id'], lp['b'], lp['e']):
                msgs.append('the loop must advance `it` exactly once per iteration (found %d increments)' % len(incs))
            elif path_search(fn, it['id'], lambda e: e == it['id'], lambda e: e == incs[0]['id']) is not None:
                msgs.append('apply_item can be reached again without advancing `it`')
        R.check(not msgs, 'A2-apply_impl-item-loop', 'osmium::apply_impl#item-loop', fn.site, '; '.join(msgs))
        msgs = []
        if not flushes:
            msgs.append('apply_flush is never called')
        else:
            ids = [f['id'] for f in flushes]
            if any(fn.in_range(i, l['b'], l['e']) for i in ids for l in fn.loops):
                msgs.append('apply_flush is called inside the item loop (flush once per item instead of once at the end)')
            if not must_pass(fn, ids):
                msgs.append('a path reaches the end of apply_impl without apply_flush')
            if may_repeat(fn, ids):
                msgs.append('apply_flush can execute more than once')
            for fl in flushes:
                if _roots(fn, fl.get('args', [])) != hp:
                    msgs.append('apply_flush must receive the handlers in pack order; found %s' % fn.expr(fl['id']))
                if items and path_search(fn, fl['id'], lambda e: e == items[0]['id'], lambda e: False) is not None:
                    msgs.append('an item can be dispatched after the flush')
            msgs = sorted(set(msgs))
        R.check(not msgs, 'A2-apply_impl-flush-once-after-loop', 'osmium::apply_impl#flush', fn.site, '; '.join(msgs))
    # ---- A3 apply overloads
    fns = fb.fns('osmium::apply')
    if not fns:
        R.broken('no instantiation of osmium::apply')
    kinds = set()
    for fn in fns:
        impl = [n for n in fn.all_nodes() if n.get('k') == 'call' and n.get('q') == 'osmium::apply_impl']
        fwd = [n for n in fn.all_nodes() if n.get('k') == 'call' and n.get('q') == 'osmium::apply']
        if len(impl) == 1 and not fwd:
            kinds.add('iter')
            c = impl[0]
            k = len(fn.params) - 2
            msgs = []
            if _roots(fn, c['args']) != [('param', i) for i in range(2 + k)]:
                msgs.append('apply_impl must receive (it, end, handlers in pack order); found %s' % fn.expr(c['id']))
            for a in c['args'][2:]:
                x = fn.sn(a)
                if x is None or x.get('k') != 'call' or x.get('q') != 'osmium::detail::make_handler':
                    msgs.append('handler argument `%s` is not passed through make_handler' % fn.expr(a))
                    break
            if not must_pass(fn, [c['id']]):
                msgs.append('apply_impl is not reached on every path')
            R.check(not msgs, 'A3-apply-forwards-range-and-handlers', 'osmium::apply(iterator range)#forward', fn.site, '; '.join(msgs))
        elif len(fwd) == 1 and not impl:
            c = fwd[0]
            k = len(fn.params) - 1
            pt = split_ref(fn.params[0]['tC'])
            kind = 'const Buffer' if (pt[0] == 'osmium::memory::Buffer' and pt[1] and fn.params[0]['name'] == 'buffer') else 'container'
            # distinguish by the pattern, not by the name: the two container overloads have different pattern locations
            kinds.add(('cont', fn.pat))
            msgs = []
            args = c.get('args', [])
            if len(args) != 2 + k:
                msgs.append('forwarding call has %d arguments for %d handlers' % (len(args), k))
            else:
                nm = []
                for a in args[:2]:
                    x = fn.sn(_through_locals(fn, a))
                    hops = 0
                    while x is not None and x.get('k') == 'construct' and len(x.get('args', [])) == 1 and hops < 5:
                        x = fn.sn(x['args'][0])
                        hops += 1
                    if x is None or x.get('k') != 'call':
                        nm.append(None)
                    else:
                        nm.append(name_of(x.get('q', x.get('name', '?'))))
                pairs = {('begin', 'end'), ('cbegin', 'cend')}
                if tuple(nm) not in pairs:
                    msgs.append('the range must be (begin, end) or (cbegin, cend) of the container; found (%s, %s)' % tuple(nm))
                if _roots(fn, args[:2]) != [('param', 0), ('param', 0)]:
                    msgs.append('both range ends must come from the container parameter')
                if _roots(fn, args[2:]) != [('param', i) for i in range(1, 1 + k)]:
                    msgs.append('handlers must be forwarded in pack order; found %s' % fn.expr(c['id']))
            if not must_pass(fn, [c['id']]):
                msgs.append('the forwarding call is not reached on every path')
            R.check(not msgs, 'A3-apply-forwards-range-and-handlers', 'osmium::apply(%s)#forward' % kind, fn.site, '; '.join(msgs))
        else:
            R.broken('%s: neither an apply_impl nor an apply forwarding call (%d/%d)' % (fn.full, len(impl), len(fwd)))


# ================================================================================================ ItemIterator

ITIT = 'osmium::memory::ItemIterator'


def _field_assigns(fn, field):
    """assignment nodes (builtin `=` or operator= call) whose left side is this->field"""
    out = []
    for n in fn.all_nodes():
        if n.get('k') == 'assign' and n.get('op', '=') == '=' and xroot(fn, n['lhs'], free_calls=False) == ('field', field):
            l = fn.sn(n['lhs'])
            if l is not None and l.get('k') == 'member':
                out.append((n, n['rhs']))
        elif n.get('k') == 'call' and n.get('op') == '=' and n.get('recv') is not None and n.get('args'):
            l = fn.sn(n['recv'])
            if l is not None and l.get('k') == 'member' and fn.is_this_member(n['recv'], field):
                out.append((n, n['args'][0]))
    return out


def _conjuncts(fn, nid, sense=True):
    """literals (node id, sense) of a condition that are all implied when it evaluates to `sense`"""
    n = fn.sn(nid)
    if n is not None and n.get('k') == 'binop' and ((n['op'] == '&&' and sense) or (n['op'] == '||' and not sense)):
        return _conjuncts(fn, n['lhs'], sense) + _conjuncts(fn, n['rhs'], sense)
    if n is not None and n.get('k') == 'unop' and n['op'] == '!':
        return _conjuncts(fn, n['sub'], not sense)
    return [(nid, sense)]


def _resolve_bool(fb, fn, nid, sense, depth=0):
    """Follow `!`, named bool locals and single-return boolean helper members (called on *this) down to the deciding
    expression: returns (function, node id, sense)."""
    n = fn.sn(nid)
    if n is None or depth > 8:
        return fn, nid, sense
    k = n.get('k')
    if k == 'unop' and n.get('op') == '!':
        return _resolve_bool(fb, fn, n['sub'], not sense, depth + 1)
    if k == 'var' and n.get('vk') == 'local':
        init = _single_init(fn, n['d'])
        if init is not None:
            return _resolve_bool(fb, fn, init, sense, depth + 1)
    if k == 'call' and 'u' in n and n.get('op') is None and not n.get('args') and fn.cls and n.get('rcls') == fn.cls:
        if n.get('recv') is None or (xroot(fn, n['recv'], free_calls=False) or (None,))[0] == 'this':
            for g in fb.by_usr.get(n['u'], []):
                if g.clsT != fn.clsT or not g.has_cfg or g.loops:
                    continue
                rets = [x for x in g.all_nodes() if x.get('k') == 'return' and 'sub' in x]
                if len(rets) == 1:
                    return _resolve_bool(fb, g, rets[0]['sub'], sense, depth + 1)
    return fn, nid, sense


def itemiterator_rules(fb, R, O):
    TIC = 'osmium::memory::detail::type_is_compatible'

    def is_step(g, n):
        # data = <item at data>->next()
        if n.get('k') != 'assign':
            return False
        r = g.sn(n['rhs'])
        if r is None or r.get('k') != 'call' or r.get('q') != 'osmium::memory::Item::next' or r.get('recv') is None:
            return False
        l = xroot(g, n['lhs'], free_calls=False)
        return l is not None and l[0] == 'field' and xroot(g, r['recv'], free_calls=False) == l

    def step_field(g, nid, depth=0):
        n = g.nodes[nid]
        if is_step(g, n):
            return xroot(g, n['lhs'], free_calls=False)[1]
        for h in fb.by_usr.get(n.get('u'), []):
            if h.clsT == g.clsT and depth < 3:
                for x in carriers(fb, h, is_step):
                    return step_field(h, x, depth + 1)
        return None

    # the type filter = the member function(s) with a loop that steps from item to item (whatever it is called)
    adv = []
    for f in fb.functions:
        if f.cls == ITIT and not f.is_lambda and f.has_cfg and f.loops:
            st = [x for x in carriers(fb, f, is_step) if any(f.in_range(x, l['b'], l['e']) for l in f.loops)]
            if st:
                adv.append((f, st))
    if not adv:
        R.broken('no member function of ItemIterator loops over `data = item->next()`: the type filter cannot be located')
        return
    filter_usrs = {f.usr for (f, _s) in adv}

    def enters_filter(g, n):
        return n.get('k') == 'call' and n.get('u') in filter_usrs

    for fn, st in adv:
        key = '%s::%s#skip-predicate' % (ITIT, 'advance_to_next_item_of_right_type' if len(adv) == 1 else fn.name)
        tmember = strip_const(fn.cls_targs[0]) if fn.cls_targs else None
        msgs = []
        if len(fn.loops) != 1 or len(st) != 1 or step_field(fn, st[0]) is None:
            R.broken('%s: expected one loop with one `data = item->next()` step (loops=%d, steps=%d)' % (fn.full, len(fn.loops), len(st)))
            continue
        step, dataf = fn.nodes[st[0]], step_field(fn, st[0])
        neq_end = False
        filt = None          # (function, call node) of the deciding type_is_compatible call with the right sense
        filt_any = None
        for (c, sense, _b) in guards_of(fn, step['id']):
            g, x_id, s2 = _resolve_bool(fb, fn, c, sense)
            x = g.sn(x_id)
            if x is None:
                continue
            p = _cmp_parts(g, x_id)
            if p is not None:
                a, b = xroot(g, p[1], free_calls=False), xroot(g, p[2], free_calls=False)
                if ('field', dataf) in (a, b) and a != b and a and b and a[0] == b[0] == 'field' and (p[0] == '!=') == bool(s2):
                    neq_end = True
            if x.get('k') == 'call' and x.get('q') == TIC:
                filt_any = (g, x)
                if not s2:
                    filt = (g, x)
        if not neq_end:
            msgs.append('the skip loop is not guarded by `data != end`')
        if filt is None:
            msgs.append('the skip loop does not continue on `!type_is_compatible<TMember>(type)`')
            if filt_any is None:
                # the predicate may still be called somewhere in the class: keep deciding what it delegates to
                for h in fb.functions:
                    if h.cls == ITIT and h.clsT == fn.clsT:
                        for n in h.all_nodes():
                            if n.get('k') == 'call' and n.get('q') == TIC:
                                filt_any = (h, n)
            filt = filt_any
        if filt is not None:
            g, fc = filt
            cal = fb.by_usr.get(fc.get('u'), [])
            targ = strip_const(cal[0].targs[0]) if cal and cal[0].targs else None
            if targ != tmember:
                msgs.append('type_is_compatible is instantiated for %s, the iterator\'s member type is %s' % (targ, tmember))
            a = g.sn(fc['args'][0]) if fc.get('args') else None
            if not (a is not None and a.get('k') == 'call' and a.get('q') == 'osmium::memory::Item::type' and
                    xroot(g, a['recv'], free_calls=False) == ('field', dataf)):
                msgs.append('the type tested is not the type() of the item at the data pointer')
            for h in cal:
                rets = [n for n in h.all_nodes() if n.get('k') == 'return' and 'sub' in n]
                ok = False
                if len(rets) == 1:
                    r = h.sn(rets[0]['sub'])
                    eff = O._effective_compat_fn(targ) if targ else None
                    ok = (r is not None and r.get('k') == 'call' and name_of(r.get('q', '')) == 'is_compatible_to' and
                          eff is not None and r.get('u') == eff.usr and len(r.get('args', [])) == 1 and
                          (xroot(h, r['args'][0]) or (None, None))[:2] == ('param', 0))
                R.check(ok, 'I1-itemiterator-skip-predicate', 'osmium::memory::detail::type_is_compatible#delegates', h.site,
                        'type_is_compatible<T>(t) must return T::is_compatible_to(t) for its own T (%s)' % targ)
        R.check(not msgs, 'I1-itemiterator-skip-predicate', key, fn.site, '; '.join(msgs))
    # I2: constructor and operator++ run the filter
    n_ctor = n_inc = 0
    for fn in fb.fns(ITIT + '::(ctor)'):
        if len(fn.params) != 2 or split_ref(fn.params[0]['tC'])[0].startswith(ITIT):
            continue
        n_ctor += 1
        calls = carriers(fb, fn, enters_filter)
        R.check(bool(calls) and must_pass(fn, calls), 'I2-itemiterator-filters-on-every-move', ITIT + '::(ctor)(data, end)#filter', fn.site,
                'the (data, end) constructor must run the type filter (the member function that skips items for which '
                'type_is_compatible<TMember> is false) on every path, otherwise the first item is delivered whatever its type')
    for fn in fb.fns(ITIT + '::operator++'):
        if fn.params:
            continue
        n_inc += 1
        calls = carriers(fb, fn, enters_filter)
        steps = [x for x in carriers(fb, fn, is_step) if x not in calls]
        ok = len(steps) == 1 and must_pass(fn, steps)
        msg = 'operator++ must step to the next item exactly once'
        if ok:
            w = normal_exit_avoiding(fn, steps[0], calls)
            ok = bool(calls) and w is None
            msg = 'after stepping to the next item operator++ must run the type filter on every path'
        R.check(ok, 'I2-itemiterator-filters-on-every-move', ITIT + '::operator++()#filter', fn.site, msg)
    if n_ctor == 0 or n_inc == 0:
        R.broken('ItemIterator (data,end) constructor (%d) or prefix operator++ (%d) not instantiated' % (n_ctor, n_inc))


# ================================================================================================ DiffIterator / DiffObject

DIT = 'osmium::DiffIterator'
DOBJ = 'osmium::DiffObject'


def _deref_sub(fn, nid):
    """operand of a dereference (`*x` builtin or operator*), else None"""
    n = fn.sn(nid)
    if n is None:
        return None
    if n.get('k') == 'call' and n.get('op') == '*' and n.get('recv') is not None and not n.get('args'):
        return n['recv']
    if n.get('k') == 'unop' and n.get('op') == '*':
        return n['sub']
    return None


def _this_field(fn, nid):
    r = fn.sn(nid)
    if r is not None and r.get('k') == 'member' and fn.is_this_member(nid):
        return r['name']
    return None


def _disjuncts(fn, nid):
    n = fn.sn(nid)
    if n is not None and n.get('k') == 'binop' and n['op'] == '||':
        return _disjuncts(fn, n['lhs']) + _disjuncts(fn, n['rhs'])
    return [nid]


def _cmp_parts(fn, nid):
    """(op, lhs id, rhs id) of an ==/!= comparison (builtin or overloaded), else None"""
    n = fn.sn(nid)
    if n is None:
        return None
    if n.get('k') == 'binop' and n['op'] in ('==', '!='):
        return n['op'], n['lhs'], n['rhs']
    if n.get('k') == 'call' and n.get('op') in ('==', '!='):
        if n.get('recv') is not None and len(n.get('args', [])) == 1:
            return n['op'], n['recv'], n['args'][0]
        if n.get('recv') is None and len(n.get('args', [])) == 2:
            return n['op'], n['args'][0], n['args'][1]
    return None


def _classify_disjunct(fn, nid):
    """classification of a condition that normalises to ONE atom (negations, named locals, boolean helpers expanded)"""
    atoms = _norm_disjuncts(fn.fb, _Cx(fn), nid)
    if len(atoms) != 1:
        return None
    return _classify_atom(*atoms[0])


def _cond_expr(fn, nid):
    """a condition given as a local bool variable is replaced by its initialiser"""
    n = fn.sn(nid)
    if n is not None and n.get('k') == 'var' and n.get('vk') == 'local':
        for d in fn.all_nodes():
            if d.get('k') == 'decl':
                for v in d['vars']:
                    if v['d'] == n['d'] and isinstance(v.get('init'), int):
                        return v['init']
    return nid


class _Cx:
    """an expression context: a function body plus the binding of its parameters to caller expressions (inlined helper)"""
    __slots__ = ('fn', 'env')

    def __init__(self, fn, env=None):
        self.fn = fn
        self.env = env or {}


def _cx_exact_field(cx, nid):
    """name of the this-member the expression IS (looking through helper parameters bound to caller expressions)"""
    n = cx.fn.sn(nid)
    if n is None:
        return None
    if n.get('k') == 'member' and cx.fn.is_this_member(nid):
        return n['name']
    if n.get('k') == 'var' and n.get('d') in cx.env:
        c2, a2 = cx.env[n['d']]
        return _cx_exact_field(c2, a2)
    return None


def _cx_root_field(cx, nid):
    """name of the this-member at the root of an access chain (it->f(), *it, ...), through helper parameters"""
    r = xroot(cx.fn, nid, free_calls=False)
    if r is None:
        return None
    if r[0] == 'field':
        return r[1]
    if r[0] == 'param':
        d = cx.fn.params[r[1]]['d']
        if d in cx.env:
            c2, a2 = cx.env[d]
            return _cx_root_field(c2, a2)
    return None


def _norm_disjuncts(fb, cx, nid, neg=False, depth=0):
    """The condition as an ordered list of atoms (cx, node id, negated) whose disjunction it is: `||` chains, `!` and
    De Morgan on negated `&&`, named bool locals and calls of boolean helper functions (single return) are expanded;
    evaluation order (short circuit) is preserved."""
    fn = cx.fn
    n = fn.sn(nid)
    if n is None or depth > 12:
        return [(cx, nid, neg)]
    k = n.get('k')
    if k == 'unop' and n.get('op') == '!':
        return _norm_disjuncts(fb, cx, n['sub'], not neg, depth + 1)
    if k == 'binop' and ((n['op'] == '||' and not neg) or (n['op'] == '&&' and neg)):
        return _norm_disjuncts(fb, cx, n['lhs'], neg, depth + 1) + _norm_disjuncts(fb, cx, n['rhs'], neg, depth + 1)
    if k == 'var' and n.get('vk') == 'local':
        init = _single_init(fn, n['d'])
        if init is not None:
            return _norm_disjuncts(fb, cx, init, neg, depth + 1)
    if k == 'var' and n.get('d') in cx.env:
        c2, a2 = cx.env[n['d']]
        return _norm_disjuncts(fb, c2, a2, neg, depth + 1)
    if k == 'call' and 'u' in n and n.get('op') is None:
        for g in fb.by_usr.get(n['u'], []):
            if not g.has_cfg or len(g.params) != len(n.get('args', [])) or g.retC not in ('bool', '_Bool'):
                continue
            rets = [x for x in g.all_nodes() if x.get('k') == 'return' and 'sub' in x]
            if len(rets) != 1 or g.loops:
                continue
            env = {p['d']: (cx, a) for p, a in zip(g.params, n['args'])}
            if n.get('recv') is None or (xroot(fn, n['recv'], free_calls=False) or (None,))[0] != 'this':
                if not g.static:
                    continue  # a member helper on another object: its fields are not ours
            return _norm_disjuncts(fb, _Cx(g, env), rets[0]['sub'], neg, depth + 1)
    return [(cx, nid, neg)]


def enum_paths_safe(g):
    try:
        return enum_paths(g, g.entry)
    except Shape:
        return []


def _classify_atom(cx, nid, neg):
    """('eq'|'neq-iter', fieldA, fieldB) for iterator (in)equality, ('ne'|'eq-acc', accessor, fieldA, fieldB) for
    `a->f() != b->f()` / `==`; None for anything else."""
    fn = cx.fn
    p = _cmp_parts(fn, nid)
    if p is None:
        return None
    op, l, r = p
    if neg:
        op = '!=' if op == '==' else '=='
    fl, fr = _cx_exact_field(cx, l), _cx_exact_field(cx, r)
    if fl and fr:
        return ('eq' if op == '==' else 'neq-iter', fl, fr)
    a, b = fn.sn(l), fn.sn(r)
    if (a is not None and b is not None and a.get('k') == 'call' and b.get('k') == 'call' and 'q' in a and a.get('q') == b.get('q')
            and not a.get('args') and not b.get('args') and a.get('recv') is not None and b.get('recv') is not None):
        ra, rb = _cx_root_field(cx, a['recv']), _cx_root_field(cx, b['recv'])
        if ra and rb:
            return ('ne' if op == '!=' else 'eq-acc', name_of(a['q']), ra, rb)
    return None


def _increments_of(fn, pred):
    out = []
    for n in fn.all_nodes():
        if n.get('k') == 'call' and n.get('op') == '++' and n.get('recv') is not None and pred(n['recv']):
            out.append(n)
        elif n.get('k') == 'unop' and n.get('op') == '++' and pred(n['sub']):
            out.append(n)
    return out


def _x2_check(fb, R, top, fn, X, C, Y, E, k0, depth):
    """X2 on function fn (operator++ itself, or the private helper it unconditionally delegates to)."""
    def assigns(f, src):
        return lambda g, n: any(x is n and xroot(g, rhs) == ('field', src) for (x, rhs) in _field_assigns(g, f))

    def any_assign(f):
        return lambda g, n: any(x is n for (x, _r) in _field_assigns(g, f))

    def is_inc(g, n):
        if n.get('k') == 'call' and n.get('op') == '++' and n.get('recv') is not None:
            return _this_field(g, n['recv']) == Y
        return n.get('k') == 'unop' and n.get('op') == '++' and _this_field(g, n['sub']) == Y

    direct = [n for n in fn.all_nodes() if any_assign(X)(fn, n) or any_assign(C)(fn, n) or is_inc(fn, n)]
    if not direct and depth < 3:
        # everything lives in a helper: follow the (single, unconditional) delegation
        hs = [x for x in set(carriers(fb, fn, any_assign(C), mode='may') + carriers(fb, fn, is_inc, mode='may'))]
        if len(hs) == 1 and must_pass(fn, hs):
            for g in fb.by_usr.get(fn.nodes[hs[0]].get('u'), []):
                if g.clsT == fn.clsT:
                    return _x2_check(fb, R, top, g, X, C, Y, E, k0, depth + 1)
    ax = carriers(fb, fn, assigns(X, C))
    ac = carriers(fb, fn, assigns(C, Y))
    all_x = carriers(fb, fn, any_assign(X), mode='may')
    all_c = carriers(fb, fn, any_assign(C), mode='may')
    ay = carriers(fb, fn, any_assign(Y), mode='may')
    ae = carriers(fb, fn, any_assign(E), mode='may')
    msgs = []
    if len(ax) != 1 or len(all_x) != 1:
        msgs.append('%s must be assigned exactly once, from %s' % (X, C))
    if len(ac) != 1 or len(all_c) != 1:
        msgs.append('%s must be assigned exactly once, from %s' % (C, Y))
    if ay or ae:
        msgs.append('%s / %s must not be assigned' % (Y, E))
    if not msgs:
        if ax[0] == ac[0] or not fn.elem_dominates(ax[0], ac[0]):
            msgs.append('`%s = %s` must execute before `%s = %s` (otherwise prev receives the new curr)' % (X, C, C, Y))
        if not (must_pass(fn, [ax[0]]) and must_pass(fn, [ac[0]])):
            msgs.append('the shift is skipped on some path')
    R.check(not msgs, 'X2-increment-shifts-prev-curr-next', k0 + '#shift', top.site, '; '.join(msgs))
    # the guarded advance: in fn itself or in a helper that fn calls unconditionally after the shift
    host, after = fn, (ac[0] if len(ac) == 1 else None)
    incs = [n for n in fn.all_nodes() if is_inc(fn, n)]
    msgs = []
    hops = 0
    while not incs and hops < 3:
        hops += 1
        hs = carriers(fb, host, is_inc, mode='may')
        if len(hs) != 1:
            break
        if not must_pass(host, hs) or (after is not None and not host.elem_dominates(after, hs[0])):
            msgs.append('the advance of %s is not reached unconditionally after `%s = %s`' % (Y, C, Y))
        g = next((g for g in fb.by_usr.get(host.nodes[hs[0]].get('u'), []) if g.clsT == host.clsT), None)
        if g is None:
            break
        host, after = g, None
        incs = [n for n in host.all_nodes() if is_inc(host, n)]
    if len(incs) != 1:
        msgs.append('%s must be advanced at exactly one place (found %d)' % (Y, len(incs)))
    else:
        inc = incs[0]
        g_ok = False
        for (c, sense, _b) in guards_of(host, inc['id']):
            d = _classify_disjunct(host, c)
            if d is not None and d[0] in ('eq', 'neq-iter') and set(d[1:]) == {Y, E} and ((d[0] == 'neq-iter') == bool(sense)):
                g_ok = True
        if not g_ok:
            msgs.append('`++%s` must be guarded by `%s != %s`' % (Y, Y, E))
        if after is not None and not host.elem_dominates(after, inc['id']):
            msgs.append('`++%s` must come after `%s = %s`' % (Y, C, Y))

        def edge_ok(b, idx, s, fn=host):
            blk = fn.blocks[b]
            if 'cond' in blk and len(blk['succs']) == 2:
                d = _classify_disjunct(fn, blk['cond'])
                if d is not None and d[0] in ('eq', 'neq-iter') and set(d[1:]) == {Y, E}:
                    at_end_edge = 0 if d[0] == 'eq' else 1
                    if idx == at_end_edge:
                        return False
            return True
        if normal_exit_avoiding(host, host.entry, [inc['id']], from_block_start=True, edge_ok=edge_ok) is not None:
            msgs.append('a path on which %s is not at the end leaves without advancing %s' % (Y, Y))
    R.check(not msgs, 'X2-increment-advances-next-unless-at-end', k0 + '#advance-guard', top.site, '; '.join(msgs))


def _value_field(fn, nid):
    """this-member an expression denotes, directly (`m_x`) or by address (`&m_x`)"""
    n = fn.sn(nid)
    if n is not None and n.get('k') == 'unop' and n.get('op') == '&':
        return _this_field(fn, n['sub'])
    return _this_field(fn, nid)


def _select_form(fn, nid, use_id):
    """(condition id, member chosen when the condition is true, member chosen otherwise) for an expression that selects one
    of two members: a ternary `c ? m_a : m_b`, or a local (value, reference or pointer, possibly dereferenced once more)
    that is initialised with one member and conditionally re-assigned (`x = &m_b; if (c) x = &m_a;`), or assigned in both
    branches of an if/else.  None if the expression is not such a selection."""
    s = resolve_alias(fn, nid)
    if s is None:
        return None
    if s.get('k') == 'condop':
        return (s['cond'], _value_field(fn, s['then']), _value_field(fn, s['else']))
    # pointer local: `*p`
    inner = _deref_sub(fn, s['id']) if s.get('k') in ('unop', 'call') else None
    if inner is not None:
        s = resolve_alias(fn, inner)
        if s is not None and s.get('k') == 'condop':
            return (s['cond'], _value_field(fn, s['then']), _value_field(fn, s['else']))
    if s is None or s.get('k') != 'var' or s.get('vk') != 'local':
        return None
    d = s['d']
    decl = init = None
    writes = []
    for n in fn.all_nodes():
        k = n.get('k')
        if k == 'decl':
            for v in n['vars']:
                if v['d'] == d:
                    decl = n
                    init = v.get('init') if isinstance(v.get('init'), int) else None
        elif k == 'assign' and n.get('op', '=') == '=':
            l = fn.sn(n['lhs'])
            if l is not None and l.get('k') == 'var' and l.get('d') == d:
                writes.append((n['id'], n['rhs']))
        elif k == 'call' and n.get('op') == '=' and n.get('recv') is not None and n.get('args'):
            l = fn.sn(n['recv'])
            if l is not None and l.get('k') == 'var' and l.get('d') == d:
                writes.append((n['id'], n['args'][0]))
        elif k == 'unop' and n.get('op') in ('++', '--'):
            l = fn.sn(n['sub'])
            if l is not None and l.get('k') == 'var' and l.get('d') == d:
                return None
    if decl is None or not writes or len(writes) > 2:
        return None
    base = {(c, sn, b) for (c, sn, b) in guards_of(fn, decl['id'])}

    def own_guard(w):
        g = [(c, sn, b) for (c, sn, b) in guards_of(fn, w) if (c, sn, b) not in base]
        blocks = {b for (_c, _s, b) in g}
        if len(blocks) != 1:
            return None
        return g[0][0], g[0][1]     # the whole condition of that branch comes first
    for (w, _r) in writes:
        if not fn.elem_dominates(decl['id'], w):
            return None
        # the write must be able to reach the use, and the use must not come before it
        if path_search(fn, use_id, lambda e: e == w, lambda e: False) is not None:
            return None
    if len(writes) == 1 and init is not None:
        g = own_guard(writes[0][0])
        if g is None:
            return None
        a, b = _value_field(fn, writes[0][1]), _value_field(fn, init)
        return (g[0], a, b) if g[1] else (g[0], b, a)
    if len(writes) == 2 and init is None:
        g1, g2 = own_guard(writes[0][0]), own_guard(writes[1][0])
        if g1 is None or g2 is None or fn.expr(g1[0]) != fn.expr(g2[0]) or g1[1] == g2[1]:
            return None
        t, e = (writes[0][1], writes[1][1]) if g1[1] else (writes[1][1], writes[0][1])
        return (g1[0], _value_field(fn, t), _value_field(fn, e))
    return None


def diffiterator_rules(fb, R, O):
    roles = {}
    def builds_diff(g, n):
        return n.get('k') == 'construct' and n.get('q') == DOBJ + '::(ctor)' and len(n.get('args', [])) == 3

    sds = [f for f in fb.functions if f.cls == DIT and not f.is_lambda and any(builds_diff(f, n) for n in f.all_nodes())]
    if not sds:
        R.broken('no member function of DiffIterator builds a DiffObject{prev, curr, next}')
        return
    for fn in sds:
        k0 = '%s::%s' % (DIT, fn.name)
        cons = [n for n in fn.all_nodes() if n.get('k') == 'construct' and n.get('q') == DOBJ + '::(ctor)' and len(n.get('args', [])) == 3]
        if len(cons) != 1:
            R.broken('%s: expected one DiffObject{prev, curr, next} construction, found %d' % (fn.full, len(cons)))
            continue
        con = cons[0]
        subs = [_deref_sub(fn, a) for a in con['args']]
        c_n = resolve_alias(fn, subs[1]) if subs[1] is not None else None
        C = c_n['name'] if c_n is not None and c_n.get('k') == 'member' and fn.is_this_member(c_n['id']) else None
        sides = []
        for i in (0, 2):
            sides.append(_select_form(fn, subs[i], con['id']) if subs[i] is not None else None)
        ok = C is not None and all(sd is not None and sd[1] == C and sd[2] not in (None, C) for sd in sides) and sides[0][2] != sides[1][2]
        R.check(ok, 'X1-set_diff-construct', k0 + '#construct', fn.loc(con['id']),
                'the DiffObject must be built from (*(c1 ? curr : prev), *curr, *(c2 ? curr : next)); found %s' % fn.expr(con['id']))
        if not ok:
            # keep going with the roles if they can still be told apart (arms swapped): the dependent rules stay decidable
            others = []
            for sd in sides:
                o = [f for f in (sd[1:] if sd is not None else ()) if f not in (None, C)]
                others.append(o[0] if len(o) == 1 else None)
            if C is None or None in others or others[0] == others[1]:
                continue
            sides = [(sides[0][0], C, others[0]), (sides[1][0], C, others[1])]
        X, Y = sides[0][2], sides[1][2]
        dp = [_classify_atom(*a) for a in _norm_disjuncts(fb, _Cx(fn), sides[0][0])]
        dn = [_classify_atom(*a) for a in _norm_disjuncts(fb, _Cx(fn), sides[1][0])]
        if None in dp or None in dn:
            R.broken('%s: a disjunct of the prev/next condition is not an iterator or accessor comparison' % fn.full)
            continue
        # end guard
        E = None
        eg = [d for d in dn if d[0] == 'eq']
        msg = None
        if len(eg) != 1 or Y not in eg[0][1:] or set(eg[0][1:]) & {X, C}:
            msg = 'the condition for `next` must contain exactly one test `%s == <end>`' % Y
        else:
            E = [f for f in eg[0][1:] if f != Y][0] if eg[0][1] != eg[0][2] else None
            if E is None:
                msg = 'the end test compares %s with itself' % Y
            elif dn[0] != eg[0]:
                msg = 'the end test `%s == %s` must be evaluated before %s is dereferenced (it is not the first disjunct)' % (Y, E, Y)
        if any(d[0] == 'eq' for d in dp) and msg is None:
            pass  # an (unnecessary) end test on prev is harmless
        R.check(msg is None, 'X1-set_diff-end-guard', k0 + '#end-guard', fn.site, msg)
        # mirror
        ap = sorted((d[1], frozenset(d[2:])) for d in dp if d[0] == 'ne')
        an = sorted((d[1], frozenset(d[2:])) for d in dn if d[0] == 'ne')
        odd = [d for d in dp + dn if d[0] not in ('ne', 'eq')]
        msgs = []
        if odd:
            msgs.append('unexpected comparison kind %s' % odd)
        if any(fs != frozenset((X, C)) for (_a, fs) in ap):
            msgs.append('the prev condition must compare %s with %s: %s' % (X, C, [(a, sorted(f)) for a, f in ap]))
        if any(fs != frozenset((Y, C)) for (_a, fs) in an):
            msgs.append('the next condition must compare %s with %s: %s' % (Y, C, [(a, sorted(f)) for a, f in an]))
        accp, accn = {a for a, _f in ap}, {a for a, _f in an}
        if accp != accn:
            msgs.append('prev compares %s, next compares %s: the two conditions are not mirror images' % (sorted(accp), sorted(accn)))
        for nm in ('type', 'id'):
            if nm not in accp or nm not in accn:
                msgs.append('both conditions must compare %s() (same object = same type and same id)' % nm)
        R.check(not msgs, 'X1-set_diff-mirror', k0 + '#mirror', fn.site, '; '.join(msgs))
        if E is not None:
            roles[fn.clsT] = (X, C, Y, E)
    if not roles:
        R.broken('DiffIterator: member roles (prev, curr, next, end) could not be derived from set_diff')
        return

    # ---- X2 operator++
    n_inc = 0
    for fn in fb.fns(DIT + '::operator++'):
        if fn.params or fn.clsT not in roles:
            continue
        n_inc += 1
        X, C, Y, E = roles[fn.clsT]
        k0 = DIT + '::operator++()'
        _x2_check(fb, R, fn, fn, X, C, Y, E, k0, 0)
    if n_inc == 0:
        R.broken('DiffIterator::operator++() not instantiated')

    # ---- X3 constructor
    n_ctor = 0
    for fn in fb.fns(DIT + '::(ctor)'):
        if len(fn.params) != 2 or fn.clsT not in roles or split_ref(fn.params[0]['tC'])[0] == fn.clsT:
            continue
        if split_ref(fn.params[0]['tC'])[0].startswith(DIT + '<'):
            continue
        n_ctor += 1
        X, C, Y, E = roles[fn.clsT]
        inits = {n['name']: n for n in fn.all_nodes() if n.get('k') == 'init' and 'name' in n and isinstance(n.get('init'), int)}
        incs = _increments_of(fn, lambda x: (xroot(fn, x, free_calls=False) or (None, None))[:2] == ('param', 0))
        msgs = []
        for f in (X, C):
            n = inits.get(f)
            if n is None or (xroot(fn, n['init']) or (None, None))[:2] != ('param', 0) or any(i['id'] in fn.subtree(n['init']) for i in incs):
                msgs.append('%s must be initialised with the un-advanced `begin`' % f)
            elif any(not fn.elem_dominates(n['id'], i['id']) for i in incs):
                msgs.append('%s is initialised after `begin` has been advanced (member declaration order decides the initialisation '
                            'order): prev/curr would start at the second object' % f)
        n = inits.get(E)
        if n is None or (xroot(fn, n['init']) or (None, None))[:2] != ('param', 1):
            msgs.append('%s must be initialised with `end`' % E)
        n = inits.get(Y)
        good = False
        if n is not None and len(incs) == 1:
            for x in fn.subtree(n['init']):
                nx = fn.nodes[x]
                if nx.get('k') == 'condop':
                    d = _cmp_parts(fn, nx['cond'])
                    if d is None:
                        continue
                    ends = {(xroot(fn, d[1]) or (None, None))[:2], (xroot(fn, d[2]) or (None, None))[:2]}
                    t_same, e_same = (nx['then'], nx['else']) if d[0] == '==' else (nx['else'], nx['then'])
                    good = (ends == {('param', 0), ('param', 1)} and
                            (xroot(fn, t_same) or (None, None))[:2] == ('param', 0) and incs[0]['id'] not in fn.subtree(t_same) and
                            incs[0]['id'] in fn.subtree(e_same))
        if not good and n is not None and not incs:
            # equivalent form: next starts as a copy of begin and is advanced in the constructor body unless at the end
            if (xroot(fn, n['init']) or (None, None))[:2] == ('param', 0):
                yinc = _increments_of(fn, lambda x: _this_field(fn, x) == Y)
                if len(yinc) == 1:
                    g_ok = False
                    for (c, sense, _b) in guards_of(fn, yinc[0]['id']):
                        p = _cmp_parts(fn, c)
                        if p is None or ((p[0] == '!=') != bool(sense)):
                            continue
                        ends = set()
                        for side in (p[1], p[2]):
                            f = _this_field(fn, side)
                            ends.add(('field', f) if f else (xroot(fn, side) or (None, None))[:2])
                        if ends in ({('field', Y), ('field', E)}, {('param', 0), ('param', 1)}, {('field', Y), ('param', 1)}):
                            g_ok = True

                    def edge_ok(b, idx, s, fn=fn):
                        blk = fn.blocks[b]
                        if 'cond' in blk and len(blk['succs']) == 2:
                            p = _cmp_parts(fn, blk['cond'])
                            if p is not None:
                                return idx != (0 if p[0] == '==' else 1)
                        return True
                    good = g_ok and normal_exit_avoiding(fn, fn.entry, [yinc[0]['id']], from_block_start=True, edge_ok=edge_ok) is None
        if not good:
            msgs.append('%s must be initialised with `begin == end ? begin : ++begin`' % Y)
        R.check(not msgs, 'X3-constructor-snapshot-order', DIT + '::(ctor)(begin, end)#init', fn.site, '; '.join(msgs))
    if n_ctor == 0:
        R.broken('DiffIterator(begin, end) constructor not instantiated')

    # ---- X4 dereference / equality
    for opn in ('operator*', 'operator->'):
        for fn in fb.fns(DIT + '::' + opn):
            if fn.params:
                continue
            calls = carriers(fb, fn, builds_diff)
            rets = [n['id'] for n in fn.all_nodes() if n.get('k') == 'return']
            ok = bool(calls) and must_pass(fn, calls) and all(any(fn.elem_dominates(c, r) for c in calls) for r in rets)
            R.check(ok, 'X4-deref-refreshes-diff', '%s::%s#set_diff' % (DIT, opn), fn.site,
                    '%s must rebuild the DiffObject (set_diff) before returning the cached one (otherwise the previous position\'s object is returned)' % opn)
    for fn in fb.fns(DIT + '::operator=='):
        if fn.clsT not in roles or len(fn.params) != 1:
            continue
        X, C, Y, E = roles[fn.clsT]
        rets = [n for n in fn.all_nodes() if n.get('k') == 'return' and 'sub' in n]
        ok = False
        if len(rets) == 1:
            for (c, sense) in _conjuncts(fn, rets[0]['sub']):
                p = _cmp_parts(fn, c)
                if p is None or not sense or p[0] != '==':
                    continue
                sides = []
                for s in (p[1], p[2]):
                    m = fn.sn(s)
                    if m is not None and m.get('k') == 'member' and m.get('name') == C:
                        sides.append((xroot(fn, m['base'], free_calls=False) or ('?',))[0] if not fn.is_this_member(s) else 'this')
                if sorted(sides) == ['param', 'this']:
                    ok = True
        R.check(ok, 'X4-equality-on-current-position', DIT + '::operator==#curr', fn.site,
                'operator== must compare the %s members (loop termination `dit != dend` is decided on the current position)' % C)


def diffobject_rules(fb, R, O):
    ctors = [f for f in fb.fns(DOBJ + '::(ctor)') if len(f.params) == 3]
    if len(ctors) < 1:
        R.broken('DiffObject(prev, curr, next) constructor not found')
        return
    fn = ctors[0]
    F = [None, None, None]
    for n in fn.all_nodes():
        if n.get('k') == 'init' and 'name' in n and isinstance(n.get('init'), int):
            s = fn.sn(n['init'])
            if s is not None and s.get('k') == 'unop' and s['op'] == '&':
                r = xroot(fn, s['sub'], free_calls=False)
                if r is not None and r[0] == 'param' and F[r[1]] is None:
                    F[r[1]] = n['name']
    ok = None not in F and len(set(F)) == 3
    R.check(ok, 'X5-diffobject-roles', DOBJ + '::(ctor)#stores', fn.site,
            'DiffObject(prev, curr, next) must store the address of each parameter in its own member (found %s)' % F)
    if not ok:
        return
    want = {'prev': F[0], 'curr': F[1], 'next': F[2]}
    for nm, fld in want.items():
        for g in fb.fns('%s::%s' % (DOBJ, nm)):
            rets = [n for n in g.all_nodes() if n.get('k') == 'return' and 'sub' in n]
            good = len(rets) == 1 and _this_field(g, _deref_sub(g, rets[0]['sub'])) == fld if rets and _deref_sub(g, rets[0]['sub']) is not None else False
            R.check(good, 'X5-diffobject-roles', '%s::%s#returns' % (DOBJ, nm), g.site,
                    '%s() must return *%s (the member the constructor fills from its `%s` parameter)' % (nm, fld, nm))
    for nm, pair in (('first', {F[0], F[1]}), ('last', {F[1], F[2]})):
        for g in fb.fns('%s::%s' % (DOBJ, nm)):
            rets = [n for n in g.all_nodes() if n.get('k') == 'return' and 'sub' in n]
            good = False
            if len(rets) == 1:
                p = _cmp_parts(g, rets[0]['sub'])
                good = p is not None and p[0] == '==' and {_this_field(g, p[1]), _this_field(g, p[2])} == pair
            R.check(good, 'X5-diffobject-roles', '%s::%s#compares' % (DOBJ, nm), g.site,
                    '%s() must be `%s`' % (nm, ' == '.join(sorted(pair))))
    for nm in ('type', 'id', 'version', 'changeset'):
        for g in fb.fns('%s::%s' % (DOBJ, nm)):
            rets = [n for n in g.all_nodes() if n.get('k') == 'return' and 'sub' in n]
            good = False
            if len(rets) == 1:
                c = g.sn(rets[0]['sub'])
                good = (c is not None and c.get('k') == 'call' and name_of(c.get('q', '')) == nm and c.get('recv') is not None and
                        xroot(g, c['recv'], free_calls=False) == ('field', F[1]))
            R.check(good, 'X5-diffobject-roles', '%s::%s#reads-curr' % (DOBJ, nm), g.site, '%s() must return %s->%s()' % (nm, F[1], nm))
    # derived
    DD = 'osmium::DiffObjectDerived'
    nd = 0
    for nm in ('prev', 'curr', 'next'):
        for g in fb.fns('%s::%s' % (DD, nm)):
            nd += 1
            T = g.cls_targs[0] if g.cls_targs else '?'
            rets = [n for n in g.all_nodes() if n.get('k') == 'return' and 'sub' in n]
            good = False
            if len(rets) == 1:
                c = g.sn(rets[0]['sub'])
                if c is not None and c.get('k') == 'cast' and c.get('toC') == 'const %s &' % T:
                    s = g.sn(c['sub'])
                    good = s is not None and s.get('k') == 'call' and s.get('q') == '%s::%s' % (DOBJ, nm)
            R.check(good, 'X5-diffobject-roles', '%s::%s#forwards' % (DD, nm), g.site,
                    'DiffObjectDerived<T>::%s() must return static_cast<const T&>(DiffObject::%s())' % (nm, nm))
    for g in fb.fns(DD + '::(ctor)'):
        if len(g.params) != 3:
            continue
        cons = [n for n in g.all_nodes() if n.get('k') == 'construct' and n.get('q') == DOBJ + '::(ctor)' and len(n.get('args', [])) == 3]
        good = len(cons) == 1 and _roots(g, cons[0]['args']) == [('param', 0), ('param', 1), ('param', 2)]
        R.check(good, 'X5-diffobject-roles', DD + '::(ctor)#forwards', g.site, 'DiffObjectDerived(prev, curr, next) must pass (prev, curr, next) to DiffObject in that order')
    if nd == 0:
        R.broken('DiffObjectDerived accessors not instantiated')


def apply_diff_rules(fb, R, O):
    fns = fb.fns('osmium::apply_diff')
    n_it = 0
    for fn in fns:
        cons = [n for n in fn.all_nodes() if n.get('k') == 'construct' and n.get('q') == DIT + '::(ctor)' and len(n.get('args', [])) == 2]
        if cons:
            n_it += 1
            k = len(fn.params) - 2
            vars_ = {}
            for d in fn.all_nodes():
                if d.get('k') == 'decl':
                    for v in d['vars']:
                        if isinstance(v.get('init'), int):
                            for c in cons:
                                if c['id'] in fn.subtree(v['init']):
                                    vars_[tuple(_roots(fn, c['args']))] = v['d']
            dit = vars_.get((('param', 0), ('param', 1)))
            dend = vars_.get((('param', 1), ('param', 1)))
            msgs = []
            if dit is None or dend is None or len(cons) != 2:
                msgs.append('expected DiffIterator{it, end} and DiffIterator{end, end}; found %s' % [fn.expr(c['id']) for c in cons])
            else:
                def isvar(x, d):
                    r = xroot(fn, x, free_calls=False)
                    return r is not None and r[0] == 'var' and r[1] == d
                rec = [n for n in fn.all_nodes() if n.get('k') == 'call' and n.get('q') == 'osmium::detail::apply_diff_iterator_recurse']
                if len(rec) != 1 or len(fn.loops) != 1 or not fn.in_range(rec[0]['id'], fn.loops[0]['b'], fn.loops[0]['e']):
                    msgs.append('expected exactly one dispatcher call inside one loop')
                else:
                    c = rec[0]
                    a0 = resolve_alias(fn, c['args'][0]) if c.get('args') else None
                    ds = _deref_sub(fn, a0['id']) if a0 is not None else None
                    if ds is None or not isvar(ds, dit) or _roots(fn, c['args'][1:]) != [('param', i) for i in range(2, 2 + k)]:
                        msgs.append('the dispatcher must be called with (*dit, handlers in pack order); found %s' % fn.expr(c['id']))
                    g_ok = False
                    for (cn, sense, _b) in guards_of(fn, c['id']):
                        p = _cmp_parts(fn, cn)
                        if p is not None and ((p[0] == '!=') == bool(sense)) and ((isvar(p[1], dit) and isvar(p[2], dend)) or (isvar(p[2], dit) and isvar(p[1], dend))):
                            g_ok = True
                    if not g_ok:
                        msgs.append('the loop must run while dit != dend')
                    incs = _increments_of(fn, lambda x: isvar(x, dit))
                    if len(incs) != 1 or not fn.in_range(incs[0]['id'], fn.loops[0]['b'], fn.loops[0]['e']):
                        msgs.append('the loop must advance dit exactly once per iteration')
                    elif path_search(fn, c['id'], lambda e: e == c['id'], lambda e: e == incs[0]['id']) is not None:
                        msgs.append('the dispatcher can run again without advancing dit')
            R.check(not msgs, 'X8-apply_diff-range-and-loop', 'osmium::apply_diff(iterator range)#loop', fn.site, '; '.join(msgs))
        else:
            fwd = [n for n in fn.all_nodes() if n.get('k') == 'call' and n.get('q') == 'osmium::apply_diff']
            if len(fwd) != 1:
                R.broken('%s: no DiffIterator and no forwarding call' % fn.full)
                continue
            c = fwd[0]
            k = len(fn.params) - 1
            args = c.get('args', [])
            msgs = []
            if len(args) != 2 + k or _roots(fn, args[2:]) != [('param', i) for i in range(1, 1 + k)]:
                msgs.append('handlers must be forwarded in pack order; found %s' % fn.expr(c['id']))
            else:
                a0, a1 = fn.sn(args[0]), fn.sn(args[1])
                if a0 is not None and a1 is not None and a0.get('k') == 'construct' and a1.get('k') == 'construct' and \
                        a0.get('q', '').startswith('osmium::io::InputIterator') and not _is_copy(fn, a0) :
                    if not (len(a0.get('args', [])) == 1 and (xroot(fn, a0['args'][0]) or (None, None))[:2] == ('param', 0) and not a1.get('args')):
                        msgs.append('the source overload must pass InputIterator{source} and the end iterator InputIterator{}')
                    kind = 'source'
                else:
                    nm = []
                    for a in args[:2]:
                        x = fn.sn(_through_locals(fn, a))
                        hops = 0
                        while x is not None and x.get('k') == 'construct' and len(x.get('args', [])) == 1 and hops < 5:
                            x = fn.sn(x['args'][0])
                            hops += 1
                        nm.append(name_of(x.get('q', x.get('name', '?'))) if x is not None and x.get('k') == 'call' else None)
                    if tuple(nm) not in {('begin', 'end'), ('cbegin', 'cend')} or _roots(fn, args[:2]) != [('param', 0), ('param', 0)]:
                        msgs.append('the range must be (begin, end) or (cbegin, cend) of the buffer parameter; found %s' % (nm,))
                    kind = 'buffer'
                R.check(not msgs, 'X8-apply_diff-range-and-loop', 'osmium::apply_diff(%s)#forward' % kind, fn.site, '; '.join(msgs))
                continue
            R.check(not msgs, 'X8-apply_diff-range-and-loop', 'osmium::apply_diff(container)#forward', fn.site, '; '.join(msgs))
    if n_it == 0:
        R.broken('apply_diff(iterator range) not instantiated')


def _is_copy(fn, n):
    return bool(n.get('copymove')) or bool(n.get('elidable'))


# ================================================================================================ DynamicHandler / ChainHandler

DYN = 'osmium::handler::DynamicHandler'
HWB = 'osmium::handler::detail::HandlerWrapperBase'
HW = 'osmium::handler::detail::HandlerWrapper'


def _single_forward(fn, pred):
    """the one call satisfying pred, executed exactly once on every path; else None"""
    calls = [n for n in fn.all_nodes() if n.get('k') == 'call' and pred(n)]
    if len(calls) != 1:
        return None
    c = calls[0]
    if not must_pass(fn, [c['id']]) or may_repeat(fn, [c['id']]):
        return None
    return c


def dynamic_rules(fb, R, O):
    base = fb.record(HWB)
    if base is None:
        R.broken('record %s not found' % HWB)
        return
    virt = [m for m in base.methods if m.get('virt') and m['kind'] == 'method']
    if not virt:
        R.broken('%s has no virtual callbacks' % HWB)
        return
    dyn = fb.record(DYN)
    hws = fb.records_named(HW)
    if dyn is None or not hws:
        R.broken('DynamicHandler / HandlerWrapper<T> not instantiated')
        return
    for m in virt:
        nm = m['name']
        have = [x for x in dyn.methods if x['name'] == nm and x['params'] == m['params']]
        R.check(bool(have), 'Y2-dynamic-covers-every-virtual-callback', '%s::%s#declared' % (DYN, nm), '%s:%d' % (dyn.file, dyn.line),
                'DynamicHandler has no %s(%s): the inherited no-op of handler::Handler would be called and the wrapped handler '
                'never sees these objects' % (nm, ', '.join(m['params'])))
        for hw in hws:
            ov = [x for x in hw.methods if x['name'] == nm and m['u'] in x.get('overrides', [])]
            R.check(bool(ov), 'Y2-dynamic-covers-every-virtual-callback', '%s::%s#overridden' % (HW, nm), '%s:%d' % (hw.file, hw.line),
                    'HandlerWrapper<T> does not override HandlerWrapperBase::%s' % nm)
        # DynamicHandler::nm forwards to m_impl->nm(param)
        if not fb.fns('%s::%s' % (DYN, nm)):
            if have:
                R.broken('DynamicHandler::%s is declared but has no body in the fact base' % nm)
            else:
                R.bad('Y1-dynamic-forwards-same-callback', '%s::%s#forwards' % (DYN, nm), '%s:%d' % (dyn.file, dyn.line),
                      'DynamicHandler::%s does not exist, nothing is forwarded to the implementation\'s %s' % (nm, nm))
        for fn in fb.fns('%s::%s' % (DYN, nm)):
            c = _single_forward(fn, lambda n: n.get('q') == '%s::%s' % (HWB, nm) and n.get('recv') is not None and
                                (xroot(fn, n['recv'], free_calls=False) or (None,))[0] == 'field')
            ok = c is not None and _roots(fn, c.get('args', [])) == [('param', i) for i in range(len(fn.params))]
            R.check(ok, 'Y1-dynamic-forwards-same-callback', '%s::%s#forwards' % (DYN, nm), fn.site,
                    'DynamicHandler::%s must call the implementation\'s %s exactly once with its own parameter' % (nm, nm))
        # HandlerWrapper<T>::nm -> nm_dispatch(m_handler, param, int literal)
        for fn in fb.fns('%s::%s' % (HW, nm)):
            dq = 'osmium::handler::detail::%s_dispatch' % nm
            c = _single_forward(fn, lambda n: n.get('q') == dq)
            ok = False
            if c is not None:
                a = c.get('args', [])
                np_ = len(fn.params)
                ok = (len(a) == np_ + 2 and (xroot(fn, a[0], free_calls=False) or (None,))[0] == 'field' and
                      _roots(fn, a[1:1 + np_]) == [('param', i) for i in range(np_)])
                if ok:
                    lit = fn.sn(a[-1])
                    # the literal must be an `int` so that the handler-style overload (int) is preferred over the visitor-style (long)
                    ok = lit is not None and lit.get('k') == 'lit' and lit.get('t') == 'int'
            R.check(ok, 'Y1-dynamic-forwards-same-callback', '%s::%s#dispatches' % (HW, nm), fn.site,
                    'HandlerWrapper<T>::%s must call %s_dispatch(m_handler, <own parameter>, <int literal>) exactly once' % (nm, nm))
        # nm_dispatch: handler.nm(object) or handler(object)
        nd = 0
        for fn in fb.fns('osmium::handler::detail::%s_dispatch' % nm):
            nd += 1
            nobj = len(fn.params) - 2
            tag = split_ref(fn.params[-1]['tC'])[0]
            calls = [n for n in fn.all_nodes() if n.get('k') == 'call' and n.get('recv') is not None and
                     (xroot(fn, n['recv'], free_calls=False) or (None, None))[:2] == ('param', 0)]
            if tag == 'int':
                ok = (len(calls) == 1 and name_of(calls[0].get('q', '')) == nm and
                      _roots(fn, calls[0].get('args', [])) == [('param', i) for i in range(1, 1 + nobj)] and must_pass(fn, [calls[0]['id']]))
                what = 'handler.%s(object)' % nm
            elif nm == 'flush':
                ok = not calls
                what = 'nothing (the wrapped class has no flush())'
            else:
                ok = (len(calls) == 1 and (calls[0].get('op') == '()' or name_of(calls[0].get('q', '')) == 'operator()') and
                      _roots(fn, calls[0].get('args', [])) == [('param', i) for i in range(1, 1 + nobj)] and must_pass(fn, [calls[0]['id']]))
                what = 'handler(object)'
            R.check(ok, 'Y1-dynamic-forwards-same-callback', 'osmium::handler::detail::%s_dispatch(%s)#calls' % (nm, tag), fn.site,
                    '%s_dispatch(..., %s) must call %s exactly once' % (nm, tag, what))
        if nd == 0:
            R.broken('%s_dispatch not instantiated' % nm)


CHAIN = 'osmium::handler::ChainHandler'


def chain_rules(fb, R, O):
    recs = fb.records_named(CHAIN)
    if not recs:
        R.broken('ChainHandler not instantiated')
        return
    steps = {}
    for f in fb.functions:
        if f.cls and f.cls.startswith(CHAIN + '::call_') and f.name == 'operator()' and len(f.cls_targs) >= 2:
            steps.setdefault(f.cls[len(CHAIN + '::call_'):], []).append(f)
    if not steps:
        R.broken('ChainHandler::call_<callback> helpers not instantiated')
        return
    n1 = 0
    for nm, fl in sorted(steps.items()):
        # C1: entry point
        for fn in fb.fns('%s::%s' % (CHAIN, nm)):
            n1 += 1
            nh = None
            for r in recs:
                if r.full == fn.clsT:
                    tup = [f for f in r.fields if f['tC'].startswith('std::tuple<')]
                    if len(tup) == 1:
                        nh = _tuple_arity(tup[0]['tC'])
            c = _single_forward(fn, lambda n: n.get('q') == '%s::call_%s::operator()' % (CHAIN, nm))
            ok = False
            found = '?'
            if c is not None and nh is not None:
                ta = _targs_of(c.get('rclsT', ''))
                found = ta[:2]
                a = c.get('args', [])
                ok = (ta[:2] == ['0', str(nh)] and len(a) == 1 + len(fn.params) and
                      (xroot(fn, a[0], free_calls=False) or (None,))[0] == 'field' and
                      _roots(fn, a[1:]) == [('param', i) for i in range(len(fn.params))])
            R.check(ok, 'C1-chain-starts-at-first-handler', '%s::%s#entry' % (CHAIN, nm), fn.site,
                    'ChainHandler::%s must start call_%s<0, %s> with (m_handlers, own parameter); found <%s>' % (nm, nm, nh, found))
        # C2: step
        for fn in fl:
            try:
                N, SIZE = int(fn.cls_targs[0]), int(fn.cls_targs[1])
            except ValueError:
                R.broken('%s: non-numeric template arguments' % fn.full)
                continue
            key = '%s::call_%s::operator()#step' % (CHAIN, nm)
            hcalls = [n for n in fn.all_nodes() if n.get('k') == 'call' and n.get('recv') is not None and
                      (fn.sn(n['recv']) or {}).get('q') == 'std::get']
            rec = [n for n in fn.all_nodes() if n.get('k') == 'call' and n.get('q') == fn.q]
            if N >= SIZE:
                R.check(not hcalls and not rec, 'C2-chain-step-calls-nth-then-next', key, fn.site,
                        'the terminating specialisation call_%s<SIZE, SIZE> must do nothing' % nm)
                continue
            nobj = len(fn.params) - 1
            msgs = []
            if len(hcalls) != 1 or name_of(hcalls[0].get('q', '')) != nm:
                msgs.append('must call exactly one callback, %s, on std::get<N>(handlers); found %s' % (nm, [name_of(h.get('q', '')) for h in hcalls]))
            else:
                h = hcalls[0]
                g = fn.sn(h['recv'])
                idx = std_get_index(g)
                if idx is None:
                    R.broken('%s: cannot read the index of std::get from the callee identity' % fn.full)
                    continue
                if idx != N or (xroot(fn, g['args'][0]) or (None, None))[:2] != ('param', 0):
                    msgs.append('step %d serves std::get<%d> instead of std::get<%d>(handlers)' % (N, idx, N))
                if _roots(fn, h.get('args', [])) != [('param', i) for i in range(1, 1 + nobj)]:
                    msgs.append('the callback must receive the object parameter')
                if not must_pass(fn, [h['id']]):
                    msgs.append('the callback is skipped on some path')
            if len(rec) != 1:
                msgs.append('must continue with exactly one call_%s<N+1, SIZE>' % nm)
            else:
                ta = _targs_of(rec[0].get('rclsT', ''))
                if ta[:2] != [str(N + 1), str(SIZE)]:
                    msgs.append('step %d continues with <%s> instead of <%d, %d>' % (N, ', '.join(ta[:2]), N + 1, SIZE))
                if _roots(fn, rec[0].get('args', [])) != [('param', i) for i in range(len(fn.params))]:
                    msgs.append('the recursion must pass (handlers, object)')
                if not must_pass(fn, [rec[0]['id']]):
                    msgs.append('the recursion is skipped on some path')
                if len(hcalls) == 1 and not fn.elem_dominates(hcalls[0]['id'], rec[0]['id']):
                    msgs.append('handler N must be served before handlers N+1.. (chain order)')
            R.check(not msgs, 'C2-chain-step-calls-nth-then-next', key, fn.site, '; '.join(msgs))
    if n1 == 0:
        R.broken('no ChainHandler callback instantiated')


def _split_targs(s):
    out, depth, cur = [], 0, ''
    for ch in s:
        if ch in '<([':
            depth += 1
        elif ch in '>)]':
            depth -= 1
        if ch == ',' and depth == 0:
            out.append(cur.strip())
            cur = ''
        else:
            cur += ch
    if cur.strip():
        out.append(cur.strip())
    return out


def _targs_of(full):
    """template arguments of the LAST template-id in a full class name: 'A<x>::B<1, 2, T<u, v>>' -> ['1', '2', 'T<u, v>']"""
    if not full.endswith('>'):
        return []
    depth = 0
    for i in range(len(full) - 1, -1, -1):
        if full[i] == '>':
            depth += 1
        elif full[i] == '<':
            depth -= 1
            if depth == 0:
                return _split_targs(full[i + 1:-1])
    return []


def _tuple_arity(t):
    return len(_targs_of(t.strip()))


# ================================================================================================ InputIterator

INIT = 'osmium::io::InputIterator'


def _is_default_reset(g, n, f):
    """node n of function g puts member f into its default-constructed state"""
    k = n.get('k')
    if k == 'call' and name_of(n.get('q', '')) == 'reset' and n.get('recv') is not None and not n.get('args'):
        return g.is_this_member(n['recv'], f)
    rhs = None
    if k == 'assign' and n.get('op', '=') == '=':
        l = g.sn(n['lhs'])
        if l is not None and l.get('k') == 'member' and g.is_this_member(n['lhs'], f):
            rhs = n['rhs']
    elif k == 'call' and n.get('op') == '=' and n.get('recv') is not None and n.get('args') and g.is_this_member(n['recv'], f):
        rhs = n['args'][0]
    if rhs is None:
        return False
    r = g.sn(rhs)
    hops = 0
    while r is not None and r.get('k') == 'construct' and len(r.get('args', [])) == 1 and hops < 4:
        r = g.sn(r['args'][0])  # copy / move of a temporary
        hops += 1
    if r is None:
        return False
    if r.get('k') == 'lit' and r.get('null'):
        return True
    if r.get('k') == 'construct' and not r.get('args'):
        return True
    if r.get('k') == 'initlist' and not r.get('args'):
        return True
    return False


def inputiterator_rules(fb, R, O):
    eqs = [f for f in fb.fns(INIT + '::operator==') if len(f.params) == 1]
    ups = fb.fns(INIT + '::update_buffer')
    incs = [f for f in fb.fns(INIT + '::operator++') if not f.params]
    if not eqs or not ups or not incs:
        R.broken('InputIterator operator== / update_buffer / operator++ not instantiated')
        return
    compared = {}
    for fn in eqs:
        s = set()
        for n in fn.all_nodes():
            if n.get('k') == 'member' and n.get('field') and fn.is_this_member(n['id']):
                s.add(n['name'])
        compared[fn.clsT] = s
    for fn in ups:
        cmp_fields = compared.get(fn.clsT)
        if not cmp_fields:
            continue
        # The end iterator is the default-constructed one.  A path that resets one compared member to its default state
        # (null / reset() / value-initialised temporary) turns the iterator into the end iterator, so it must reset
        # every compared member before the function is left; and each compared member must have such a reset at all.
        # Resets inside extracted private helpers count at the helper call (body treated as inlined).
        msgs = []
        resets = {f: carriers(fb, fn, lambda g, n, f=f: _is_default_reset(g, n, f)) for f in sorted(cmp_fields)}
        for f in sorted(cmp_fields):
            if not resets[f]:
                msgs.append('%s is compared by operator== but update_buffer never resets it at the end of the input (the iterator '
                            'would never compare equal to the end iterator)' % f)
        for f in sorted(cmp_fields):
            for w in resets[f]:
                for f2 in sorted(cmp_fields):
                    if f2 == f or not resets[f2]:
                        continue
                    before = any(w2 == w or fn.elem_dominates(w2, w) for w2 in resets[f2])
                    if not before and normal_exit_avoiding(fn, w, resets[f2]) is not None:
                        msgs.append('a path resets %s but leaves update_buffer without resetting %s' % (f, f2))
        msgs = sorted(set(msgs))
        R.check(not msgs, 'R1-inputiterator-end-state', INIT + '::update_buffer#end-of-input', fn.site, '; '.join(msgs))
    # R3: once the item iterator has been positioned at select<TItem>().begin() of a new buffer, the function may only be
    # left normally on the `iterator != select<TItem>().end()` outcome of a comparison (buffers without an item of the
    # requested type are skipped); any other way out goes through the end-of-input reset or another read.
    for fn in ups:
        itfs = set()
        begins = []
        for (n, rhs) in [(n, r) for f in sorted(compared.get(fn.clsT) or set().union(*compared.values())) for (n, r) in _field_assigns(fn, f)]:
            x = fn.sn(rhs)
            hops = 0
            while x is not None and x.get('k') == 'construct' and len(x.get('args', [])) == 1 and hops < 4:
                x = fn.sn(x['args'][0])
                hops += 1
            if x is not None and x.get('k') == 'call' and name_of(x.get('q', '')) in ('begin', 'cbegin'):
                begins.append(n['id'])
                l = n.get('lhs', n.get('recv'))
                itfs.add(_this_field(fn, l))
        if not begins or len(itfs) != 1:
            R.broken('%s: the positioning `iter = buffer.select<T>().begin()` was not found' % fn.full)
            continue
        itf = itfs.pop()
        resets_it = carriers(fb, fn, lambda g, n, f=itf: _is_default_reset(g, n, f))

        def edge_ok(b, idx, s_, fn=fn, itf=itf):
            blk = fn.blocks[b]
            if 'cond' in blk and len(blk['succs']) == 2:
                neg = False
                c = blk['cond']
                x = fn.sn(c)
                while x is not None and x.get('k') == 'unop' and x.get('op') == '!':
                    neg = not neg
                    c = x['sub']
                    x = fn.sn(c)
                p = _cmp_parts(fn, c)
                if p is not None:
                    sides = [fn.sn(p[1]), fn.sn(p[2])]
                    flds = [_this_field(fn, p[1]), _this_field(fn, p[2])]
                    if itf in flds:
                        other = sides[1 - flds.index(itf)]
                        if other is not None and other.get('k') == 'call' and name_of(other.get('q', '')) in ('end', 'cend'):
                            equal_edge = 0 if ((p[0] == '==') != neg) else 1
                            return idx == equal_edge      # the not-equal outcome discharges the obligation
            return True
        bad = None
        for bg in begins:
            w = normal_exit_avoiding(fn, bg, set(begins) | set(resets_it), edge_ok=edge_ok)
            if w is not None:
                bad = bg
                break
        R.check(bad is None, 'R3-inputiterator-skips-buffers-without-match', INIT + '::update_buffer#leaves-only-on-item', fn.site,
                'after positioning %s at the beginning of a new buffer the function can return although %s equals the buffer\'s '
                'end() (a buffer without an item of the requested type is not skipped; the iterator is then dereferenced at end)' % (itf, itf))
    for fn in incs:
        ups_c = [n for n in fn.all_nodes() if n.get('k') == 'call' and n.get('q') == INIT + '::update_buffer']
        adv = _increments_of(fn, lambda x: (xroot(fn, x, free_calls=False) or (None,))[0] == 'field')
        msgs = []
        if len(adv) != 1 or not must_pass(fn, [adv[0]['id']]):
            msgs.append('operator++ must advance the item iterator exactly once')
        elif len(ups_c) != 1:
            msgs.append('operator++ must have one refill (update_buffer) call')
        else:
            itf = xroot(fn, adv[0]['recv'] if adv[0].get('k') == 'call' else adv[0]['sub'], free_calls=False)[1]
            u = ups_c[0]
            g_ok = False
            for (c, sense, _b) in guards_of(fn, u['id']):
                p = _cmp_parts(fn, c)
                if p is None or ((p[0] == '==') != bool(sense)):
                    continue
                sides = [fn.sn(p[1]), fn.sn(p[2])]
                roots = [xroot(fn, p[1], free_calls=False), xroot(fn, p[2], free_calls=False)]
                if ('field', itf) in roots:
                    other = sides[1 - roots.index(('field', itf))]
                    if other is not None and other.get('k') == 'call' and name_of(other.get('q', '')) in ('end', 'cend'):
                        g_ok = True
            if not g_ok:
                msgs.append('the refill must happen exactly when the item iterator equals the buffer\'s end()')
            if not fn.elem_dominates(adv[0]['id'], u['id']):
                msgs.append('the refill test must come after the advance')
        R.check(not msgs, 'R1-inputiterator-refill', INIT + '::operator++()#refill', fn.site, '; '.join(msgs))


# ================================================================================================ postfix increment / fresh buffer

ITER_CLASSES = [ITIT, DIT, INIT, 'osmium::memory::CollectionIterator']


def _on_this(fn, n):
    return n.get('recv') is None or (xroot(fn, n['recv'], free_calls=False) or (None,))[0] == 'this'


def _incr_events(fb, fn, depth=0, must_only=True):
    """What an increment operator does on every normal path, as a set: ('call', member function) for calls of other
    member functions on *this, ('assign', field), ('inc', field); the must-events of the called members are included."""
    ev = set()
    for n in fn.all_nodes():
        k = n.get('k')
        e = None
        sub = None
        if k == 'call' and n.get('op') in ('++', '--') and n.get('recv') is not None and _this_field(fn, n['recv']):
            e = ('inc' + n['op'], _this_field(fn, n['recv']))
        elif k == 'unop' and n.get('op') in ('++', '--') and _this_field(fn, n['sub']):
            e = ('inc' + n['op'], _this_field(fn, n['sub']))
        elif k == 'assign' and _this_field(fn, n['lhs']):
            e = ('assign', _this_field(fn, n['lhs']))
        elif k == 'call' and n.get('op') == '=' and n.get('recv') is not None and _this_field(fn, n['recv']):
            e = ('assign', _this_field(fn, n['recv']))
        elif k == 'call' and fn.cls and n.get('rcls') == fn.cls and 'u' in n and _on_this(fn, n) and n.get('op') is None:
            e = ('call', n.get('q'))
            sub = n
        if e is None or n['id'] not in fn.positions() or (must_only and not must_pass(fn, [n['id']])):
            continue
        ev.add(e)
        if sub is not None and depth < 3:
            for g in fb.by_usr.get(sub['u'], []):
                if g.clsT == fn.clsT and g.has_cfg and g is not fn:
                    ev |= _incr_events(fb, g, depth + 1, must_only)
                    break
    return ev


def postfix_rules(fb, R, O):
    """P1: every postfix operator++(int) of the iterator classes = copy of *this, then the prefix increment (or everything
    the prefix increment does on every path: the same member calls / member updates), then return the copy."""
    found = 0
    for cls in ITER_CLASSES:
        ops = fb.fns(cls + '::operator++')
        posts = [f for f in ops if len(f.params) == 1 and f.params[0]['tC'] == 'int']
        pres = {f.clsT: f for f in ops if not f.params}
        if not posts:
            declared = any(m['name'] == 'operator++' and m['params'] == ['int'] for r in fb.records_named(cls) for m in r.methods)
            if declared or not fb.records_named(cls):
                R.broken('%s: postfix operator++ is declared but not instantiated by the driver' % cls)
            continue
        for fn in posts:
            key = '%s::operator++(int)#agrees-with-prefix' % cls
            pre = pres.get(fn.clsT)
            if pre is None:
                R.broken('%s has a postfix but no prefix operator++' % fn.clsT)
                continue
            found += 1
            msgs = []
            adv = carriers(fb, fn, lambda g, n: n.get('k') == 'call' and n.get('u') == pre.usr and _on_this(g, n))
            if adv and must_pass(fn, adv) and not may_repeat(fn, adv):
                points = adv
            else:
                want, got = _incr_events(fb, pre), _incr_events(fb, fn)
                # what the prefix does on every path must happen on every path; what it does on some path (refill at a
                # buffer boundary, guarded advance) must at least be present
                missing = sorted((want - got) | (_incr_events(fb, pre, must_only=False) - _incr_events(fb, fn, must_only=False)))
                points = []
                if adv:
                    msgs.append('the prefix increment is not executed exactly once on every path')
                elif missing or not want:
                    msgs.append('does not go through the prefix increment and omits what operator++() does on every path: %s'
                                % ', '.join('%s %s' % e for e in missing))
                else:
                    points = [n['id'] for n in fn.all_nodes() if n['id'] in fn.positions() and
                              (n.get('k') in ('call', 'assign', 'unop')) and
                              ((n.get('k') == 'call' and n.get('rcls') == fn.cls and _on_this(fn, n) and n.get('op') is None) or
                               (n.get('k') == 'assign' and _this_field(fn, n['lhs'])))]
            # the copy: a local of the class type initialised from *this, taken before the advance and returned
            copies = {}
            for d in fn.all_nodes():
                if d.get('k') == 'decl':
                    for v in d['vars']:
                        if isinstance(v.get('init'), int) and strip_const(v['tC']) == fn.clsT and xroot(fn, v['init'], free_calls=False) == ('this',):
                            copies[v['d']] = d['id']
            rets = [n for n in fn.all_nodes() if n.get('k') == 'return' and 'sub' in n]
            if not copies:
                msgs.append('no copy of *this is taken')
            else:
                for r in rets:
                    rv = xroot(fn, r['sub'], free_calls=False)
                    if rv is None or rv[0] != 'var' or rv[1] not in copies:
                        msgs.append('the value returned is not the copy taken before the increment')
                        break
                if not rets:
                    msgs.append('nothing is returned')
                for pnt in points:
                    if not any(fn.elem_dominates(c, pnt) for c in copies.values()):
                        msgs.append('the copy is taken after the iterator has been advanced')
                        break
            R.check(not msgs, 'P1-postfix-increment-agrees-with-prefix', key, fn.site, 'operator++(int): ' + '; '.join(sorted(set(msgs))))
    if found == 0:
        R.broken('no postfix increment operator of the iterator classes instantiated')


BUFFER_MUTATORS = {'operator=', 'swap', 'grow', 'reserve_space', 'commit', 'rollback', 'clear', 'add_item', 'add_buffer', 'push_back',
                   'purge_removed', 'set_full_callback', 'increment_written'}


def fresh_buffer_rules(fb, R, O):
    """R2: copies of an InputIterator share the Buffer through a shared_ptr, so the buffer a position points into must
    never change: every read() of the source is followed on every path by binding the shared_ptr member to a FRESH object
    (make_shared / new) or by the end-of-input reset, and nothing writes through the pointer."""
    recs = fb.records_named(INIT)
    if not recs:
        R.broken('InputIterator not instantiated')
        return
    n_read = 0
    for rec in recs:
        bufs = [f['name'] for f in rec.fields if f['tC'].startswith('std::shared_ptr<') and 'osmium::memory::Buffer' in f['tC']]
        srcs = [f['name'] for f in rec.fields if f.get('ptr') and not f['tC'].startswith('std::')]
        if len(bufs) != 1 or not srcs:
            R.broken('%s: cannot identify the shared buffer member / the source pointer by type' % rec.full)
            continue
        bf = bufs[0]
        fns = [f for f in fb.functions if f.clsT == rec.full and not f.is_lambda and f.has_cfg]
        # (a) no write through the shared pointer
        for fn in fns:
            bad = []
            for n in fn.all_nodes():
                if n.get('k') == 'call' and n.get('recv') is not None and name_of(n.get('q', '')) in BUFFER_MUTATORS and \
                        n.get('rcls') == 'osmium::memory::Buffer' and xroot(fn, n['recv'], free_calls=False) == ('field', bf) and \
                        not fn.is_this_member(n['recv'], bf):
                    bad.append(n)
                elif n.get('k') == 'call' and name_of(n.get('q', '')) == 'swap' and n.get('recv') is None and \
                        any((xroot(fn, a, free_calls=False) == ('field', bf)) and _deref_sub(fn, a) is not None for a in n.get('args', [])):
                    bad.append(n)
            if bad or fn.name in ('update_buffer',) or any(x.get('k') == 'call' and name_of(x.get('q', '')) == 'read' for x in fn.all_nodes()):
                R.check(not bad, 'R2-inputiterator-fresh-buffer-per-read', '%s::%s#no-write-through-shared-buffer' % (INIT, fn.name),
                        fn.loc(bad[0]['id']) if bad else fn.site,
                        'the shared Buffer object is modified in place (%s): every copy of the iterator (DiffIterator keeps prev/curr/next) '
                        'still points into the old contents' % (fn.expr(bad[0]['id'])[:80] if bad else ''))
        # (b) each read is followed by a rebinding to a fresh object (or the end-of-input reset)
        for fn in fns:
            reads = [n for n in fn.all_nodes() if n.get('k') == 'call' and name_of(n.get('q', '')) == 'read' and n.get('recv') is not None and
                     (xroot(fn, n['recv'], free_calls=False) or (None, None))[:2] in [('field', s) for s in srcs]]
            if not reads:
                continue
            n_read += 1

            def fresh_bind(g, n, bf=bf):
                if _is_default_reset(g, n, bf):
                    return True
                rhs = None
                if n.get('k') == 'call' and n.get('op') == '=' and n.get('recv') is not None and n.get('args') and g.is_this_member(n['recv'], bf):
                    rhs = n['args'][0]
                elif n.get('k') == 'call' and name_of(n.get('q', '')) == 'reset' and n.get('recv') is not None and n.get('args') and \
                        g.is_this_member(n['recv'], bf):
                    rhs = n['args'][0]
                if rhs is None:
                    return False
                seen = set()
                work = [rhs]
                while work:
                    x = work.pop()
                    for y in g.subtree(x):
                        if y in seen:
                            continue
                        seen.add(y)
                        ny = g.nodes[y]
                        if ny.get('k') == 'new' or (ny.get('k') == 'call' and ny.get('q') in ('std::make_shared', 'std::allocate_shared')):
                            return True
                        if ny.get('k') == 'var' and ny.get('vk') == 'local':
                            init = _single_init(g, ny['d'])
                            if init is not None:
                                work.append(init)
                return False
            binds = carriers(fb, fn, fresh_bind)
            msgs = []
            for rd in reads:
                w = normal_exit_avoiding(fn, rd['id'], binds)
                if w is not None:
                    msgs.append('after %s a path leaves %s without binding %s to a freshly allocated Buffer (make_shared / new) or '
                                'resetting it' % (fn.expr(rd['id']), fn.name, bf))
                    break
            R.check(not msgs, 'R2-inputiterator-fresh-buffer-per-read', '%s::%s#fresh-buffer-per-read' % (INIT, fn.name), fn.site, '; '.join(msgs))
    if n_read == 0:
        R.broken('InputIterator: no member function reads from the source')


# ================================================================================================ is_compatible_to truth sets

def _names_enumerator(f, value, pd):
    """the predicate's body contains an explicit equality test of its parameter against the enumerator `value`"""
    for n in f.all_nodes():
        p = _cmp_parts(f, n['id']) if n.get('k') in ('binop', 'call') else None
        if p is None or p[0] != '==':
            continue
        for a, b in ((p[1], p[2]), (p[2], p[1])):
            x = f.sn(a)
            if x is not None and x.get('k') == 'var' and x.get('d') == pd and f.const_value(b) == value:
                return True
    return False


def compat_rules(fb, R, O):
    """K1: for every class with its own static is_compatible_to(item_type) the accepted set -- the predicate evaluated for
    EVERY enumerator -- equals the item types of the classes that derive from it (per the classes' `itemtype` constants
    and base lists).  Enumerators that are no class's itemtype (undefined, relation_member_list_with_full_members) may only
    be accepted by the root class or by a predicate that names them in an explicit equality test."""
    def own_itemtype(rec):
        for st in rec.statics:
            if st['name'] == 'itemtype' and st.get('cv') is not None:
                return int(st['cv'])
        return None

    def eff_itemtype(full, seen=None):
        seen = seen or set()
        if full in seen:
            return None
        seen.add(full)
        rec = O.rec_by_full.get(full)
        if rec is None:
            return None
        v = own_itemtype(rec)
        if v is not None:
            return v
        for b in rec.bases:
            v = eff_itemtype(b['t'], seen)
            if v is not None:
                return v
        return None

    def derives(full, base_full, seen=None):
        if full == base_full:
            return True
        seen = seen or set()
        if full in seen:
            return False
        seen.add(full)
        rec = O.rec_by_full.get(full)
        return rec is not None and any(derives(b['t'], base_full, seen) for b in rec.bases)

    item_root = 'osmium::memory::Item'
    typed = {}
    for full, rec in O.rec_by_full.items():
        if derives(full, item_root):
            v = eff_itemtype(full)
            if v is not None:
                typed[full] = v
    if not typed:
        R.broken('no item class with an `itemtype` constant found')
        return
    owned_values = set(typed.values())
    preds = sorted(O.compat_fn.items())
    if not preds:
        R.broken('no is_compatible_to predicate in the fact base')
        return
    for full, f in preds:
        if not derives(full, item_root):
            continue
        acc = O.truth_set(f)
        acc_v = {O.enum_by_name[e] for e in acc}
        want_v = {v for k, v in typed.items() if derives(k, full)}
        msgs = []
        extra = sorted((acc_v & owned_values) - want_v)
        lack = sorted(want_v - acc_v)
        if extra:
            msgs.append('accepts %s, the item type of %s which do(es) not derive from %s' % (
                ', '.join(O.enum_by_value[v] for v in extra),
                ', '.join(sorted(k for k, v in typed.items() if v in extra and not derives(k, full))), full))
        if lack:
            msgs.append('rejects %s although %s derive(s) from %s' % (
                ', '.join(O.enum_by_value[v] for v in lack), ', '.join(sorted(k for k, v in typed.items() if v in lack and derives(k, full))), full))
        is_root = want_v == owned_values
        for v in sorted(acc_v - owned_values):
            if not is_root and not _names_enumerator(f, v, f.params[0]['d']):
                msgs.append('accepts %s, which is no class\'s itemtype, without naming it' % O.enum_by_value[v])
        R.check(not msgs, 'K1-compat-set-equals-class-hierarchy', '%s::is_compatible_to#accepted-set' % full, f.site,
                '%s::is_compatible_to %s (accepted: %s)' % (full, '; '.join(msgs), ', '.join(sorted(acc))))


def run(ctx):
    R = ctx.R
    configs = ['ndebug14'] if ctx.tier == 'quick' else ['ndebug14', 'debug14', 'ndebug17', 'debug17']
    for cfg in configs:
        fb = ctx.facts(['c20_extra'], cfg)
        try:
            O = Oracle(fb)
        except Shape as e:
            R.broken(str(e))
            continue
        for part in PARTS:
            try:
                part(fb, R, O)
            except Shape as e:
                R.broken('%s: %s' % (part.__name__, e))
    # instance floors confirmed by reading the code (distinct construct keys, independent of the number of instantiations)
    R.expect('D1-case-calls', 44)          # 2 x 13 (Item) + 2 x 5 (OSMEntity) + 2 x 4 (OSMObject) case labels
    R.expect('D2-cast-target', 66)         # 2 x 16 + 2 x 9 + 2 x 8 typed calls
    R.expect('D3-exhaustive', 6)           # 3 item classes x const / non-const
    R.expect('W1-wrapper-forwards-own-parameter', 10)   # node/way/relation/area/changeset x const / non-const
    R.expect('W2-wrapper-const-and-mutable-overload', 5)
    R.expect('A1-pack-order-braced-list', 2)            # apply_item, apply_flush
    R.expect('A2-apply_impl-item-loop', 1)
    R.expect('A2-apply_impl-flush-once-after-loop', 1)
    R.expect('A3-apply-forwards-range-and-handlers', 3)  # iterator range, container, const Buffer
    R.expect('I1-itemiterator-skip-predicate', 2)        # the loop + type_is_compatible
    R.expect('I2-itemiterator-filters-on-every-move', 2)  # constructor, operator++
    R.expect('X1-set_diff-construct', 1)
    R.expect('X1-set_diff-end-guard', 1)
    R.expect('X1-set_diff-mirror', 1)
    R.expect('X2-increment-shifts-prev-curr-next', 1)
    R.expect('X2-increment-advances-next-unless-at-end', 1)
    R.expect('X3-constructor-snapshot-order', 1)
    R.expect('X4-deref-refreshes-diff', 2)               # operator*, operator->
    R.expect('X4-equality-on-current-position', 1)
    R.expect('X5-diffobject-roles', 14)    # ctor, 3 accessors, first/last, type/id/version/changeset, 3 derived accessors + ctor
    R.expect('X6-diff-dispatch-1-case-calls', 3)
    R.expect('X6-diff-dispatch-2-cast-target', 3)
    R.expect('X6-diff-dispatch-3-exhaustive', 1)
    R.expect('X7-diff-recurse-order', 1)
    R.expect('X8-apply_diff-range-and-loop', 2)          # iterator range, source (the Buffer overloads cannot be instantiated)
    R.expect('Y1-dynamic-forwards-same-callback', 24)    # 6 callbacks x (DynamicHandler, HandlerWrapper, dispatch int, dispatch long)
    R.expect('Y2-dynamic-covers-every-virtual-callback', 12)
    R.expect('C1-chain-starts-at-first-handler', 6)
    R.expect('C2-chain-step-calls-nth-then-next', 6)
    R.expect('R1-inputiterator-end-state', 1)
    R.expect('R1-inputiterator-refill', 1)
    R.expect('R3-inputiterator-skips-buffers-without-match', 1)
    R.expect('K1-compat-set-equals-class-hierarchy', 14)  # Item, OSMEntity, OSMObject, 5 entities, 3 node-ref lists, RelationMemberList,
                                                            # Collection<Tag>, Collection<ChangesetComment> (Collection<RelationMember>'s is hidden, never used)
    R.expect('R2-inputiterator-fresh-buffer-per-read', 2)   # no write through the shared pointer; fresh buffer after read()
    R.expect('P1-postfix-increment-agrees-with-prefix', 4)  # ItemIterator, DiffIterator, InputIterator, CollectionIterator


PARTS = [compat_rules, dispatch_rules, diff_dispatch_rules, wrapper_rules, apply_rules, itemiterator_rules, diffiterator_rules,
         diffobject_rules, apply_diff_rules, dynamic_rules, chain_rules, inputiterator_rules, postfix_rules, fresh_buffer_rules]


def _selftest(part):
    def go(fb, R):
        try:
            part(fb, R, Oracle(fb))
        except Shape as e:
            R.broken(str(e))
    return go


_POS = 'c20_dispatch.cpp'
SELFTESTS = [
    ('D1-case-calls', _POS, _selftest(dispatch_rules)),
    ('D2-cast-target', _POS, _selftest(dispatch_rules)),
    ('D3-exhaustive', _POS, _selftest(dispatch_rules)),
    ('W1-wrapper-forwards-own-parameter', _POS, _selftest(wrapper_rules)),
    ('W2-wrapper-const-and-mutable-overload', _POS, _selftest(wrapper_rules)),
    ('A1-pack-order-braced-list', _POS, _selftest(apply_rules)),
    ('A2-apply_impl-flush-once-after-loop', _POS, _selftest(apply_rules)),
    ('I2-itemiterator-filters-on-every-move', _POS, _selftest(itemiterator_rules)),
    ('X1-set_diff-mirror', _POS, _selftest(diffiterator_rules)),
    ('X1-set_diff-end-guard', _POS, _selftest(diffiterator_rules)),
    ('X2-increment-shifts-prev-curr-next', _POS, _selftest(diffiterator_rules)),
    ('X2-increment-advances-next-unless-at-end', _POS, _selftest(diffiterator_rules)),
    ('X3-constructor-snapshot-order', _POS, _selftest(diffiterator_rules)),
    ('X4-deref-refreshes-diff', _POS, _selftest(diffiterator_rules)),
    ('X4-equality-on-current-position', _POS, _selftest(diffiterator_rules)),
    ('X5-diffobject-roles', _POS, _selftest(diffobject_rules)),
    ('P1-postfix-increment-agrees-with-prefix', _POS, _selftest(postfix_rules)),
    ('K1-compat-set-equals-class-hierarchy', _POS, _selftest(compat_rules)),
]
