"""C07 -- Reader pipeline always terminates and reports the first error (EXCFLOW + MONITOR + LAYOUT + PAIR).

Structural necessary conditions decided on the resolved program (never behaviour under schedules):

 E1 thread-entry-no-leak     every function started on a library thread (found by role: argument of a std::thread /
                             thread_handler / vector<thread>::emplace_back construction) lets no explicitly thrown or
                             re-thrown (future::get, rethrow_exception) exception escape; every throwing "work call" in the
                             uncovered call chain of an entry (Decompressor::read/close, Parser::run, Compressor::write/
                             close, queue_wrapper::pop) lies in a try whose handlers catch everything it can throw
 E2 catch-all-forwards       the catch (...) of each reader-side stage (run_in_thread, Parser::parse) enqueues
                             current_exception() on the stage's outgoing queue on every handler path and before the
                             end-of-data marker; Parser::parse also fulfils the header promise with it
 E2 end-of-data-on-all-paths the end-of-data push is executed on every normal path and on every handler path
 H1 header-promise-guarded   the header promise is touched only in test-and-set guarded setters; the flag is never reset
 H2 run-sets-header          every Parser::run override (or the class' constructor) calls the value setter on all normal exits
 H3 header-set-before-object-data   every call that starts object data (maybe_new_buffer, send_to_output_queue in a parser
                             class) is reached only after the header value setter, in the function itself, in every caller,
                             or in the class' constructor (a consumer in header() vs. a parser blocked on the full queue)
 X1 parser-handler-keeps-upstream-errors   a handler of the parser stage whose try block pops the input queue and which catches
                             a type the read thread can throw (derived from the throw sites + bases) rethrows/throws/forwards
                             on every path; catch (...) included
 W1 child-failure-reported   after waitpid() the throw is reached for waitpid failure, death by signal and non-zero exit code, and
                             not for a clean exit: the extracted branch conditions (W* macros = bit operations on the status
                             word) are evaluated for four representative (result, status) pairs -- a finite case analysis of
                             the condition, nothing is run
 W2 pipe-ends-paired         fork child closes every descriptor except pipefd[1] (guards of close(i) evaluated for the read
                             end, the write end, others), dup2s it onto 1; the parent closes pipefd[1] on every path and
                             returns pipefd[0]
 S1 status-gates-access      Reader::read pops the osmdata queue only in status okay; header() never waits on the header
                             future in status error
 S2 handler-closes-marks-error-rethrows   each catch (...) guarding those accesses calls close(), then stores status error,
                             and every path through it ends in `throw;`
 S3 close: status closed stored on every path; osmdata queue shut down before the read thread is joined (2.17.3 deadlock
    shape); join guarded by joinable() and preceded by the stop flag; read loop re-tests the stop flag before every
    Decompressor::read; child pid waited for once
 S4 parser-fd-loop-observes-close   a parser loop that reads the file descriptor itself in every iteration also tests, in
                             every iteration, a state that close() changes (queue in-use flag / atomic flag); queue-fed loops
                             get that from queue_wrapper::pop; where the condition can be evaluated, its polarity is checked
                             (with the queue shut down, control must take the leaving edge).  Found F10 (fixed in /repo)
 F1 parser-closes-its-descriptor    a parser that stores parser_arguments::fd owns it: closed on every normal exit of run() and
                             on every exceptional one (dominating close, closing handler, or destructor; a close through a
                             local copy of the member counts).  Found F9 (fixed in /repo)
 D1 destructor-swallows      no user-provided destructor under io/, thread/ lets an explicitly thrown exception escape
 D1 throwing-call-in-destructor-wrapped   (one instance per throwing call site in such a destructor)
 L1 referent-declared-before-holder   members referenced by a thread the object starts (or by a sibling whose user-provided
                             destructor uses them) are declared before the member that joins / uses them; members touched
                             by a thread started from the member-initialiser list are declared before the thread member
 J1 thread-member-joined     every std::thread (container) member is joined by its owner's / a sibling's destructor,
                             under a joinable() test
 U1 wrapper-dtor-shuts-queue-down, U2 pop-shuts-down-at-end-of-data (parsers loop on input_done()), U3 push is a no-op /
    never waits once the queue is shut down, producer wait is timed inside a re-testing loop, U4 consumer wait predicate
    contains the shutdown flag, U5 shutdown stores the flag and wakes all consumers (U3b/U4/U5 re-use the C19 MONITOR rules)
 P1 add-to-queue pushes the promise's future and fulfils the same promise on every path; end-of-data pushes a
    default-constructed value

Refactoring robustness: helpers of the same class are treated as inlined (end-of-data / forwarding / header-exception calls,
close()/status stores in handlers, queue pop / future get behind a private helper, shutdown and join behind helpers of
close(), the read loop in a helper of the thread function); named locals are looked through (current_exception(),
get_future(), a boolean gate variable instead of `break`); guards may be early returns, else-branches or loop conditions.

NOT decided (dropped clauses, see DESIGN 5/C07 "not decided"): absence of deadlock for all interleavings, fd/thread leak
counts, which error is "first"; that allocation failure / thread-creation failure before a stage's try block cannot
happen (outside the fault model); exceptions thrown inside std / protozero / expat bodies other than the documented
re-throwers (bodies outside /repo/include/osmium are not in the fact base).  Pool::worker_thread is examined by E1 only
for explicit throws: tasks are packaged_tasks (C19/P4), which capture.
"""
from ..engine import AnalysisBroken, Reporter
from ..excflow import (ANY, Esc, catch_alls, covered_by_catch_all, elem_of, handler_always_rethrows, handler_entry_block,
                       layout_pairs, must_call, must_pass, thread_starts, _is_thread_type, _rethrow_nodes)
from ..flow import describe_path, guards_of, path_search
from . import c19

KNOWN = [
    # (rule, key, explanation) -- genuine findings on the pristine tree.  None at the moment.  History: S4 on
    # PBFParser::parse_data_blobs#fd-input-loop (F10: the blob loop never looked at the result queue, a closed Reader read the
    # rest of the file) and F1 on PBFParser::run#closed-on-error-paths (F9: descriptor leaked when run() threw) were found by
    # these rules and fixed in /repo (b833505, bd5a230); the reverted fixes are mutants in selftest/mutants/fixes.py.
]

EXPLANATION = (
    'Decided (structural necessary conditions, all paths / all sites of the resolved program): no explicitly thrown or re-thrown '
    'exception can leave a library thread entry point (run_in_thread, parser_thread->Parser::parse, write_thread->WriteThread::operator(), '
    'Pool::worker_thread); the catch-all of each reader-side stage forwards current_exception() to the outgoing queue (and the header '
    'promise) and the end-of-data marker is pushed on normal and handler paths; the header promise is only touched under a test-and-set '
    'flag and every Parser::run override sets the header on all normal exits; Reader::read/header gate queue/future access by the status '
    'field, their catch-all handlers close, mark error and rethrow; Reader::close stores closed, shuts the osmdata queue down before joining '
    'the read thread, join is guarded and preceded by the stop flag that the read loop re-tests; user-provided destructors under io/ and '
    'thread/ swallow; member declaration order keeps everything a thread references alive until it is joined; queue_wrapper unblocks '
    '(shutdown in destructor and at end-of-data), Queue::push never waits on a shut-down queue, waits are timed/re-tested and contain the '
    'shutdown flag. NOT decided: absence of deadlock under real interleavings, fd/thread leak counts, which error is first, failures of '
    'allocation or thread creation, exceptions raised inside std/protozero/expat bodies.')
ASSUMPTIONS = [
    'bodies outside /repo/include/osmium (std, protozero, expat, zlib, bz2) do not throw, except future::get / rethrow_exception / at()',
    'std::function<unique_ptr<Parser>(parser_arguments&)> targets are the lambdas of that signature in the fact base (the registered parsers)',
    'std::thread / std::promise / std::future / std::condition_variable behave per the standard',
    'the driver TUs (io_read, io_write, thread) instantiate every reader-side template the library itself uses',
]

NS = 'osmium::io::detail::'
READER = 'osmium::io::Reader'
RTM = NS + 'ReadThreadManager'
PARSER = NS + 'Parser'
QW = NS + 'queue_wrapper'
QUEUE = 'osmium::thread::Queue'
ADDQ = NS + 'add_to_queue'
EODQ = NS + 'add_end_of_data_to_queue'
READER_SIDE = (READER, RTM)


def _exit_t(e):
    return isinstance(e, tuple) and e[0] == 'exit'


def _calls(fn, q=None, suffix=None):
    out = []
    for n in fn.all_nodes():
        if n.get('k') == 'call' and 'q' in n:
            if q is not None and n['q'] != q:
                continue
            if suffix is not None and not n['q'].endswith(suffix):
                continue
            out.append(n)
    return out


def _in_handler(h, n):
    return 'o' in n and h['b'] <= n['o'] <= h['e']


def _origin_calls(fn, aid, callq, depth=0):
    """calls of `callq` the expression derives from: contained in it, or in the initialiser / an assigned value of a
    local variable it names (named locals for sub-expressions are looked through)."""
    out = []
    for x in fn.subtree(aid):
        n = fn.nodes[x]
        if n.get('k') == 'call' and n.get('q') == callq:
            out.append(n)
        elif n.get('k') == 'var' and n.get('vk') in ('local', None) and depth < 3:
            for m in fn.all_nodes():
                if m.get('k') == 'decl':
                    for v in m['vars']:
                        if v['d'] == n.get('d') and isinstance(v.get('init'), int):
                            out.extend(_origin_calls(fn, v['init'], callq, depth + 1))
                elif m.get('k') == 'assign' or (m.get('k') == 'call' and m.get('op') == '='):
                    lhs = m.get('lhs', m.get('recv'))
                    l = fn.sn(lhs) if lhs is not None else None
                    rhs = m.get('rhs', (m.get('args') or [None])[-1])
                    if l is not None and l.get('k') == 'var' and l.get('d') == n.get('d') and isinstance(rhs, int):
                        out.extend(_origin_calls(fn, rhs, callq, depth + 1))
    return out


def _from_current_exception(fn, aid, depth=0):
    """expression derives from std::current_exception(): contains the call, or names a local initialised from it."""
    return bool(_origin_calls(fn, aid, 'std::current_exception'))


def _resolve_bool(f, nid, depth=0):
    """(node, positive): the expression whose truth a condition tests, looking through `!` and through named locals that
    are written exactly once (their initialiser); positive is False under an odd number of negations."""
    n = f.sn(nid)
    pos = True
    while n is not None and depth < 6:
        depth += 1
        if n.get('k') == 'unop' and n.get('op') == '!':
            pos = not pos
            n = f.sn(n['sub'])
            continue
        if n.get('k') == 'var' and n.get('vk') in ('local', None):
            init = None
            writes = 0
            for m in f.all_nodes():
                if m.get('k') == 'decl':
                    for v in m['vars']:
                        if v['d'] == n.get('d'):
                            writes += 1
                            init = v.get('init') if isinstance(v.get('init'), int) else None
                elif m.get('k') == 'assign':
                    l = f.sn(m['lhs'])
                    if l is not None and l.get('k') == 'var' and l.get('d') == n.get('d'):
                        writes += 2
                elif m.get('k') == 'unop' and m.get('op') in ('++', '--'):
                    l = f.sn(m['sub'])
                    if l is not None and l.get('k') == 'var' and l.get('d') == n.get('d'):
                        writes += 2
            if writes == 1 and init is not None:
                n = f.sn(init)
                continue
        break
    return n, pos


def _must_elems(fb, f, is_target, depth=3, memo=None):
    """elements of f that are calls satisfying is_target(fn, node), or calls to library functions that execute such a call
    on every normal path (a private helper is treated as if its body were inlined)."""
    memo = {} if memo is None else memo
    out = set()
    for n in f.all_nodes():
        if n.get('k') != 'call' or 'q' not in n:
            continue
        hit = bool(is_target(f, n))
        if not hit and depth > 0 and n.get('u') and n['q'].startswith('osmium::') and not n.get('virt'):
            gs = [g for g in fb.by_usr.get(n['u'], []) if g.has_cfg]
            hit = bool(gs) and all(must_call(fb, g, is_target, depth - 1, memo) is None for g in gs)
        if hit:
            e = elem_of(f, n['id'])
            if e is not None:
                out.add(e)
    return out


def _dedupe(fns):
    seen = set()
    out = []
    for f in fns:
        k = (f.q, f.pat)
        if k not in seen:
            seen.add(k)
            out.append(f)
    return out


# ------------------------------------------------------------------------------------------------ E1

def _pick(types):
    """a concrete exception type for the report if there is one, else the unknown re-thrown one."""
    return sorted(types, key=lambda t: (t == ANY, t))[0]


def _dp(fn, w):
    """describe a witness that may also be a list of plain strings."""
    if not w:
        return ''
    if any(isinstance(x, str) for x in w):
        return ', '.join(str(x) for x in w)
    return describe_path(fn, w)


def _chain(fb, E, entry, depth=6):
    """entry plus the functions reached from it through call sites that are not inside a swallowing catch (...).  A call
    that already lets an exception escape is followed only into non-virtual callees that have a try block of their own
    (stage functions): the report then names the function whose handler is too narrow, not everything below it."""
    out = []
    seen = set()
    work = [(entry, 0)]
    while work:
        f, d = work.pop(0)
        if id(f) in seen:
            continue
        seen.add(id(f))
        out.append(f)
        if d >= depth:
            continue
        leaking = {st.nid for st in E.sites(f) if st.escaping}
        for n in f.all_nodes():
            if n.get('k') not in ('call', 'construct') or 'q' not in n:
                continue
            if covered_by_catch_all(f, n['id']) is not None:
                continue
            for g in E.targets(f, n):
                if g.noexcept or not g.q.startswith('osmium::'):
                    continue
                if n['id'] in leaking and (n.get('virt') or not g.tries):
                    continue
                work.append((g, d + 1))
    return out


def rule_thread_entries(fb, R, E):
    """Returns [(function, class of the object that started the thread)] for every function in an entry's chain."""
    starts = thread_starts(fb)
    if not starts:
        R.broken('no thread start site (std::thread / thread_handler construction) found')
        return []
    chains = []
    for s in starts:
        sf = s['fn']
        if not s['entries']:
            R.broken('cannot resolve the function started on a thread at %s' % sf.loc(s['node']['id']))
            continue
        for e in _dedupe(s['entries']):
            esc = E.body_escapes(e)
            msg = None
            if esc:
                typ = _pick(esc)
                msg = ('an exception can leave thread entry point %s (std::terminate): %s' % (e.q, E.chain(esc[typ], typ)))
            R.check(not esc, 'E1-thread-entry-no-leak', e.q + '#entry', e.site, msg)
            ch = _chain(fb, E, e)
            for f in ch:
                if not any(x[0].q == f.q for x in chains):
                    chains.append((f, sf.cls))
                for st in E.sites(f):
                    if st.label.startswith('throw ') and not st.escaping:
                        continue        # a local throw caught locally is not a work call
                    key = '%s#%s' % (f.q, st.label)
                    m = None
                    if st.escaping:
                        typ = _pick(st.escaping)
                        m = ('%s runs on a library thread (entry %s) and is not inside a try that catches what it can throw '
                             '(needs catch (...)): %s' % (st.label, e.q, E.chain(st.thrown[typ], typ)))
                    R.check(not st.escaping, 'E1-thread-entry-no-leak', key, f.loc(st.nid), m)
            for (fn, n) in E.opaque:
                if any(fn is g for g in ch) and covered_by_catch_all(fn, n['id']) is None:
                    R.broken('indirect call through %s at %s on a thread entry path cannot be resolved' % (n.get('rclsT'), fn.loc(n['id'])))
    return chains


# ------------------------------------------------------------------------------------------------ E2

def _exception_setters(fb, cls):
    """methods of cls that store an exception into a std::promise member (role: header-exception setter)."""
    out = []
    for f in fb.functions:
        if f.cls == cls and f.has_cfg and not f.is_lambda:
            for n in _calls(f, q='std::promise::set_exception'):
                if n.get('recv') is not None and fn_field(f, n['recv']):
                    out.append(f)
                    break
    return _dedupe(out)


def fn_field(fn, nid):
    r = fn.root_var(nid)
    return r[2] if r is not None and r[0] == 'field' else None


def _is_eod(fn, n):
    return n.get('q') == EODQ


def rule_stage_forwarding(fb, R, chains):
    """Stage functions of the reader side: functions on a reader-side thread that contain a try block.  After each of them
    -- on its normal paths and on every path through each of its handlers -- the end-of-data marker must be pushed, by
    the function itself (directly or through a helper) or by every caller in the chain after the call returns; every
    handler must forward the exception first."""
    n = 0
    reader_chain = [f for (f, starter) in chains if starter in READER_SIDE]

    def is_fwd(fn, c):
        if c.get('q') != ADDQ or len(c.get('args', [])) < 2:
            return False
        g = fb.by_usr.get(c.get('u'), [])
        return bool(g and len(g[0].params) > 1 and 'exception_ptr' in g[0].params[1]['tC'])

    def eod_follows(f, start_block, eod_el):
        """None if the end-of-data push is certain from start_block on: in f, or in every chain caller after f returns."""
        w = must_pass(f, start_block, eod_el) if eod_el else ['no end-of-data push in ' + f.q]
        if w is None:
            return None
        callers = []
        for g in reader_chain:
            for c in g.all_nodes():
                if c.get('k') == 'call' and c.get('u') and not c.get('virt') and any(x is f for x in fb.by_usr.get(c['u'], [])):
                    callers.append((g, c))
        if not callers:
            return w
        for (g, c) in callers:
            ge = _must_elems(fb, g, _is_eod)
            w2 = path_search(g, elem_of(g, c['id']), _exit_t, lambda e, ge=ge, g=g: e in ge or (g.nodes.get(e) or {}).get('k') == 'throw')
            if w2 is not None:
                return w
        return None

    for f in reader_chain:
        if not f.tries:
            continue
        n += 1
        eods = _calls(f, q=EODQ)
        eod_el = _must_elems(fb, f, _is_eod)
        outq = f.root_var(eods[0]['args'][0]) if eods and eods[0].get('args') else None
        same_q = all(c.get('args') and f.root_var(c['args'][0]) == outq for c in eods)
        handlers = [(t, h) for t in f.tries for h in t['handlers']]
        setters = _exception_setters(fb, f.cls) if f.cls else []
        sq = {s.q for s in setters}
        # --- end of data on the normal paths
        wn = eod_follows(f, f.entry, eod_el)
        R.check(same_q and wn is None, 'E2-end-of-data-on-all-paths', f.q + '#end-of-data', f.site,
                'after %s the end-of-data marker must be pushed to the outgoing queue on every normal path, else the consumer waits forever (%s)'
                % (f.q, _dp(f, wn) or 'different queues'))
        for (t, h) in handlers:
            hb = handler_entry_block(f, h)
            if hb is None:
                R.broken('%s: cannot locate the CFG block of the handler at line %s' % (f.q, h.get('l')))
                continue
            # --- end of data on the handler paths
            wh = eod_follows(f, hb, eod_el)
            R.check(wh is None, 'E2-end-of-data-on-all-paths', f.q + '#end-of-data', f.site,
                    'the end-of-data marker must be pushed on every path through the exception handler of %s, else the consumer waits '
                    'forever after a failure (%s)' % (f.q, _dp(f, wh)))
            # --- exception forwarded to the same queue, before the end-of-data marker
            fwd_el = set()
            for e in _must_elems(fb, f, is_fwd):
                c = f.nodes[e]
                if not _in_handler(h, c):
                    continue
                if c.get('q') == ADDQ:
                    if outq is not None and f.root_var(c['args'][0]) != outq:
                        continue
                    if not _from_current_exception(f, c['args'][1]):
                        continue
                fwd_el.add(e)
            w = path_search(f, hb, lambda e: _exit_t(e) or e in eod_el, lambda e: e in fwd_el, from_block_start=True)
            R.check(bool(fwd_el) and w is None, 'E2-catch-all-forwards-exception', f.q + '#forward-to-queue', f.loc(min(fwd_el)) if fwd_el else f.site,
                    'the exception handler of %s must enqueue std::current_exception() on its outgoing queue on every path, before the '
                    'end-of-data marker (otherwise the failure is lost and the caller sees a clean end of file): %s' % (f.q, _dp(f, w) or 'no such call'))
            # --- header promise
            if sq:
                sc_el = set()
                for e in _must_elems(fb, f, lambda fn, c: c.get('q') in sq):
                    c = f.nodes[e]
                    if _in_handler(h, c) and (c.get('q') not in sq or (c.get('args') and _from_current_exception(f, c['args'][0]))):
                        sc_el.add(e)
                w = path_search(f, hb, _exit_t, lambda e: e in sc_el, from_block_start=True)
                R.check(bool(sc_el) and w is None, 'E2-catch-all-forwards-exception', f.q + '#header-exception', f.loc(min(sc_el)) if sc_el else f.site,
                        'the exception handler of %s must fulfil the header promise with std::current_exception() (via %s) on every path, '
                        'otherwise Reader::header() reports broken_promise instead of the real error' % (f.q, ', '.join(sorted(sq))))
    if n == 0:
        R.broken('no reader-side stage function (a function with a try block on a reader thread) found')


# ------------------------------------------------------------------------------------------------ H1 / H2

def _promise_field(rec):
    for fd in rec.fields:
        if fd['tC'].replace('const ', '').startswith('std::promise<'):
            return fd
    return None


def _claims_flag(g):
    """qualified name of the bool member that method g test-and-sets, if g returns true exactly on the paths where it found the
    member false and stored true into it (every `return true` is guarded by the member being false and dominated by the store;
    every other return yields constant false); else None."""
    if not g.has_cfg:
        return None
    rets = [r for r in g.all_nodes() if r.get('k') == 'return' and isinstance(r.get('sub'), int)]
    if not rets:
        return None
    flagq = None
    for r in rets:
        v = g.const_value(r['sub'])
        if v is None:
            return None
        if v == 0:
            continue
        fl = None
        for (c, sense, _b) in guards_of(g, r['id']):
            cn = g.sn(c)
            if (not sense) and cn is not None and cn.get('k') == 'member' and cn.get('field') and cn.get('t') == 'bool' and g.is_this_member(c):
                fl = cn['q']
        if fl is None or (flagq is not None and fl != flagq):
            return None
        stored = False
        for a in g.all_nodes():
            if a.get('k') == 'assign' and a.get('op') == '=' and (g.sn(a['lhs']) or {}).get('q') == fl and g.const_value(a['rhs']) == 1 \
                    and g.elem_dominates(a['id'], r['id']):
                stored = True
        if not stored:
            return None
        flagq = fl
    return flagq


def rule_header_promise(fb, R):
    rec = fb.record(PARSER)
    if rec is None:
        R.broken('record %s not found' % PARSER)
        return set()
    pf = _promise_field(rec)
    if pf is None:
        R.broken('%s: no std::promise member found' % PARSER)
        return set()
    value_setters = set()
    flags = set()
    nacc = 0
    for f in fb.functions:
        if not f.has_cfg:
            continue
        accs = [n for n in f.all_nodes() if n.get('k') == 'member' and n.get('q') == pf['q']]
        if not accs:
            continue
        pm = f.parent_map()
        for a in accs:
            # constructor initialiser of the reference itself
            x = a['id']
            in_init = False
            hops = 0
            while x in pm and hops < 6:
                x = pm[x]
                hops += 1
                if f.nodes[x].get('k') == 'init' and f.nodes[x].get('name') == pf['name']:
                    in_init = True
            if in_init:
                continue
            nacc += 1
            key = '%s#%s' % (f.q, pf['name'])
            call = None
            for c in f.all_nodes():
                if c.get('k') == 'call' and c.get('recv') is not None and f.strip(c['recv']) == a['id'] and \
                        c.get('q') in ('std::promise::set_value', 'std::promise::set_exception'):
                    call = c
            if call is None:
                R.bad('H1-header-promise-guarded', key, f.loc(a['id']),
                      '%s is used in %s other than by a guarded set_value/set_exception' % (pf['name'], f.q))
                continue
            flag = None
            claimed = None
            for (c, sense, _b) in guards_of(f, call['id']):
                cn = f.sn(c)
                if (not sense) and cn is not None and cn.get('k') == 'member' and cn.get('field') and cn.get('t') == 'bool' and f.is_this_member(c):
                    flag = cn
                elif sense and cn is not None and cn.get('k') == 'call' and cn.get('u') and cn.get('rcls') == f.cls and not cn.get('virt'):
                    # a helper of the class whose true result means "this call found the flag clear and set it" (inlined,
                    # path-sensitive on its result)
                    for g in fb.by_usr.get(cn['u'], []):
                        fq = _claims_flag(g)
                        if fq is not None:
                            claimed = fq
            setok = False
            if flag is None and claimed is not None:
                flags.add(claimed)
                R.ok('H1-header-promise-guarded', key, f.loc(call['id']))
                if call['q'].endswith('set_value'):
                    value_setters.add(f.q)
                continue
            if flag is not None:
                flags.add(flag['q'])
                for s in f.all_nodes():
                    if s.get('k') == 'assign' and s.get('op') == '=':
                        l = f.sn(s['lhs'])
                        if l is not None and l.get('k') == 'member' and l.get('q') == flag['q'] and f.const_value(s['rhs']) == 1:
                            if f.elem_dominates(s['id'], call['id']) or f.elem_dominates(call['id'], s['id']):
                                gs = {(f.expr(c), se) for (c, se, _b) in guards_of(f, s['id'])}
                                if (f.expr(flag['id']), False) in gs:
                                    setok = True
            R.check(flag is not None and setok, 'H1-header-promise-guarded', key, f.loc(call['id']),
                    '%s in %s must be guarded by a test of a done-flag that is set in the same guarded region (a second set_value/'
                    'set_exception throws future_error in the parser thread)' % (call['q'], f.q))
            if call['q'].endswith('set_value'):
                value_setters.add(f.q)
    # the flag is never reset
    for f in fb.functions:
        if not f.has_cfg:
            continue
        for s in f.all_nodes():
            if s.get('k') == 'assign':
                l = f.sn(s['lhs'])
                if l is not None and l.get('k') == 'member' and l.get('q') in flags and f.const_value(s['rhs']) != 1:
                    R.bad('H1-header-promise-guarded', '%s#flag-reset' % f.q, f.loc(s['id']), 'the header done-flag is reset in %s' % f.q)
    if nacc == 0:
        R.broken('no use of %s found' % pf['q'])
    # H2
    run = next((m for m in rec.methods if m['q'] == PARSER + '::run'), None)
    if run is None or not value_setters:
        R.broken('Parser::run / header value setter not found')
        return set()
    ovs = _dedupe([g for g in fb.overriders(run['u']) if g.has_cfg])
    if not ovs:
        R.broken('no override of Parser::run in the fact base')

    def is_set(fn, n):
        return n.get('q') in value_setters
    memo = {}
    for g in ovs:
        w = must_call(fb, g, is_set, 6, memo)
        okc = False
        if w is not None:
            for c in fb.fns('%s::(ctor)' % g.cls):
                if must_call(fb, c, is_set, 4, memo) is None:
                    okc = True
        R.check(w is None or okc, 'H2-run-sets-header', g.q + '#sets-header', g.site,
                '%s can return normally without the header promise being fulfilled (Reader::header() then throws broken_promise '
                'although the file was read): %s' % (g.q, _dp(g, w)))
    return value_setters


# ------------------------------------------------------------------------------------------------ X1 / H3 (parser stage)

def _parser_stage_functions(fb, E):
    """Parser::parse and everything it can run (virtual run() overriders and their helpers, lambdas handed to std algorithms)."""
    roots = [f for f in fb.fns(PARSER + '::parse') if f.has_cfg]
    seen = {}
    work = [(f, 0) for f in roots]
    while work:
        f, d = work.pop()
        if id(f) in seen:
            continue
        seen[id(f)] = f
        if d >= 12:
            continue
        for n in f.all_nodes():
            if n.get('k') in ('call', 'construct') and 'q' in n:
                for g in E.targets(f, n):
                    if g.q.startswith('osmium::'):
                        work.append((g, d + 1))
    return list(seen.values())


def rule_parser_handlers(fb, R, E):
    """X1: errors of the upstream stage reach the parser as stored exceptions re-thrown by queue_wrapper::pop().  A handler of
    the parser stage whose try block (transitively) pops the input queue and which catches a type that the producer side can
    throw must not swallow it: every path through it rethrows, throws, or forwards the exception (promise / queue)."""
    # producer side: everything thrown in the functions of the read thread
    prod = {}
    for s in thread_starts(fb):
        if s['fn'].cls != RTM:
            continue
        for e in _dedupe(s['entries']):
            for f in [e] + [g for g in _chain(fb, E, e)]:
                for st in E.sites(f):
                    for typ, w in st.thrown.items():
                        if typ != ANY:
                            prod.setdefault(typ, (st, w))
    if not prod:
        R.broken('X1: no exception type thrown on the producer side of the input queue found')
        return

    def is_forward(fn, c):
        if c.get('q') == 'std::promise::set_exception':
            return True
        if c.get('q') == ADDQ:
            g = fb.by_usr.get(c.get('u'), [])
            return bool(g and len(g[0].params) > 1 and 'exception_ptr' in g[0].params[1]['tC'])
        return False
    n = 0
    for f in _dedupe(_parser_stage_functions(fb, E)):
        for t in f.tries:
            pops = False
            for c in f.all_nodes():
                if c.get('k') == 'call' and 'q' in c and 'o' in c and t['b'] <= c['o'] <= t['e']:
                    cl = {c['q']}
                    for g in E.targets(f, c):
                        cl |= fb.callees_closure(g, 8) | {g.q}
                    if QW + '::pop' in cl:
                        pops = True
                        break
            if not pops:
                continue
            fwd = _must_elems(fb, f, is_forward)
            taken = set()
            for h in t['handlers']:
                caught = sorted(typ for typ in prod if typ not in taken and
                                (h.get('all') or (h.get('typeq') or h.get('type')) == typ or (h.get('typeq') or h.get('type')) in E.bases.get(typ, ())))
                taken |= set(caught)
                n += 1
                hname = '...' if h.get('all') else (h.get('typeq') or h.get('type'))
                key = '%s#catch(%s)' % (f.q, hname)
                hb = handler_entry_block(f, h)
                if hb is None:
                    R.broken('%s: cannot locate the handler block of catch (%s)' % (f.q, hname))
                    continue

                def ends(e, f=f, h=h, fwd=fwd):
                    if e in fwd and _in_handler(h, f.nodes[e]):
                        return True
                    x = f.nodes.get(e)
                    return x is not None and x.get('k') == 'throw' and _in_handler(h, x)
                w = path_search(f, hb, _exit_t, ends, from_block_start=True) if caught else None
                msg = None
                if w is not None:
                    st, wit = prod[caught[0]]
                    msg = ('catch (%s) in %s swallows %s, which the read thread can store into the input queue (%s) and queue_wrapper::pop() '
                           're-throws inside this try block: a failed read/decompression is turned into a normal result and reported nowhere'
                           % (hname, f.q, ', '.join(caught), E.chain(wit, caught[0])))
                R.check(w is None, 'X1-parser-handler-keeps-upstream-errors', key, '%s:%s' % (f.file, h.get('l', f.line)), msg,
                        detail='producer-side types caught here: %s' % (caught or 'none'))
    if n == 0:
        R.broken('X1: no handler around an input-queue pop found in the parser stage (Parser::parse expected)')


DATA_START = (NS + 'ParserWithBuffer::maybe_new_buffer', PARSER + '::send_to_output_queue')


def rule_header_before_data(fb, R, value_setters):
    """H3: object data is handed to the result queue (or a new buffer is started for an object) only after the header promise
    has been fulfilled: a consumer that waits in header() while the parser blocks on the full result queue would deadlock."""
    classes = _parser_classes(fb) - {NS + 'ParserWithBuffer'}
    if not classes or not value_setters:
        R.broken('H3: parser classes / header value setter not found')
        return 0

    def is_set(fn, n):
        return n.get('q') in value_setters
    memo = {}
    fns = _dedupe([g for g in fb.functions if g.cls in classes and g.has_cfg and not g.is_lambda])
    callers = {}
    for g in fns:
        for c in g.all_nodes():
            if c.get('k') == 'call' and c.get('u') and not c.get('virt'):
                for t in fb.by_usr.get(c['u'], []):
                    if t.cls in classes:
                        callers.setdefault(t.q, []).append((g, c))
    ctor_sets = {cq for cq in classes if any(must_call(fb, c, is_set, 4, memo) is None for c in fb.fns(cq + '::(ctor)'))}

    def before(g, nid, depth=0):
        el = elem_of(g, nid)
        se = _must_elems(fb, g, is_set, 4, memo)
        if path_search(g, g.entry, lambda e: e == el, lambda e: e in se, from_block_start=True) is None:
            return True
        cs = callers.get(g.q, [])
        return bool(cs) and depth < 4 and all(before(cg, c['id'], depth + 1) for (cg, c) in cs)
    n = 0
    for g in fns:
        for c in g.all_nodes():
            if c.get('k') != 'call' or c.get('q') not in DATA_START:
                continue
            n += 1
            what = c['q'].rsplit('::', 1)[-1]
            arg = None
            if c['q'] == DATA_START[0] and c.get('args'):
                a = g.sn(c['args'][0])
                if a is not None and a.get('k') == 'var' and a.get('vk') == 'enumconst':
                    arg = a['q'].rsplit('::', 1)[-1]
            key = '%s#header-before:%s%s' % (g.q, what, '(%s)' % arg if arg else '')
            ok = g.cls in ctor_sets or before(g, c['id'])
            R.check(ok, 'H3-header-set-before-object-data', key, g.loc(c['id']),
                    '%s reaches %s%s without the header promise having been fulfilled on some path: object data is queued before the header; '
                    'a consumer blocked in Reader::header() while the parser blocks on the full result queue never returns'
                    % (g.q, what, '(%s)' % arg if arg else ''))
    return n


# ------------------------------------------------------------------------------------------------ W1 / W2 (URL input: curl child process)

def _ceval(fn, nid, env, depth=0):
    """Constant evaluation of an integer / boolean expression of the fact base under an environment for a few variables:
    env[('var', decl)], env[('idx', array decl, constant index)], env[('node', id)].  None = depends on something else."""
    if nid is None or nid not in fn.nodes or depth > 40:
        return None
    n = fn.nodes[nid]
    if ('node', nid) in env:
        return env[('node', nid)]
    k = n.get('k')
    if k in ('wrap', 'icast', 'cast'):
        return _ceval(fn, n.get('sub'), env, depth + 1)
    if k == 'var':
        if ('var', n.get('d')) in env:
            return env[('var', n.get('d'))]
        if n.get('vk') == 'enumconst' and 'cv' in n:
            return int(n['cv'])
        if n.get('vk') in ('local', None):
            # a named local written exactly once (its initialiser) stands for that expression
            init, writes = None, 0
            for m in fn.all_nodes():
                if m.get('k') == 'decl':
                    for v in m['vars']:
                        if v['d'] == n.get('d'):
                            writes += 1
                            init = v.get('init') if isinstance(v.get('init'), int) else None
                elif m.get('k') == 'assign' and (fn.sn(m['lhs']) or {}).get('d') == n.get('d') and (fn.sn(m['lhs']) or {}).get('k') == 'var':
                    writes += 2
                elif m.get('k') == 'unop' and m.get('op') in ('++', '--') and (fn.sn(m['sub']) or {}).get('d') == n.get('d'):
                    writes += 2
            if writes == 1 and init is not None:
                return _ceval(fn, init, env, depth + 1)
        return None
    if k == 'index':
        b = fn.sn(n['base'])
        i = _ceval(fn, n['idx'], env, depth + 1)
        if b is not None and b.get('k') == 'var' and i is not None:
            return env.get(('idx', b.get('d'), i))
        return None
    if k == 'lit':
        v = fn.const_value(nid)
        return v
    if k == 'unop':
        v = _ceval(fn, n['sub'], env, depth + 1)
        if v is None:
            return None
        return {'!': lambda x: int(not x), '-': lambda x: -x, '~': lambda x: ~x, '+': lambda x: x}.get(n.get('op'), lambda x: None)(v)
    if k == 'binop':
        op = n.get('op')
        a = _ceval(fn, n['lhs'], env, depth + 1)
        if op == '&&':
            if a is not None and not a:
                return 0
            b = _ceval(fn, n['rhs'], env, depth + 1)
            return None if (a is None or b is None) and not (b is not None and not b) else int(bool(a) and bool(b)) if a is not None and b is not None else 0
        if op == '||':
            if a is not None and a:
                return 1
            b = _ceval(fn, n['rhs'], env, depth + 1)
            if b is not None and b:
                return 1
            return 0 if (a is not None and b is not None) else None
        b = _ceval(fn, n['rhs'], env, depth + 1)
        if a is None or b is None:
            return None
        try:
            return {'<': lambda: int(a < b), '<=': lambda: int(a <= b), '>': lambda: int(a > b), '>=': lambda: int(a >= b),
                    '==': lambda: int(a == b), '!=': lambda: int(a != b), '&': lambda: a & b, '|': lambda: a | b, '^': lambda: a ^ b,
                    '>>': lambda: a >> b, '<<': lambda: a << b, '+': lambda: a + b, '-': lambda: a - b, '*': lambda: a * b}[op]()
        except (KeyError, ValueError):
            return None
    if k == 'condop':
        c = _ceval(fn, n['cond'], env, depth + 1)
        if c is None:
            return None
        return _ceval(fn, n['then'] if c else n['else'], env, depth + 1)
    if 'cv' in n and not n.get('float'):
        try:
            return int(n['cv'])
        except ValueError:
            return None
    return None


def _walk_outcomes(fn, start_elem, env):
    """Follow the CFG from just after start_elem, deciding every branch whose condition evaluates under env (both edges
    otherwise).  Returns the set of outcomes reached: 'throw', 'exit', or 'unknown-branch' markers are not needed."""
    pos = fn.positions()
    b0, i0 = pos[start_elem]
    out = set()
    seen = set()
    work = [(b0, i0 + 1)]
    while work:
        b, i = work.pop()
        blk = fn.blocks[b]
        thrown = False
        for e in blk['elems'][i:]:
            if fn.nodes[e].get('k') == 'throw':
                out.add('throw')
                thrown = True
                break
        if thrown:
            continue
        if b == fn.exit:
            out.add('exit')
            continue
        succs = blk['succs']
        nxt = [x for x in succs if x is not None]
        if 'cond' in blk and len(succs) == 2 and blk.get('termcls') != 'SwitchStmt':
            v = _ceval(fn, blk['cond'], env)
            if v is not None:
                t = succs[0] if v else succs[1]
                nxt = [t] if t is not None else []
        if not nxt and b != fn.exit:
            out.add('exit')
        for x in nxt:
            if x not in seen:
                seen.add(x)
                work.append((x, 0))
    return out


def rule_child_process(fb, R, dirs=('/osmium/io/',)):
    """W1: after waitpid(child, &status, 0) the failure of the child is reported: the throw is reached when waitpid fails, when
    the child was killed by a signal, and when it exited with a non-zero code, and is not reached for a clean exit -- decided by
    evaluating the extracted branch conditions (the W* macros are bit operations on the status word) for representative
    status words.   W2: pipe ends of the child: the child closes every descriptor except the write end, dups the write end
    onto stdout; the parent closes the write end on every path and returns the read end."""
    nw = 0
    for f in _dedupe([g for g in fb.functions if g.has_cfg and g.file and any(d in g.file for d in dirs)]):
        for c in _calls(f):
            if c.get('q') not in ('waitpid', '::waitpid') or len(c.get('args', [])) < 2:
                continue
            nw += 1
            a1 = f.sn(c['args'][1])
            sv = f.sn(a1['sub']) if a1 is not None and a1.get('k') == 'unop' and a1.get('op') == '&' else None
            if sv is None or sv.get('k') != 'var':
                R.broken('%s: cannot identify the status variable of waitpid' % f.q)
                continue
            env0 = {}
            rv = None
            for m in f.all_nodes():
                if m.get('k') == 'decl':
                    for v in m['vars']:
                        if isinstance(v.get('init'), int) and c['id'] in f.subtree(v['init']):
                            rv = v['d']
            start = elem_of(f, c['id'])
            for (name, pid, status, want) in (('clean-exit', 4711, 0x0000, 'exit'), ('exit-code-1', 4711, 0x0100, 'throw'),
                                              ('killed-by-signal', 4711, 0x000b, 'throw'), ('waitpid-failed', -1, 0, 'throw')):
                env = dict(env0)
                env[('var', sv['d'])] = status
                env[('node', c['id'])] = pid
                if rv is not None:
                    env[('var', rv)] = pid
                got = _walk_outcomes(f, start, env)
                R.check(got == {want}, 'W1-child-failure-reported', '%s#waitpid:%s' % (f.q, name), f.loc(c['id']),
                        'after waitpid() in %s, with result %d and status word 0x%04x (%s) the function must %s but can %s: a failed '
                        'download (curl exit code / signal) would not be reported to the caller of close()'
                        % (f.q, pid, status, name, 'throw' if want == 'throw' else 'return normally', ' or '.join(sorted(got)) or 'nothing'))
    if nw == 0:
        R.broken('W1: no waitpid call found under io/ (Reader::close expected)')

    np = 0
    for f in _dedupe([g for g in fb.functions if g.has_cfg and g.file and any(d in g.file for d in dirs)]):
        pipes = [c for c in _calls(f) if c.get('q') in ('pipe', '::pipe') and c.get('args')]
        forks = [c for c in _calls(f) if c.get('q') in ('fork', '::fork')]
        if not pipes or not forks:
            continue
        np += 1
        arr = f.sn(pipes[0]['args'][0])
        if arr is None or arr.get('k') != 'var':
            R.broken('%s: cannot identify the array passed to pipe()' % f.q)
            continue
        ad = arr['d']
        pidv = None
        for m in f.all_nodes():
            if m.get('k') == 'decl':
                for v in m['vars']:
                    if isinstance(v.get('init'), int) and forks[0]['id'] in f.subtree(v['init']):
                        pidv = v['d']
        # the branch on pid == 0
        childb = None
        for b in f.blocks.values():
            if 'cond' in b and len(b['succs']) == 2 and pidv is not None:
                t = _ceval(f, b['cond'], {('var', pidv): 0})
                p_ = _ceval(f, b['cond'], {('var', pidv): 4711})
                if t is not None and p_ is not None and bool(t) != bool(p_) and _ceval(f, b['cond'], {('var', pidv): -1}) == p_:
                    childb = (b, b['succs'][0] if t else b['succs'][1], b['succs'][1] if t else b['succs'][0])
        if childb is None:
            R.broken('%s: cannot find the branch that separates the fork child (pid == 0) from the parent' % f.q)
            continue
        _blk, child_s, parent_s = childb
        child_blocks = f.reachable_blocks(child_s) - f.reachable_blocks(parent_s) if child_s is not None else set()
        pos = f.positions()
        closes = [c for c in _calls(f) if c.get('q') in ('close', '::close') and c.get('args')]
        # --- child: which descriptors does the closing loop spare?
        READ, WRITE, OTHER = 3, 4, 5
        spared = {}
        shape_ok = True
        child_closes = [c for c in closes if pos.get(c['id'], (None,))[0] in child_blocks]
        loop_closes = [c for c in child_closes if (f.sn(c['args'][0]) or {}).get('k') == 'var' and [l for l in f.loops if f.in_range(c['id'], l['b'], l['e'])]]
        if not loop_closes:
            R.broken('%s: no descriptor-closing loop found in the fork child' % f.q)
            continue
        for v in (READ, WRITE, OTHER, 0, 2):
            closed = False
            for c in loop_closes:
                iv = f.sn(c['args'][0])['d']
                env = {('var', iv): v, ('idx', ad, 0): READ, ('idx', ad, 1): WRITE}
                if pidv is not None:
                    env[('var', pidv)] = 0
                # only guards that talk about the loop variable decide which descriptors are closed
                rel = [(cn, sense) for (cn, sense, _b) in guards_of(f, c['id'])
                       if any(f.nodes[x].get('k') == 'var' and f.nodes[x].get('d') == iv for x in f.subtree(cn))]
                vals = [(_ceval(f, cn, env), sense) for (cn, sense) in rel]
                if any(x is None for (x, _s) in vals):
                    shape_ok = False
                if all(x is not None and bool(x) == bool(sense) for (x, sense) in vals):
                    closed = True
            spared[v] = not closed
        if not shape_ok:
            R.broken('%s: a guard of the descriptor-closing loop in the fork child cannot be evaluated' % f.q)
            continue
        kept = sorted(k for k, sp in spared.items() if sp)
        R.check(kept == [WRITE], 'W2-pipe-ends-paired', f.q + '#child-closes-all-but-write-end', f.loc(loop_closes[0]['id']),
                'the fork child in %s must close every inherited descriptor except the write end of the pipe (pipefd[1]); it spares %s. '
                'A child that keeps the read end never gets EPIPE/EOF semantics right: when the consumer stops early curl keeps writing and '
                'Reader::close() hangs in waitpid()' % (f.q, ', '.join({READ: 'the read end pipefd[0]', WRITE: 'the write end', OTHER: 'unrelated descriptors',
                                                                          0: 'stdin', 2: 'stderr'}[k] for k in kept) or 'nothing (not even the write end)'))
        dups = [c for c in _calls(f) if c.get('q') in ('dup2', '::dup2') and len(c.get('args', [])) == 2 and pos.get(c['id'], (None,))[0] in child_blocks
                and _ceval(f, c['args'][0], {('idx', ad, 0): READ, ('idx', ad, 1): WRITE}) == WRITE and _ceval(f, c['args'][1], {}) == 1]
        R.check(bool(dups), 'W2-pipe-ends-paired', f.q + '#child-dups-write-end-to-stdout', f.site,
                'the fork child in %s must dup2() the write end of the pipe onto descriptor 1' % f.q)
        # --- parent
        penv = {('idx', ad, 0): READ, ('idx', ad, 1): WRITE}
        pw = {elem_of(f, c['id']) for c in closes if _ceval(f, c['args'][0], penv) == WRITE and pos.get(c['id'], (None,))[0] not in child_blocks}
        pr = [c for c in closes if _ceval(f, c['args'][0], penv) == READ and pos.get(c['id'], (None,))[0] not in child_blocks]
        w = must_pass(f, parent_s, pw) if parent_s is not None else ['no parent branch']
        R.check(w is None, 'W2-pipe-ends-paired', f.q + '#parent-closes-write-end', f.site,
                'the parent in %s must close the write end of the pipe (pipefd[1]) on every path, otherwise the reader never sees end of file: %s' % (f.q, _dp(f, w)))
        rets = [r for r in f.all_nodes() if r.get('k') == 'return' and isinstance(r.get('sub'), int)]
        okr = bool(rets) and all(_ceval(f, r['sub'], penv) == READ for r in rets) and not pr
        R.check(okr, 'W2-pipe-ends-paired', f.q + '#parent-returns-read-end', f.site,
                'the parent in %s must keep the read end of the pipe (pipefd[0]) open and return it' % f.q)
    if np == 0:
        R.broken('W2: no function that creates a pipe and forks found under io/ (Reader::execute expected)')


# ------------------------------------------------------------------------------------------------ S1..S3

def _status_field(fb, rec):
    for fd in rec.fields:
        e = fb.enum(fd['tC'])
        if e is not None and fd['tC'].startswith(rec.q + '::'):
            return fd, e
    return None, None


def _is_status_member(fn, nid, sf):
    n = fn.sn(nid)
    return n is not None and n.get('k') == 'member' and n.get('q') == sf['q']


def _enum_of(fn, nid, en):
    n = fn.sn(nid)
    if n is not None and n.get('k') == 'var' and n.get('vk') == 'enumconst' and n.get('q', '').startswith(en['q'] + '::'):
        return n['q'].rsplit('::', 1)[-1]
    return None


def _allowed_status(fn, nid, sf, en):
    allowed = {e['name'] for e in en['enumerators']}
    for (c, sense, _b) in guards_of(fn, nid):
        cn, pos = _resolve_bool(fn, c)
        if not pos:
            sense = not sense
        if cn is None or cn.get('k') != 'binop' or cn['op'] not in ('==', '!='):
            continue
        if _is_status_member(fn, cn['lhs'], sf):
            v = _enum_of(fn, cn['rhs'], en)
        elif _is_status_member(fn, cn['rhs'], sf):
            v = _enum_of(fn, cn['lhs'], en)
        else:
            continue
        if v is None:
            continue
        eq = (cn['op'] == '==') == bool(sense)
        allowed &= ({v} if eq else (allowed - {v}))
    return allowed


def _status_writes(fn, sf, closeq):
    out = []
    for n in fn.all_nodes():
        if n.get('k') == 'assign' and _is_status_member(fn, n['lhs'], sf):
            out.append(n)
        elif n.get('k') == 'call' and n.get('q') == closeq:
            out.append(n)
    return out


def rule_reader_state(fb, R, E):
    rec = fb.record(READER)
    if rec is None:
        R.broken('record %s not found' % READER)
        return
    sf, en = _status_field(fb, rec)
    if sf is None:
        R.broken('%s: status field (nested enum type) not found' % READER)
        return
    names = {e['name'] for e in en['enumerators']}
    if not {'okay', 'error', 'closed'} <= names:
        R.broken('%s: enumerators okay/error/closed not found' % en['q'])
        return
    closeq = READER + '::close'
    methods = _dedupe([f for f in fb.functions if f.cls == READER and f.has_cfg and not f.is_lambda and f.kind == 'method'])
    all_names = {e['name'] for e in en['enumerators']}

    def callee_methods(f, c):
        if c.get('k') != 'call' or not c.get('u') or c.get('rcls') != READER or c.get('q') == closeq:
            return []
        return [g for g in fb.by_usr.get(c['u'], []) if g.has_cfg and g.kind == 'method']

    called = set()
    for f in methods:
        for c in f.all_nodes():
            for g in callee_methods(f, c):
                called.add(g.q)

    def sites(f, depth=0):
        """[(node in f, role, statuses admitted further down, path [(fn, node)...] to the real access)]: direct accesses of
        the result queue / header future, and calls of helper methods of the class that contain one."""
        out = []
        for c in f.all_nodes():
            if c.get('k') != 'call' or 'q' not in c:
                continue
            if c.get('recv') is not None and fn_field(f, c['recv']) is not None:
                if c['q'] in (QW + '::pop', QUEUE + '::wait_and_pop'):
                    out.append((c, 'pop', set(all_names), [(f, c)]))
                    continue
                if c['q'] in ('std::future::get', 'std::shared_future::get'):
                    out.append((c, 'future-get', set(all_names), [(f, c)]))
                    continue
            if depth < 3:
                for g in callee_methods(f, c):
                    for (c2, role, inner, path) in sites(g, depth + 1):
                        out.append((c, role, inner & _allowed_status(g, c2['id'], sf, en), [(f, c)] + path))
        return out

    def handler_actions(f, h):
        """elements inside handler h that close the reader / store status error / store another status; `both` are calls of
        a helper of the class that closes and afterwards stores error on every path (counts as close followed by error)."""
        def is_close(fn, c):
            return c.get('q') == closeq
        closes = {e for e in _must_elems(fb, f, is_close) if _in_handler(h, f.nodes[e])}
        errs, others, both = set(), set(), set()
        for x in f.all_nodes():
            if not _in_handler(h, x):
                continue
            if x.get('k') == 'assign' and _is_status_member(f, x['lhs'], sf):
                (errs if _enum_of(f, x['rhs'], en) == 'error' else others).add(elem_of(f, x['id']))
            elif x.get('k') == 'call' and x.get('q') != closeq:
                for g in callee_methods(f, x):
                    st = [y for y in g.all_nodes() if y.get('k') == 'assign' and _is_status_member(g, y['lhs'], sf)]
                    if not st or must_pass(g, g.entry, {elem_of(g, y['id']) for y in st}) is not None:
                        continue
                    e_el = {elem_of(g, y['id']) for y in st if _enum_of(g, y['rhs'], en) == 'error'}
                    o_el = {elem_of(g, y['id']) for y in st} - e_el
                    xe = elem_of(f, x['id'])
                    if xe in closes:
                        gc = _must_elems(fb, g, is_close)
                        # error stored after the close inside the helper, and it is the last status written
                        after = e_el and all(path_search(g, c, _exit_t, lambda e: e in e_el) is None for c in gc) \
                            and all(path_search(g, e0, lambda e: e in gc or e in o_el, lambda e: False) is None for e0 in e_el)
                        if after:
                            both.add(xe)
                            errs.add(xe)
                        else:
                            others.add(xe)
                    else:
                        (errs if not o_el else others).add(xe)
        return closes, errs, others, both

    nacc = 0
    for f in methods:
        if f.q == closeq or f.q in called:
            continue            # helpers are examined through the API functions that call them
        for (n, role, inner, path) in sites(f):
            nacc += 1
            allowed = _allowed_status(f, n['id'], sf, en) & inner
            stale = None
            for (g, c) in path:
                el = elem_of(g, c['id'])
                for wnode in _status_writes(g, sf, closeq):
                    if path_search(g, wnode['id'], lambda e, el=el: e == el, lambda e: False) is not None:
                        stale = (g, wnode)
            if role == 'pop':
                ok = allowed == {'okay'}
                msg = ('%s pops the result queue although the status may be %s (after an error / close / eof no further data may be '
                       'delivered and nothing may block)' % (f.q, sorted(allowed - {'okay'})))
            else:
                ok = 'error' not in allowed
                msg = '%s waits on the header future although the status may be error' % f.q
            if stale is not None:
                ok = False
                msg = '%s: the status is changed at %s on a path that leads back to the %s without re-testing it' % (f.q, stale[0].loc(stale[1]['id']), role)
            R.check(ok, 'S1-status-gates-access', '%s#%s' % (f.q, role), f.loc(n['id']), msg)
            # S2: the innermost catch (...) around the access, at whichever level of the call path it stands
            cov = None
            for (g, c) in reversed(path):
                for t in sorted(g.enclosing_tries(c['id']), key=lambda t: -t['b']):
                    for h in t['handlers']:
                        if h.get('all'):
                            cov = (g, t, h)
                            break
                    if cov:
                        break
                if cov:
                    break
            base = '%s#catch-all' % f.q
            if cov is None:
                R.bad('S2-handler-closes-marks-error-rethrows', base + ':exists', f.loc(n['id']),
                      '%s: the %s is not inside a try with catch (...); a stored exception would leave the Reader open in status okay' % (f.q, role))
                continue
            hf, t, h = cov
            hb = handler_entry_block(hf, h)
            if hb is None:
                R.broken('%s: handler block not found' % hf.q)
                continue
            rethrows = {elem_of(hf, x['id']) for x in _rethrow_nodes(hf, h)}
            closes, errs, others, both = handler_actions(hf, h)
            w = handler_always_rethrows(hf, h)
            R.check(w is None, 'S2-handler-closes-marks-error-rethrows', base + ':rethrows', hf.loc(n['id']) if hf is f else hf.site,
                    'the catch (...) in %s must end in `throw;` on every path (the error has to reach the caller): %s' % (hf.q, _dp(hf, w)))
            w = path_search(hf, hb, lambda e: e in rethrows or _exit_t(e), lambda e: e in closes, from_block_start=True)
            R.check(bool(closes) and w is None, 'S2-handler-closes-marks-error-rethrows', base + ':closes', hf.site,
                    'the catch (...) in %s must call close() on every path (threads keep running, queues stay full otherwise)' % hf.q)
            bad = not errs
            for c in closes - both:
                if path_search(hf, c, lambda e: e in rethrows or _exit_t(e), lambda e: e in errs) is not None:
                    bad = True
            for e0 in errs:
                if path_search(hf, e0, lambda e: e in closes or e in others, lambda e: e in rethrows) is not None:
                    bad = True
            R.check(not bad, 'S2-handler-closes-marks-error-rethrows', base + ':marks-error', hf.site,
                    'the catch (...) in %s must store status error after close() (close() stores closed) and before rethrowing, so that '
                    'no later call delivers data or a header' % hf.q)
    if nacc == 0:
        R.broken('%s: no queue pop / future get found in its methods' % READER)

    # ---- S3 close()
    for f in _dedupe(fb.fns(closeq)):
        def stores_closed(g):
            st = {elem_of(g, y['id']) for y in g.all_nodes()
                  if y.get('k') == 'assign' and _is_status_member(g, y['lhs'], sf) and _enum_of(g, y['rhs'], en) == 'closed'}
            return st
        closed = stores_closed(f)
        for x in f.all_nodes():          # a helper of the class that stores closed on every path
            for g in callee_methods(f, x):
                if stores_closed(g) and must_pass(g, g.entry, stores_closed(g)) is None:
                    closed.add(elem_of(f, x['id']))

        def ends(e, f=f):
            if _exit_t(e):
                return True
            n = f.nodes.get(e) if not isinstance(e, tuple) else None
            return n is not None and n.get('k') == 'throw'
        w = path_search(f, f.entry, ends, lambda e: e in closed, from_block_start=True)
        R.check(bool(closed) and w is None, 'S3-close-stores-closed', f.q + '#status-closed', f.site,
                'close() must store status closed on every path, including the throwing ones: %s' % _dp(f, w))

        # join = call whose callee closure joins a thread; shutdown = call whose closure shuts the result queue down (and does
        # not join).  Helpers of the class are treated as inlined: a join inside a helper is fine if a shutdown precedes it
        # inside the helper or precedes the call of the helper.
        def closure_of(g0, n):
            cl = {n['q']}
            for g in fb.by_usr.get(n.get('u'), []):
                cl |= fb.callees_closure(g, 5) | {g.q}
            return cl
        join_fns = []

        def order_ok(g, depth=0):
            events = []
            for n in g.all_nodes():
                if n.get('k') != 'call' or 'u' not in n:
                    continue
                cl = closure_of(g, n)
                if 'std::thread::join' in cl:
                    events.append((n, 'join'))
                elif QUEUE + '::shutdown' in cl:
                    fld = fn_field(g, n['recv']) if n.get('recv') is not None else None
                    fd = rec.field(fld) if fld else None
                    if fd is None or 'osmium::memory::Buffer' in fd['tC']:
                        events.append((n, 'shut'))
            ok = True
            for (j, k) in events:
                if k != 'join':
                    continue
                helpers = callee_methods(g, j)
                if not helpers:
                    for t in fb.by_usr.get(j['u'], []):
                        if t.has_cfg and t not in join_fns:
                            join_fns.append(t)
                if any(k2 == 'shut' and g.elem_dominates(s2['id'], j['id']) for (s2, k2) in events):
                    if helpers and depth < 3:
                        for h2 in helpers:
                            order_ok(h2, depth + 1)          # only to collect the joining functions
                    continue
                if helpers and depth < 3 and all(order_ok(h2, depth + 1) for h2 in helpers):
                    continue
                ok = False
            return ok and (depth > 0 or any(k == 'join' for (_n, k) in events))
        ok = order_ok(f)
        R.check(ok, 'S3-close-shutdown-before-join', f.q + '#shutdown-before-join', f.site,
                'close() must shut the parser result queue down before joining the read thread: a parser blocked on the full result queue '
                'never drains the input queue, the read thread never finishes its push, join() never returns (the 2.17.3 deadlock)')
        # the join inside the manager: guarded + stop first
        seenj = set()
        work = list(join_fns)
        while work:
            g = work.pop()
            if id(g) in seenj:
                continue
            seenj.add(id(g))
            if _calls(g, q='std::thread::join'):
                _join_discipline(fb, R, g)
            else:
                for n in g.all_nodes():
                    if n.get('k') == 'call' and n.get('u') and 'std::thread::join' in closure_of(g, n):
                        work.extend(t for t in fb.by_usr.get(n['u'], []) if t.has_cfg)
        # child process: waitpid in close() or in a helper of the class that close() calls (treated as inlined); the guard may
        # stand in the helper (guard clause) or at the call of the helper
        cands = [(f, [])]
        seenc = {id(f)}
        i = 0
        while i < len(cands):
            g, path = cands[i]
            i += 1
            for x in g.all_nodes():
                for t in callee_methods(g, x):
                    if id(t) not in seenc and len(path) < 3:
                        seenc.add(id(t))
                        cands.append((t, path + [(g, x)]))
        for (g, path) in cands:
            for wcall in [n for n in g.all_nodes() if n.get('k') == 'call' and n.get('q') in ('waitpid', '::waitpid')]:
                pidf = None
                for (gg, nid) in [(g, wcall['id'])] + [(cg, c['id']) for (cg, c) in path]:
                    for (c, sense, _b) in guards_of(gg, nid):
                        cn = gg.sn(c)
                        if sense and cn is not None and cn.get('k') == 'member' and cn.get('field') and gg.is_this_member(c):
                            pidf = cn
                resets = set()
                if pidf is not None:
                    for a in g.all_nodes():
                        if a.get('k') == 'assign' and (g.sn(a['lhs']) or {}).get('q') == pidf['q'] and g.const_value(a['rhs']) == 0:
                            resets.add(elem_of(g, a['id']))
                w = path_search(g, wcall['id'], _exit_t, lambda e, g=g, resets=resets: e in resets or (g.nodes.get(e) or {}).get('k') == 'throw') \
                    if pidf is not None else ['unguarded']
                if w is not None and pidf is not None and path:
                    # reset after the helper returned, in the caller
                    (cg, c) = path[-1]
                    rs = {elem_of(cg, a['id']) for a in cg.all_nodes() if a.get('k') == 'assign' and (cg.sn(a['lhs']) or {}).get('q') == pidf['q']
                          and cg.const_value(a['rhs']) == 0}
                    if path_search(cg, c['id'], _exit_t, lambda e, cg=cg, rs=rs: e in rs or (cg.nodes.get(e) or {}).get('k') == 'throw') is None:
                        w = None
                R.check(pidf is not None and w is None, 'S3-close-idempotent', f.q + '#child-waited-once', g.loc(wcall['id']),
                        'waitpid must be guarded by the child pid member, which is reset on every normal path after it (a second close() would fail with ECHILD)')
    if not fb.fns(closeq):
        R.broken('%s not found' % closeq)


def _flag_stores(fb, f, depth=2):
    """elements of f that store true into an atomic<bool> member, directly or through a method of the same class."""
    out = set()
    for n in f.all_nodes():
        if n.get('k') != 'call' or 'q' not in n:
            continue
        if n['q'].startswith(('std::atomic', 'std::__atomic_base')) and n['q'].rsplit('::', 1)[-1] in ('operator=', 'store') \
                and n.get('recv') is not None and fn_field(f, n['recv']) and n.get('args') and f.const_value(n['args'][0]) == 1:
            out.add(elem_of(f, n['id']))
        elif depth > 0 and n.get('rcls') == f.cls and n.get('u'):
            for g in fb.by_usr.get(n['u'], []):
                if g.has_cfg and _flag_stores(fb, g, depth - 1) and must_pass(g, g.entry, _flag_stores(fb, g, depth - 1)) is None:
                    out.add(elem_of(f, n['id']))
    return out


def _join_discipline(fb, R, g):
    joins = _calls(g, q='std::thread::join')
    for j in joins:
        guarded = any(sense and (g.sn(c) or {}).get('q') == 'std::thread::joinable' and
                      g.root_var((g.sn(c) or {}).get('recv')) == g.root_var(j['recv']) for (c, sense, _b) in guards_of(g, j['id']))
        R.check(guarded, 'S3-close-idempotent', g.q + '#join-guarded', g.loc(j['id']),
                'join() in %s must be guarded by joinable() on the same thread (close() is called again from read(), the handlers and the destructor)' % g.q)
        stores = _flag_stores(fb, g)
        R.check(any(g.elem_dominates(s, j['id']) for s in stores if s is not None), 'S3-stop-flag-before-join', g.q + '#stop-before-join', g.loc(j['id']),
                '%s must raise the stop flag before joining, otherwise the read thread reads the whole input first' % g.q)


def _controlling_flag_reads(f):
    """elements of f that read an atomic<bool> member and whose value decides a branch: the read stands in a branch
    condition, or in the initialiser / assigned value of a local variable that a branch condition names."""
    reads = [n for n in f.all_nodes() if n.get('k') == 'call' and n.get('q', '').startswith(('std::atomic', 'std::__atomic_base'))
             and n['q'].rsplit('::', 1)[-1] in ('load', '(conv)', 'operator bool') and n.get('recv') is not None and fn_field(f, n['recv'])]
    cond_nodes = set()
    cond_vars = set()
    for b in f.blocks.values():
        if 'cond' in b:
            for x in f.subtree(b['cond']):
                cond_nodes.add(x)
                nx = f.nodes[x]
                if nx.get('k') == 'var' and nx.get('vk') in ('local', None):
                    cond_vars.add(nx.get('d'))
    out = set()
    for r in reads:
        if r['id'] in cond_nodes:
            out.add(elem_of(f, r['id']))
            continue
        for m in f.all_nodes():
            if m.get('k') == 'decl':
                for v in m['vars']:
                    if v['d'] in cond_vars and isinstance(v.get('init'), int) and r['id'] in f.subtree(v['init']):
                        out.add(elem_of(f, r['id']))
            elif m.get('k') == 'assign':
                l = f.sn(m['lhs'])
                if l is not None and l.get('k') == 'var' and l.get('d') in cond_vars and r['id'] in f.subtree(m['rhs']):
                    out.add(elem_of(f, r['id']))
    # gate variables: locals named in branch conditions whose every write is flag-derived or the constant false; a test of
    # such a variable is as good as a test of the flag (named boolean instead of break)
    read_ids = {r['id'] for r in reads}
    writes = {}
    for m in f.all_nodes():
        if m.get('k') == 'decl':
            for v in m['vars']:
                if v['d'] in cond_vars:
                    writes.setdefault(v['d'], []).append(v.get('init') if isinstance(v.get('init'), int) else None)
        elif m.get('k') == 'assign':
            l = f.sn(m['lhs'])
            if l is not None and l.get('k') == 'var' and l.get('d') in cond_vars:
                writes.setdefault(l['d'], []).append(m['rhs'] if m.get('op') == '=' else None)
        elif m.get('k') == 'unop' and m.get('op') in ('++', '--'):
            l = f.sn(m['sub'])
            if l is not None and l.get('k') == 'var' and l.get('d') in cond_vars:
                writes.setdefault(l['d'], []).append(None)
    gates = set()
    for d, ws in writes.items():
        derived = [w for w in ws if w is not None and read_ids & set(f.subtree(w))]
        rest = [w for w in ws if w not in derived]
        if derived and all(w is not None and f.const_value(w) == 0 for w in rest):
            gates.add(d)
    for b in f.blocks.values():
        if 'cond' in b:
            for x in f.subtree(b['cond']):
                nx = f.nodes[x]
                if nx.get('k') == 'var' and nx.get('d') in gates:
                    out.add(elem_of(f, x))
    out.discard(None)
    return out


def _flag_loop_guarded(f, nid):
    """(between two executions, before the first execution): a branch-deciding read of the stop flag lies on every path
    from element nid back to itself / from the function entry to nid."""
    el = elem_of(f, nid)
    C = _controlling_flag_reads(f)
    cyc = path_search(f, el, lambda e: e == el, lambda e: e in C) is None
    ent = path_search(f, f.entry, lambda e: e == el, lambda e: e in C, from_block_start=True) is None
    return cyc, ent


def rule_read_loop(fb, R):
    """Every Decompressor::read() executed on the read thread -- in the thread function or in a helper of the same class --
    is preceded, in every iteration, by the stop-flag test: guarded where it stands, or every call of the helper is."""
    entries = _dedupe([e for s in thread_starts(fb) if s['fn'].cls == RTM for e in s['entries']])
    if not entries:
        R.broken('%s: thread entry not found' % RTM)
        return
    n = 0
    for entry in entries:
        fns = [entry]
        seen = {id(entry)}
        callers = {}
        i = 0
        while i < len(fns):
            f = fns[i]
            i += 1
            for c in f.all_nodes():
                if c.get('k') == 'call' and c.get('u') and c.get('rcls') == entry.cls and not c.get('virt'):
                    for g in fb.by_usr.get(c['u'], []):
                        if g.has_cfg:
                            callers.setdefault(id(g), []).append((f, c))
                            if id(g) not in seen:
                                seen.add(id(g))
                                fns.append(g)

        def guarded(f, nid, depth=0):
            cyc, ent = _flag_loop_guarded(f, nid)
            if not cyc:
                return False
            if ent:
                return True
            cs = callers.get(id(f), [])
            return bool(cs) and depth < 4 and all(guarded(g, c['id'], depth + 1) for (g, c) in cs)
        for f in fns:
            for c in _calls(f, q='osmium::io::Decompressor::read'):
                n += 1
                R.check(guarded(f, c['id']), 'S3-read-loop-tests-stop-flag', entry.q + '#loop-tests-stop-flag', f.loc(c['id']),
                        'every Decompressor::read() in the read thread must be guarded by the loop test of the stop flag (a closed Reader reads nothing more)')
    if n == 0:
        R.broken('%s: no Decompressor::read call found on the read thread' % RTM)


# ------------------------------------------------------------------------------------------------ S4 / F1: parsers that read the descriptor themselves

RAW_INPUT = (NS + 'read_exactly', NS + 'reliable_read', 'read', '::read')
FD_CLOSERS = (NS + 'reliable_close', 'close', '::close')


def _is_result_queue_call(n):
    """call on the parser result queue -- the queue of Buffer futures, which is what Reader::close() shuts down.  (The input
    queue of string futures is shut down only by the parser's own queue_wrapper; on the fd path it never changes.)"""
    return 'osmium::memory::Buffer' in (n.get('rclsT') or '')


def _observes_shutdown(fn, n):
    """call reads a state that Reader::close() changes: the in-use flag of the result queue, or an atomic flag reached
    through a pointer / reference member (state shared with the Reader; a by-value atomic member is the parser's own)."""
    q = n.get('q', '')
    if q == QUEUE + '::in_use':
        return _is_result_queue_call(n)
    if q.startswith(('std::atomic', 'std::__atomic_base')) and q.rsplit('::', 1)[-1] in ('load', '(conv)', 'operator bool') and n.get('recv') is not None:
        r = fn.root_var(n['recv'])
        if r is not None and r[0] == 'field' and fn.cls:
            rec = fn.fb.record(fn.cls)
            fd = rec.field(r[2]) if rec is not None else None
            return bool(fd and fd.get('ptr'))
    return False


def _state_call(fb, fn, n, memo, depth=4):
    """the call yields shutdown state: it is such a read, or its callee returns an expression containing one."""
    if _observes_shutdown(fn, n):
        return True
    if depth <= 0 or not n.get('u') or not n.get('q', '').startswith('osmium::'):
        return False
    for g in fb.by_usr.get(n['u'], []):
        if not g.has_cfg:
            continue
        k = ('ret', id(g))
        if k not in memo:
            memo[k] = False
            for r in g.all_nodes():
                if r.get('k') == 'return' and isinstance(r.get('sub'), int):
                    for x in g.subtree(r['sub']):
                        nx = g.nodes[x]
                        if nx.get('k') == 'call' and 'q' in nx and _state_call(fb, g, nx, memo, depth - 1):
                            memo[k] = True
        if memo[k]:
            return True
    return False


def _eval_shut_down(fb, fn, nid, depth=0):
    """value of a boolean expression when every pipeline queue it asks is shut down (Queue::in_use() == false); None if the
    expression depends on anything else."""
    n = fn.sn(nid)
    if n is None or depth > 6:
        return None
    k = n.get('k')
    if k == 'lit' or ('cv' in n and k != 'call'):
        v = fn.const_value(nid)
        return None if v is None else bool(v)
    if k == 'unop' and n.get('op') == '!':
        v = _eval_shut_down(fb, fn, n['sub'], depth + 1)
        return None if v is None else (not v)
    if k == 'binop' and n.get('op') in ('&&', '||'):
        a = _eval_shut_down(fb, fn, n['lhs'], depth + 1)
        b = _eval_shut_down(fb, fn, n['rhs'], depth + 1)
        if n['op'] == '&&':
            return False if (a is False or b is False) else (True if (a and b) else None)
        return True if (a is True or b is True) else (False if (a is False and b is False) else None)
    if k == 'call':
        if n.get('q') == QUEUE + '::in_use':
            return False if _is_result_queue_call(n) else None
        if n.get('u') and n.get('q', '').startswith('osmium::') and not n.get('virt'):
            vals = set()
            for g in fb.by_usr.get(n['u'], []):
                if not g.has_cfg:
                    continue
                rets = [r for r in g.all_nodes() if r.get('k') == 'return' and isinstance(r.get('sub'), int)]
                if len(rets) != 1:
                    return None
                vals.add(_eval_shut_down(fb, g, rets[0]['sub'], depth + 1))
            if len(vals) == 1:
                return vals.pop()
    return None


def _parser_classes(fb):
    return {r.q for r in fb.derived_from(PARSER)}


def rule_parser_input_loops(fb, R):
    """S4: a loop of a parser class that takes input straight from a file descriptor in every iteration must, in every
    iteration, execute a test of shared state that close() changes (queue-fed loops get this from queue_wrapper::pop)."""
    classes = _parser_classes(fb)
    if not classes:
        R.broken('no class derived from %s found' % PARSER)
        return
    memo = {}
    found = 0
    for f in _dedupe([g for g in fb.functions if g.cls in classes and g.has_cfg and not g.is_lambda]):
        for l in f.loops:
            raw = []
            for n in f.all_nodes():
                if n.get('k') != 'call' or 'q' not in n or not f.in_range(n['id'], l['b'], l['e']):
                    continue
                cl = {n['q']}
                for g in fb.by_usr.get(n.get('u'), []):
                    if g.has_cfg:
                        cl |= fb.callees_closure(g, 6)
                if cl & set(RAW_INPUT):
                    raw.append(n)
            if not raw:
                continue
            found += 1
            raw_el = {elem_of(f, c['id']) for c in raw}
            # tests of shutdown state that decide about leaving the loop: a branch inside the loop whose condition reads the
            # state (directly or through a function returning it) and one of whose edges reaches the function exit without
            # another read from the descriptor.  (Queue::push reading the flag internally does not count: nothing reacts.)
            obs = set()
            for b in f.blocks.values():
                if 'cond' not in b or len(b['succs']) != 2 or not f.in_range(b['cond'], l['b'], l['e']):
                    continue
                rn, rpos = _resolve_bool(f, b['cond'])
                root = rn['id'] if rn is not None else b['cond']
                sc = [f.nodes[x] for x in f.subtree(root) if f.nodes[x].get('k') == 'call' and 'q' in f.nodes[x]
                      and f.in_range(x, l['b'], l['e']) and _state_call(fb, f, f.nodes[x], memo)]
                if not sc:
                    continue
                leaving = [i for i, s in enumerate(b['succs'])
                           if s is not None and path_search(f, s, _exit_t, lambda e: e in raw_el, from_block_start=True) is not None]
                # polarity, where it can be evaluated: with the queue shut down (in_use() == false) the condition must send
                # control along a leaving edge (succs[0] is the true edge)
                v = _eval_shut_down(fb, f, root)
                if v is not None and not rpos:
                    v = not v
                if v is not None:
                    leaving = [i for i in leaving if i == (0 if v else 1)]
                if leaving:
                    obs |= {elem_of(f, c['id']) for c in sc}
            w = None
            for c in raw:
                ce = elem_of(f, c['id'])
                if ce in obs:
                    continue
                w = w or path_search(f, ce, lambda e, ce=ce: e == ce, lambda e: e in obs)
            R.check(w is None, 'S4-parser-fd-loop-observes-close', f.q + '#fd-input-loop', f.loc(raw[0]['id']),
                    'the loop in %s reads from the file descriptor in every iteration (%s) but no iteration leaves the loop on a test of a state '
                    'that Reader::close() changes (in_use() of the result queue; the input queue never changes on this path): after close() or an abandoned Reader the parser thread still reads and decodes the rest of the file and the '
                    'destructor waits for it (a closed Reader must read nothing more from its input)'
                    % (f.q, ', '.join(sorted({c['q'].rsplit('::', 1)[-1] for c in raw}))))
    return found


def rule_parser_fd(fb, R, E):
    """F1: a parser that takes parser_arguments::fd into a member owns the descriptor (the Reader hands it over only when no
    decompressor owns it): it must be closed on every normal exit and on every exceptional exit of run()."""
    found = 0
    for rec in fb.derived_from(PARSER):
        fdfield = None
        for c in fb.fns(rec.q + '::(ctor)'):
            for n in c.all_nodes():
                if n.get('k') == 'init' and isinstance(n.get('init'), int) and rec.field(n.get('name', '')) is not None:
                    if any(c.nodes[x].get('k') == 'member' and c.nodes[x].get('q') == NS + 'parser_arguments::fd' for x in c.subtree(n['init'])):
                        fdfield = n['name']
        if fdfield is None:
            continue
        found += 1
        methods = _dedupe([f for f in fb.functions if f.cls == rec.q and f.has_cfg and not f.is_lambda])

        def names_fd(fn, aid, fdfield=fdfield):
            """the argument is the descriptor member, or a local initialised from it (const int fd = m_fd; m_fd = -1;)."""
            if fn_field(fn, aid) == fdfield:
                return True
            a = fn.sn(aid)
            if a is not None and a.get('k') == 'var' and a.get('vk') in ('local', None):
                for m in fn.all_nodes():
                    if m.get('k') == 'decl':
                        for v in m['vars']:
                            if v['d'] == a.get('d') and isinstance(v.get('init'), int) and fn_field(fn, v['init']) == fdfield:
                                return True
            return False

        def closers(f):
            return [c for c in f.all_nodes() if c.get('k') == 'call' and c.get('q') in FD_CLOSERS and c.get('args') and names_fd(f, c['args'][0])]

        def is_close(fn, n):
            return n.get('q') in FD_CLOSERS and bool(n.get('args')) and names_fd(fn, n['args'][0])
        dtor_closes = any(must_call(fb, d, is_close, 3) is None for d in fb.fns(rec.q + '::(dtor)'))
        run = [f for f in methods if f.name == 'run']
        for f in run:
            w = None if dtor_closes else must_call(fb, f, is_close, 4)
            R.check(w is None, 'F1-parser-closes-its-descriptor', f.q + '#closed-on-normal-exit', f.site,
                    '%s takes parser_arguments::fd into %s (nobody else owns that descriptor) but can return normally without closing it: %s'
                    % (rec.q, fdfield, _dp(f, w)))
            bad = None
            if not dtor_closes:
                cl = closers(f)
                for st in E.sites(f):
                    if not st.escaping or any(c['id'] == st.nid for c in cl):
                        continue
                    if any(f.elem_dominates(c['id'], st.nid) for c in cl):
                        continue
                    if any(any(_in_handler(h, c) for c in cl) for (_t, h) in st.catchers):
                        continue
                    bad = bad or st
            msg = None
            if bad is not None:
                typ = _pick(bad.escaping)
                msg = ('%s owns the descriptor in %s but closes it only at the normal end of run(): when %s throws (%s) the descriptor is '
                       'never closed -- neither ~%s nor the Reader closes it -- so every failed read leaks one file descriptor'
                       % (rec.q, fdfield, bad.label, E.chain(bad.thrown[typ], typ), rec.q.rsplit('::', 1)[-1]))
            R.check(bad is None, 'F1-parser-closes-its-descriptor', f.q + '#closed-on-error-paths', f.loc(bad.nid) if bad else f.site, msg)
            # typestate of the owned descriptor: closed at most once over run() + destructor.  If the destructor closes the
            # member, a close in run() must leave the member invalid (negative) on every path that reaches the destructor: the
            # invalidating store dominates the close (copy, invalidate, close the copy), or follows it on every path and the
            # closing function cannot throw in between.
            if dtor_closes:
                inval = {elem_of(f, a['id']) for a in f.all_nodes() if a.get('k') == 'assign' and a.get('op') == '='
                         and fn_field(f, a['lhs']) == fdfield and (f.const_value(a['rhs']) or 0) < 0}
                bad2 = None
                for c in closers(f):
                    if any(f.elem_dominates(i, c['id']) for i in inval if i is not None):
                        continue
                    throws = any(E.body_escapes(g) for g in fb.by_usr.get(c.get('u'), []))
                    after = path_search(f, c['id'], _exit_t, lambda e: e in inval) is None
                    if after and not throws and inval:
                        continue
                    bad2 = c
                R.check(bad2 is None, 'F1-parser-closes-its-descriptor', f.q + '#closed-at-most-once', f.loc(bad2['id']) if bad2 else f.site,
                        '%s closes %s in run() and leaves the member valid, and ~%s closes it again: the second close hits a descriptor number '
                        'that the application may have re-used in between (store -1 into %s before closing a copy of it)'
                        % (rec.q, fdfield, rec.q.rsplit('::', 1)[-1], fdfield))
        if not run:
            R.broken('%s: run() not found' % rec.q)
    return found


# ------------------------------------------------------------------------------------------------ D1

def rule_destructors(fb, R, E, dirs=('/osmium/io/', '/osmium/thread/')):
    ds = _dedupe([f for f in fb.functions if f.kind == 'dtor' and f.has_cfg and any(d in f.file for d in dirs)])
    for d in ds:
        esc = E.body_escapes(d)
        msg = None
        if esc:
            typ = _pick(esc)
            msg = '%s can let %s escape (destructors are noexcept: std::terminate during teardown): %s' % (d.q, typ, E.chain(esc[typ], typ))
        R.check(not esc, 'D1-destructor-swallows', d.q, d.site, msg)
        for st in E.sites(d):
            m = None
            if st.escaping:
                typ = _pick(st.escaping)
                m = 'call to %s in %s is not wrapped in a try that catches %s: %s' % (st.label, d.q, typ, E.chain(st.thrown[typ], typ))
            R.check(not st.escaping, 'D1-throwing-call-in-destructor-wrapped', '%s#%s' % (d.q, st.label), d.loc(st.nid), m)


# ------------------------------------------------------------------------------------------------ L1 / J1

LAYOUT_CLASSES = (READER, 'osmium::io::Writer', 'osmium::thread::Pool', RTM)


def rule_layout(fb, R, classes=LAYOUT_CLASSES):
    for cq in classes:
        rec = fb.record(cq)
        if rec is None:
            R.broken('record %s not found' % cq)
            continue
        pairs, notes = layout_pairs(fb, rec)
        for m in notes:
            R.broken(m)
        for p in pairs:
            a, b = rec.field(p['referent']), rec.field(p['holder'])
            what = 'destroyed after' if p['kind'] == 'destroy' else 'initialised before'
            R.check(a['idx'] < b['idx'], 'L1-referent-declared-before-holder', '%s#%s<%s:%s' % (cq, p['referent'], p['holder'], p['kind']),
                    '%s:%d' % (rec.file, b.get('l', rec.line)),
                    '%s must be declared before %s in %s so that it is %s it (%s; constructed at %s)'
                    % (p['referent'], p['holder'], cq, what, p['why'], p['site']))


def rule_thread_members_joined(fb, R):
    n = 0
    for rec in fb.records:
        if not rec.q.startswith('osmium::'):
            continue
        for fd in rec.fields:
            if not _is_thread_type(fd['tC']):
                continue
            n += 1
            # who joins: own destructor, or the destructor of a sibling holding a reference to the container
            joiners = []
            for d in fb.fns(rec.q + '::(dtor)'):
                if 'std::thread::join' in fb.callees_closure(d, 6):
                    joiners.append(d)
            for sib in rec.fields:
                if sib.get('rec') and sib['name'] != fd['name']:
                    for d in fb.fns(sib['rec'] + '::(dtor)'):
                        if 'std::thread::join' in fb.callees_closure(d, 4):
                            joiners.append(d)
            ok = bool(joiners)
            guarded = True
            for d in joiners:
                for g in [d] + [x for q in fb.callees_closure(d, 4) for x in fb.fns(q) if x.cls == d.cls]:
                    for j in _calls(g, q='std::thread::join'):
                        if not any(sense and (g.sn(c) or {}).get('q') == 'std::thread::joinable' for (c, sense, _b) in guards_of(g, j['id'])):
                            guarded = False
            R.check(ok and guarded, 'J1-thread-member-joined', '%s#%s' % (rec.q, fd['name']), '%s:%d' % (rec.file, fd.get('l', rec.line)),
                    'the thread(s) in %s::%s must be joined (under a joinable() test) by the destructor of the class or of a sibling member; '
                    'a joinable std::thread that is destroyed calls std::terminate, a detached one is leaked' % (rec.q, fd['name']))
    if n == 0:
        R.broken('no std::thread member found in any osmium record')


# ------------------------------------------------------------------------------------------------ U*, P1

C19_MAP = {
    'Q4-consumer-predicate': 'U4-consumer-wait-has-shutdown-flag',
    'Q5-shutdown-notify_all': 'U5-shutdown-wakes-all-consumers',
    'Q5-shutdown-flag-before-notify': 'U5-shutdown-wakes-all-consumers',
}


def rule_unblocking(fb, R):
    # U1: wrapper destructor shuts the queue down
    ds = _dedupe(fb.fns(QW + '::(dtor)'))
    for d in ds:
        w = must_call(fb, d, lambda fn, n: n.get('q') == QUEUE + '::shutdown' and n.get('recv') is not None and fn_field(fn, n['recv']) is not None, 3)
        R.check(w is None, 'U1-wrapper-dtor-shuts-queue-down', d.q, d.site,
                '~queue_wrapper must shut its queue down on every path, otherwise a producer blocked on the full queue never returns '
                'when the consumer goes away: %s' % _dp(d, w))
    if not ds:
        recs = fb.records_named(QW)
        if not recs:
            R.broken('record %s not found' % QW)
        else:
            # no user-provided destructor body: nothing shuts the queue down when the wrapper (the consumer) goes away
            R.bad('U1-wrapper-dtor-shuts-queue-down', QW + '::(dtor)', '%s:%d' % (recs[0].file, recs[0].line),
                  'queue_wrapper has no user-provided destructor (defaulted or missing), so its queue is not shut down on destruction: when a '
                  'parser dies, the read thread blocks / spins forever in push() on the full input queue and Reader::close() never returns from join()')
    # U2: pop() shuts the queue down at end of data
    ps = _dedupe(fb.fns(QW + '::pop'))
    def is_shut(fn, c):
        return c.get('q') == QUEUE + '::shutdown' and c.get('recv') is not None and fn_field(fn, c['recv']) is not None
    for f in fb.fns(QW + '::pop'):
        # pop() and the helpers of the same wrapper instantiation it calls, treated as inlined
        group = [f]
        seeng = {id(f)}
        i = 0
        while i < len(group) and len(group) < 8:
            g = group[i]
            i += 1
            for c in g.all_nodes():
                if c.get('k') == 'call' and c.get('u') and c.get('rcls') == QW and not c.get('virt'):
                    for t in fb.by_usr.get(c['u'], []):
                        if t.has_cfg and t.clsT == f.clsT and id(t) not in seeng and t.kind == 'method':
                            seeng.add(id(t))
                            group.append(t)
        nconds = 0
        ok = True
        w = None
        wq, sq = set(), set()
        for g in group:
            shut = _must_elems(fb, g, is_shut)
            # branches whose condition is at_end_of_data(...), possibly negated or held in a named single-assignment bool
            for b in g.blocks.values():
                if 'cond' in b and len(b['succs']) == 2:
                    cn, pos = _resolve_bool(g, b['cond'])
                    if cn is not None and cn.get('k') == 'call' and cn.get('q') == NS + 'at_end_of_data':
                        edge = b['succs'][0 if pos else 1]
                        if edge is not None:
                            nconds += 1
                            w1 = must_pass(g, edge, shut)
                            if w1 is not None:
                                ok = False
                                w = w or w1
            wq |= {fn_field(g, c['recv']) for c in _calls(g, q=QUEUE + '::wait_and_pop') if c.get('recv') is not None}
            sq |= {fn_field(g, c['recv']) for c in _calls(g, q=QUEUE + '::shutdown') if c.get('recv') is not None}
        sameq = len(wq) == 1 and None not in wq and sq <= wq
        R.check(ok and nconds > 0 and sameq, 'U2-pop-shuts-down-at-end-of-data', f.q, f.site,
                'queue_wrapper::pop must shut its queue down when it sees the end-of-data marker: parsers loop on input_done() '
                '(= !in_use()) and would block forever in the next pop(): %s' % _dp(group[0], w))
    if not ps:
        R.broken('queue_wrapper::pop not found')
    # U3a: push never waits / inserts once the queue is shut down
    recs = fb.records_named(QUEUE)
    npush = 0
    for rec in recs:
        F = c19._queue_fields(rec)
        if not all(k in F for k in ('queue', 'mutex', 'flag')):
            R.broken('%s: cannot identify the monitor members' % rec.full)
            continue
        methods = [f for f in fb.functions if f.cls == QUEUE and f.clsT == rec.full and not f.is_lambda and f.has_cfg]
        cons, prod = c19._cv_roles(fb, methods, F)
        for f in methods:
            if f.name != 'push':
                continue
            npush += 1
            # push and the private helpers it calls (treated as inlined): [(function, call path from push [(caller, call node)...])]
            reach = [(f, [])]
            seen = {id(f)}
            i = 0
            while i < len(reach):
                g, path = reach[i]
                i += 1
                for c in g.all_nodes():
                    if c.get('k') == 'call' and c.get('u') and c.get('rcls') == QUEUE and not c.get('virt') and len(path) < 3:
                        for t in fb.by_usr.get(c['u'], []):
                            if t.has_cfg and t.clsT == rec.full and id(t) not in seen and t.name not in ('size', 'empty', 'in_use'):
                                seen.add(id(t))
                                reach.append((t, path + [(g, c)]))

            def inherited_guards(g, nid, path):
                """guards of the element in its own function plus the guards of every call on the path from push."""
                gs = [(g, cn, s) for (cn, s, _b) in guards_of(g, nid)]
                for (cg, c) in path:
                    gs += [(cg, cn, s) for (cn, s, _b) in guards_of(cg, c['id'])]
                return gs

            def flag_tested(gs):
                return any(((not s) and c19._reads_flag_negated(g, cn, F)) or (s and c19._reads_flag(g, cn, F)) for (g, cn, s) in gs)
            waits, sites = [], []
            for (g, path) in reach:
                for (c, cv, timed, lockd, lam, pred) in c19._wait_sites(fb, g, F):
                    sites.append((g, c, path))
                    if prod is None or cv == prod:
                        waits.append((g, c, path, timed))
                for c in c19._qcalls(g, F, ('push', 'emplace')):
                    sites.append((g, c, path))
            ok = bool(sites) and all(flag_tested(inherited_guards(g, c['id'], path)) for (g, c, path) in sites)
            R.check(ok, 'U3-push-returns-when-shut-down', f.q + '#flag-first', f.site,
                    'Queue::push must test the in-use flag before it waits for space or inserts: a producer must never block on a queue that was shut down')
            # the full-queue wait: timed, inside a loop (of the function it stands in) that re-tests the size against the bound
            okw = bool(waits)
            for (g, c, path, timed) in waits:
                inloop = [l for l in g.loops if g.in_range(c['id'], l['b'], l['e'])]
                retest = False
                for (cn, s, _b) in guards_of(g, c['id']):
                    x = g.sn(cn)
                    if s and x is not None and x.get('k') == 'binop' and x['op'] in ('>=', '>', '<', '<=', '==', '!='):
                        sub = [g.nodes[y] for y in g.subtree(cn)]
                        has_size = any(y.get('k') == 'call' and y.get('q') in (QUEUE + '::size', 'std::queue::size') for y in sub)
                        has_max = any(y.get('k') == 'member' and y.get('name') == F.get('max') for y in sub)
                        if has_size and has_max and [l for l in inloop if g.in_range(cn, l['b'], l['e'])]:
                            retest = True
                okw = okw and timed and bool(inloop) and retest
            R.check(okw, 'U3-producer-wait-timed-in-retest-loop', f.q + '#full-loop', f.site,
                    'the full-queue wait of Queue::push (in push or a helper it calls) must be a timed wait inside a loop that re-tests the '
                    'queue size against %s: an untimed or un-retested wait blocks a producer forever once the consumer is gone' % F.get('max'))
    if npush == 0:
        R.broken('no instantiation of Queue::push found')
    # U3b / U4 / U5: the C19 MONITOR rules, re-reported under this property
    sub = Reporter('C07')
    c19.queue_rules(fb, sub)
    for m in sub.broken_msgs:
        R.broken(m)
    for i in sub.instances.values():
        if i.rule in C19_MAP:
            R.check(i.ok, C19_MAP[i.rule], i.key, i.site, i.msg)


def rule_queue_helpers(fb, R):
    n = 0
    for f in fb.fns(ADDQ):
        if len(f.params) < 2:
            continue
        n += 1
        role = 'exception' if 'exception_ptr' in f.params[1]['tC'] else 'value'
        qd = f.params[0]['d']
        pushes = [c for c in _calls(f, q=QUEUE + '::push') if (f.root_var(c['recv']) or (None, None))[1] == qd]
        ok = False
        w = w2 = None
        if pushes:
            prom = None
            for c in pushes:
                for gf in _origin_calls(f, c['args'][0] if c.get('args') else c['id'], 'std::promise::get_future'):
                    prom = f.root_var(gf['recv'])
            fulfil = {elem_of(f, c['id']) for c in f.all_nodes() if c.get('k') == 'call' and
                      c.get('q') == ('std::promise::set_exception' if role == 'exception' else 'std::promise::set_value')
                      and prom is not None and f.root_var(c['recv']) == prom
                      and any((f.nodes[x].get('k') == 'var' and f.nodes[x].get('d') == f.params[1]['d']) for a in c.get('args', []) for x in f.subtree(a))}
            w = must_pass(f, f.entry, {elem_of(f, c['id']) for c in pushes})
            w2 = must_pass(f, f.entry, fulfil)
            ok = prom is not None and w is None and w2 is None
        R.check(ok, 'P1-add-to-queue-pushes-and-fulfils', '%s#%s' % (f.q, role), f.site,
                'add_to_queue(%s) must push the future of a local promise to the queue and fulfil that promise with its argument on every path '
                '(a future that is never pushed loses data / the error / the end-of-data marker; a promise never fulfilled turns into broken_promise)' % role)
    for f in fb.fns(EODQ):
        n += 1
        cs = _calls(f, q=ADDQ)
        ok = len(cs) == 1 and must_pass(f, f.entry, {elem_of(f, cs[0]['id'])}) is None
        if ok:
            a = f.sn(cs[0]['args'][1], casts=False)
            while a is not None and a.get('k') == 'construct' and a.get('elidable') and a.get('args'):
                a = f.sn(a['args'][0], casts=False)
            ok = a is not None and a.get('k') == 'construct' and not [x for x in a.get('args', []) if x is not None and f.nodes[x].get('cls') != 'CXXDefaultArgExpr'] \
                and f.root_var(cs[0]['args'][0]) == ('var', f.params[0]['d'], f.params[0]['name'])
        R.check(ok, 'P1-add-to-queue-pushes-and-fulfils', f.q + '#empty-value', f.site,
                'add_end_of_data_to_queue must push a default-constructed value (the end-of-data marker that at_end_of_data() recognises) to its queue')
    if n == 0:
        R.broken('add_to_queue / add_end_of_data_to_queue not found')


# ------------------------------------------------------------------------------------------------ driver

def all_rules(fb, R, fbq=None):
    """fb: io_read + io_write + thread; fbq: the thread driver alone (complete explicit instantiations of Queue<T>)."""
    E = Esc(fb)
    chains = rule_thread_entries(fb, R, E)
    rule_stage_forwarding(fb, R, chains)
    setters = rule_header_promise(fb, R)
    if not rule_header_before_data(fb, R, setters):
        R.broken('H3: no call that starts object data (maybe_new_buffer / send_to_output_queue) found in the parser classes')
    rule_parser_handlers(fb, R, E)
    rule_child_process(fb, R)
    rule_reader_state(fb, R, E)
    rule_read_loop(fb, R)
    if not rule_parser_input_loops(fb, R):
        R.broken('no loop of a parser class reads from a file descriptor (PBFParser::parse_data_blobs expected)')
    if not rule_parser_fd(fb, R, E):
        R.broken('no parser class takes parser_arguments::fd into a member (PBFParser expected)')
    rule_destructors(fb, R, E)
    rule_layout(fb, R)
    rule_thread_members_joined(fb, R)
    rule_unblocking(fbq if fbq is not None else fb, R)
    rule_queue_helpers(fb, R)


def run(ctx):
    R = ctx.R
    configs = ['ndebug14'] if ctx.tier == 'quick' else ['ndebug14', 'debug14', 'ndebug17', 'debug17']
    for cfg in configs:
        fb = ctx.facts(['io_read', 'io_write', 'thread'], cfg)
        all_rules(fb, R, ctx.facts(['thread'], cfg))
    # floors: instances confirmed by reading the tree
    R.expect('E1-thread-entry-no-leak', 7)           # 10 today (4 entries + read, close | run | pop, write, close); 7 = the entries
                                                     # plus one guarded work call per stage, which survives extract-helper refactorings
    R.expect('E2-end-of-data-on-all-paths', 2)       # run_in_thread, Parser::parse
    R.expect('E2-catch-all-forwards-exception', 3)   # both stages + header promise in parse
    R.expect('H1-header-promise-guarded', 2)         # set_header_value, set_header_exception
    R.expect('H2-run-sets-header', 4)                # XML, PBF, O5m, OPL
    R.expect('H3-header-set-before-object-data', 4)  # 11 today (XML 4, O5m 3, OPL 3, PBF 1); at least one per parser
    R.expect('X1-parser-handler-keeps-upstream-errors', 2)   # Parser::parse catch (...), PBFParser::read_blob_header_size_from_file
    R.expect('W1-child-failure-reported', 4)         # Reader::close: clean exit / exit code / signal / waitpid failure
    R.expect('W2-pipe-ends-paired', 4)               # Reader::execute: child spares only the write end, dup2, parent closes write / returns read
    R.expect('S1-status-gates-access', 2)            # read#pop, header#future-get
    R.expect('S2-handler-closes-marks-error-rethrows', 6)
    R.expect('S3-close-stores-closed', 1)
    R.expect('S3-close-shutdown-before-join', 1)
    R.expect('S3-close-idempotent', 2)               # join guarded, child waited once
    R.expect('S3-stop-flag-before-join', 1)
    R.expect('S3-read-loop-tests-stop-flag', 1)
    R.expect('S4-parser-fd-loop-observes-close', 1)  # PBFParser::parse_data_blobs
    R.expect('F1-parser-closes-its-descriptor', 2)   # PBFParser::run normal / error exits (+ closed-at-most-once while the destructor closes)
    R.expect('D1-destructor-swallows', 17)
    R.expect('D1-throwing-call-in-destructor-wrapped', 8)   # 3 compressors, 3 decompressors, Reader, Writer
    R.expect('L1-referent-declared-before-holder', 11)   # 12 today; ReadThreadManager#m_done<m_thread exists only while the
                                                            # thread function reads the stop flag (S3-read-loop-tests-stop-flag reports its absence)
    R.expect('J1-thread-member-joined', 3)           # thread_handler, ReadThreadManager, Pool
    R.expect('U1-wrapper-dtor-shuts-queue-down', 1)
    R.expect('U2-pop-shuts-down-at-end-of-data', 1)
    R.expect('U3-push-returns-when-shut-down', 1)
    R.expect('U3-producer-wait-timed-in-retest-loop', 1)
    R.expect('U4-consumer-wait-has-shutdown-flag', 1)
    R.expect('U5-shutdown-wakes-all-consumers', 2)
    R.expect('P1-add-to-queue-pushes-and-fulfils', 3)


def _selftest(fb, R):
    E = Esc(fb)
    chains = rule_thread_entries(fb, R, E)
    rule_stage_forwarding(fb, R, chains)
    setters = rule_header_promise(fb, R)
    rule_header_before_data(fb, R, setters)
    rule_parser_handlers(fb, R, E)
    rule_child_process(fb, R, dirs=('',))
    rule_reader_state(fb, R, E)
    rule_read_loop(fb, R)
    rule_parser_input_loops(fb, R)
    rule_parser_fd(fb, R, E)
    # the conforming twin in the positive example must stay silent
    for (rule, key) in (('S4-parser-fd-loop-observes-close', NS + 'GoodFdParser::run#fd-input-loop'),
                        ('F1-parser-closes-its-descriptor', NS + 'GoodFdParser::run#closed-on-normal-exit'),
                        ('F1-parser-closes-its-descriptor', NS + 'GoodFdParser::run#closed-on-error-paths'),
                        ('F1-parser-closes-its-descriptor', NS + 'GoodFdParser::run#closed-at-most-once')):
        i = R.instances.get((rule, key))
        if i is None or not i.ok:
            raise AnalysisBroken('rule %s reports (or does not see) the conforming example %s' % (rule, key))
    rule_destructors(fb, R, E, dirs=('',))
    rule_layout(fb, R, classes=(READER, RTM))
    rule_thread_members_joined(fb, R)
    rule_queue_helpers(fb, R)


SELFTESTS = [(r, 'c07_pipeline.cpp', _selftest) for r in (
    'E1-thread-entry-no-leak', 'E2-end-of-data-on-all-paths', 'E2-catch-all-forwards-exception', 'H1-header-promise-guarded',
    'H2-run-sets-header', 'H3-header-set-before-object-data', 'X1-parser-handler-keeps-upstream-errors', 'W1-child-failure-reported', 'W2-pipe-ends-paired', 'S1-status-gates-access', 'S2-handler-closes-marks-error-rethrows', 'S3-close-stores-closed',
    'S3-close-shutdown-before-join', 'S3-close-idempotent', 'S3-stop-flag-before-join', 'S3-read-loop-tests-stop-flag',
    'S4-parser-fd-loop-observes-close', 'F1-parser-closes-its-descriptor', 'D1-destructor-swallows', 'D1-throwing-call-in-destructor-wrapped', 'L1-referent-declared-before-holder',
    'J1-thread-member-joined', 'P1-add-to-queue-pushes-and-fulfils')]
