"""C01 -- write-then-read round trip is lossless: CODEC (writer/reader table agreement) + a local ORDERTYPE evaluation.

Decides necessary structural conditions only (never value-level equality of what comes back):

 clause 1  PBF field tables (engine: osmlint/codec.py)
   pbf-emitted-field-decoded       every field the PBF writer can emit has a consuming decoder case in the same message
   pbf-writer-kind-matches-proto   emission API (scalar kind, zig-zag, packed, nested message type) == proto type transcribed in
                                   the enumerator name of protobuf_tags.hpp (the specification witness)
   pbf-reader-kind-matches-proto   case wire type + accessor (get_<k>, varint_range::next_<k>, nested pbf_message<M>) == proto type
   pbf-delta-agrees                value delta-coded on the writer side (DeltaEncode::update) <=> decoded through DeltaDecode::update
   pbf-delta-width                 for every delta coded field the encoder's delta type and the decoder's delta and accumulator types are
                                   signed and at least as wide as the proto field type (sint64 -> 64 bit); types are read off the
                                   instantiated DeltaEncode/DeltaDecode::update signatures
 order     osmium::io::Writer (pending buffer = its only osmium::memory::Buffer member; "flush" = a call that hands that member to
           OutputFormat::write_buffer, directly, through a Buffer-forwarding helper, or via swap into a local)
   writer-flush-before-foreign-buffer       a caller-supplied buffer is handed to the output only after a dominating flush of the pending one
   writer-full-buffer-flushed-before-retry  in the buffer_is_full handler the flush precedes the second push_back
   writer-pending-flushed-before-end        a flush dominates write_end()
   writer-flush-entry-points                flush() flushes on every path; ensure_cleanup invokes its functor on every non-throwing path
 clause 2  writer-internal gates
   dense-column-gates-agree        each DenseNodes column is pushed (add_node) and serialised (serialize) under the same options
   dense-columns-parallel          each column gets exactly one push per node (variable-length tag column: 0 terminator)
   info-field-gated-by-own-option  every Info / DenseInfo field is written under the metadata option of the same name
   metadata-option-accessors       metadata_options::X() tests bit md_X; any() tests "some bit"
 clause 4  block limits
   can-add-block-limits            exhaustive evaluation of PrimitiveBlock::can_add over all orderings of count()/size() against
                                   the limits: true => same type, count < max_entities_per_block, size < max_used_blob_size
   blob-size-constants             max_used_blob_size <= max_uncompressed_blob_size; readers reject only sizes > that constant
   block-switch-before-use         switch_primitive_block_type dominates every group()/add_dense_node; a full block is stored
                                   before it is replaced; write_end stores the last block
   blob-header-length-byte-order   SerializeBlob appends byte i of the 4-byte BlobHeader length as (size >> s_i) & 0xff and PBFParser
                                   rebuilds it from d[i] << s_i with the same pairs, s = 24, 16, 8, 0
 clause 3  XML / OPL vocabulary (extraction: osmlint/c01_util.py)
   xml-name-dispatched             every element the XML writer opens is dispatched on by XMLParser; every attribute it writes inside
                                   element E (nearest dominating `<E` literal, inherited through call sites) is one of the names the
                                   reader compares against in the attribute handler reached for E (strcmp / char-wise tests, through
                                   set_attribute forwarding).  One derived attribute is exempt (XML_DERIVED: changeset@open).
   xml-constant-value-accepted     an attribute the writer emits with a constant value (visible="true", version="0.6") carries one of the
                                   values the reader compares that attribute against
   opl-letter-dispatched           every alphabetic character OPLOutputBlock::<kind> can emit (closure over its helpers) is a case label
                                   of opl_parse_<kind>, its line-type letter in opl_parse_line, or a character the nested section parsers
                                   it calls compare against
   text-field-gated-by-own-option  an XML attribute / OPL letter fed from object.X() (X a metadata attribute) and written under a
                                   metadata option is written under add_metadata.X()
 clause 5  wire name <-> accessor pairing, all three formats
   wire-name-accessor-pairing      writer: wire name -> entity accessors feeding the value; reader: wire name -> setter / builder argument
                                   the decoded value flows into (through locals, DeltaDecode, string-table lookup, by-reference lambda
                                   captures).  set_X / add_*(.., X, ..) must name an attribute the writer read (ADD_ARGS table).
 clause 6  axis / corner agreement
   axis-corner-agreement           a wire name that denotes a longitude (lon, x, X, left, right, min_lon ..) is fed from x()/lon() and routed
                                   to set_lon*/convert_pbf_lon/first Location argument (lat likewise); min*/left/bottom/x/y come from and go
                                   to bottom_left, max*/right/top/X/Y top_right

Not decided (moved to "not decided" in the manifest): value-level equality; escaping (C14); string-table index arithmetic; byte-size
accounting of the string table inside PrimitiveBlock::size() (a units question); compression layers; thread counts; whether a
nested OPL section letter (way nodes n/x/y) is used at the right nesting level (the vocabulary rule accepts the union of top-level
and nested characters of the kind's parser); the lifetime (per-block reset) of DeltaEncode/DeltaDecode objects; the arithmetic
inside DeltaEncode/DeltaDecode::update.  The ORDERTYPE clause (can_add) is implemented here by a small local enumeration of
orderings (worlds = every symbol at, between and beyond the constants it is compared with) because the shared engine did not
exist yet; it can be replaced by the shared engine without changing rule names or keys.
"""
from .. import codec
from ..codec import short
from ..flow import path_search, describe_path
from ..c01_util import edge_guards

# (rule, key, explanation) of genuine defects of the pristine tree this module reports (none known for C01)
KNOWN = [
    ('value-range-bound-agrees', 'osmium::detail::string_to_ulong(const char *, const char *)#value#max',
     'string_to_ulong() accepts only value < 2^32-1: the XML reader (set_changeset / set_version / set_uid / num_changes / comments_count from '
     'strings) rejects 4294967295, which the type, the builders and the XML writer accept: a node with changeset id 4294967295 written '
     'as XML (changeset="4294967295") makes the Reader throw std::range_error "illegal changeset"; same class as F25'),
    ('reader-decompressor-honours-compression', 'osmium::io::Reader::make_decompressor#osmium::io::DummyDecompressor',
     'F19: Reader::make_decompressor() takes the DummyDecompressor for every PBF file read from a file descriptor and ignores '
     'file.compression(); the Writer compresses t.osm.pbf.gz / t.osm.pbf.bz2, reading them back throws "invalid BlobHeader size"'),
]

EXPLANATION = (
    'Decided: (1) PBF codec tables -- every (message, field) pbf_output_format.hpp can emit has a consuming case in '
    'pbf_decoder.hpp / pbf_input_format.hpp; writer API kind, reader accessor kind and wire type agree with the proto type '
    'transcribed in the enumerator names of protobuf_tags.hpp; delta coding is applied on both sides or on neither. '
    '(2) DenseNodes columns are filled and serialised under the same option gates, one push per node; Info/DenseInfo fields are '
    'gated by the metadata option of the same name. (3) XML attribute/element names and OPL field letters the writers can emit are '
    'dispatched on by the readers in the same element / object context. (4) PrimitiveBlock::can_add decided for all orderings of '
    'count/size vs the limits; blob size constants consistent between writer and reader; block switch dominates every use. '
    'The 4-byte BlobHeader length is written and rebuilt with the same (byte index, shift) pairs, big-endian. '
    '(5)/(6) wire name -> getter on the writer side pairs with wire name -> setter on the reader side (attribute and lon/lat axis, '
    'bottom_left/top_right corner) in PBF, XML and OPL; constant XML attribute values are among those the reader distinguishes; '
    'XML/OPL metadata fields are written under the option named like the accessor that feeds them. '
    'NOT decided: value-level equality of what comes back, escaping round trip (C14), string-table indices, size accounting '
    'units of the string table inside PrimitiveBlock::size(), compression layers, thread counts, nesting level of OPL section letters, '
    'lifetime of delta coder objects, arithmetic inside DeltaEncode/DeltaDecode.')
ASSUMPTIONS = ['protozero implements the protobuf wire format (add_<k>/get_<k>/packed_field_<k> per their names)',
               'the enumerator names in protobuf_tags.hpp transcribe osmformat.proto / fileformat.proto correctly',
               'drivers/io_write.cpp and drivers/io_read.cpp instantiate every PBF/XML/OPL writer and reader body']

NS = 'osmium::io::detail::'
# proto enum types (not messages) and the scalar they travel as -- one row, from osmformat.proto `enum MemberType`
PROTO_ENUMS = {'MemberType': 'int32'}
LEN_KINDS = {'bytes', 'string', 'cstring'}
VARINT_KINDS = {'int32', 'int64', 'uint32', 'uint64', 'sint32', 'sint64', 'bool', 'enum'}
# Info / DenseInfo field name -> writer option that gates it (fields not listed: metadata option of the same name)
OPTION_ALIAS = {'user_sid': ('md', 'user'), 'visible': ('opt', 'add_visible_flag')}


# ================================================================================================ clause 1: PBF tables

def _expected(fb, spec):
    """(class, kind) the proto type demands: ('scalar', k) | ('len', None) | ('message', short name) | None (unknown)."""
    p = spec.ptype
    if p is None:
        return None
    if p in PROTO_ENUMS:
        return ('scalar', PROTO_ENUMS[p])
    if p in codec.SCALARS:
        return ('scalar', p)
    if p in ('bytes', 'string'):
        return ('len', None)
    msgs = {m.rsplit('::', 1)[-1] for m in codec.message_enums(fb, spec.msg)}
    # messages declared in osmformat.proto but never used by libosmium have no enum of their own (ChangeSet)
    if p in msgs or p[:1].isupper():
        return ('message', p)
    return None


def pbf_table_rules(fb, R):
    em, dc = codec.pbf_tables(fb)
    if not em:
        R.broken('no PBF field emission found (pbf_output_format.hpp not instantiated?)')
        return
    if not dc:
        R.broken('no PBF decoder case found (pbf_decoder.hpp not instantiated?)')
        return
    for p in getattr(dc, 'problems', []):
        R.broken(p)
    cases = {}
    for c in dc:
        cases.setdefault((c.msg, c.num), []).append(c)
    emitted = {}
    for e in em:
        emitted.setdefault((e.msg, e.num), []).append(e)

    for (msg, num), es in sorted(emitted.items(), key=lambda kv: (str(kv[0][0]), kv[0][1] or 0)):
        e0 = es[0]
        if msg is None or num is None:
            R.broken('cannot determine message / field number of the emission at %s' % e0.site)
            continue
        spec = codec.pbf_spec(fb, msg, num)
        if spec is None:
            R.bad('pbf-emitted-field-decoded', '%s#%d' % (short(msg), num), e0.site,
                  '%s writes field number %d which enum %s does not declare' % (e0.fn.q, num, short(msg)))
            continue
        # ---- R1: a consuming decoder case exists
        cs = [c for c in cases.get((msg, num), []) if c.consumed]
        R.check(bool(cs), 'pbf-emitted-field-decoded', spec.key, e0.site,
                'field %s is emitted by %s but no decoder case of a pbf_message<%s> consumes it (%s)'
                % (spec.key, e0.fn.q, short(msg),
                   'cases exist but only skip/throw' if cases.get((msg, num)) else 'no case tag_and_type(%s, ...)' % spec.enumerator),
                detail={'emitted_by': [x.fn.q for x in es], 'decoded_by': [c.fn.q for c in cs]})
        exp = _expected(fb, spec)
        if exp is None:
            R.broken('unknown proto type %r in enumerator %s' % (spec.ptype, spec.key))
            continue
        # ---- R2: writer kind
        for e in es:
            key = '%s#%s' % (spec.key, e.fn.q)
            msgs = []
            if spec.packed != bool(e.packed):
                msgs.append('proto declares the field %s but it is written %s' % ('packed' if spec.packed else 'not packed', 'packed' if e.packed else 'as a single value'))
            if e.kind is None:
                R.broken('cannot determine the scalar kind written at %s' % e.site)
                continue
            if exp[0] == 'scalar':
                ok = e.kind == exp[1] or (spec.ptype in PROTO_ENUMS and e.kind == 'enum')
                if not ok:
                    msgs.append('proto type %s requires add_%s%s, the writer uses %s%s' % (spec.ptype, 'packed_' if spec.packed else '', exp[1],
                                                                                          'packed ' if e.packed else '', e.kind))
            elif exp[0] == 'len':
                if e.kind not in LEN_KINDS:
                    msgs.append('proto type %s is length-delimited data, the writer uses add_%s' % (spec.ptype, e.kind))
            else:
                if e.kind != 'message':
                    msgs.append('proto type %s is a message, the writer uses add_%s' % (spec.ptype, e.kind))
                elif e.nested is not None and e.nested.rsplit('::', 1)[-1] != exp[1]:
                    msgs.append('nested builder is a pbf_builder<%s> but the field holds a %s' % (short(e.nested), exp[1]))
            R.check(not msgs, 'pbf-writer-kind-matches-proto', key, e.site, '%s: %s' % (spec.key, '; '.join(msgs)),
                    detail={'how': e.how, 'kind': e.kind, 'packed': e.packed})
        # ---- R4: delta agreement writer <-> every consuming decoder
        if exp[0] == 'scalar':
            wflags = set()
            for e in es:
                if e.packed and not e.values:
                    R.bad('pbf-delta-agrees', '%s#writer' % spec.key, e.site,
                          '%s: packed field is serialised from %s but no value is ever added to it' % (spec.key, e.column[1] if e.column else 'a packed_field'))
                wflags |= e.delta_flags()
            for c in cs:
                key = '%s#%s' % (spec.key, c.fn.q)
                if spec.packed:
                    rflags = {x.delta for x in c.packed}
                else:
                    rflags = {codec.reaches_call(getattr(c, "scalar_fn", c.fn), c.scalar_node, codec.DELTA_DEC) is not None} if c.scalar is not None else set()
                if not rflags or not wflags:
                    continue  # reported by the kind rules
                ok = len(wflags) == 1 and len(rflags) == 1 and wflags == rflags
                R.check(ok, 'pbf-delta-agrees', key, c.site,
                        '%s: writer %s, decoder %s %s' % (spec.key, _dtext(wflags, 'DeltaEncode::update', 'writes'), c.fn.q,
                                                           _dtext(rflags, 'DeltaDecode::update', 'reads')),
                        detail={'writer_delta': sorted(wflags), 'reader_delta': sorted(rflags)})

    # ---- R3: reader kind, every consuming case (also fields only foreign writers emit)
    for c in dc:
        if c.msg is None or c.num is None:
            R.broken('cannot determine message / field number of the decoder case at %s' % c.site)
            continue
        spec = codec.pbf_spec(fb, c.msg, c.num)
        if spec is None:
            R.bad('pbf-reader-kind-matches-proto', '%s#%d#%s' % (short(c.msg), c.num, c.fn.q), c.site,
                  'case label in %s uses field number %d which enum %s does not declare' % (c.fn.q, c.num, short(c.msg)))
            continue
        if not c.consumed:
            continue
        exp = _expected(fb, spec)
        if exp is None:
            R.broken('unknown proto type %r in enumerator %s' % (spec.ptype, spec.key))
            continue
        key = '%s#%s' % (spec.key, c.fn.q)
        msgs = []
        want_wire = 0 if (exp[0] == 'scalar' and not spec.packed and exp[1] in VARINT_KINDS) else 2
        if exp[0] == 'scalar' and not spec.packed and exp[1] not in VARINT_KINDS:
            want_wire = 1 if exp[1] in ('fixed64', 'sfixed64', 'double') else 5
        if c.wire != want_wire:
            msgs.append('case label expects wire type %s, proto %s %s travels as %s'
                        % (codec.WIRE_NAMES.get(c.wire, c.wire), spec.label, spec.ptype, codec.WIRE_NAMES.get(want_wire)))
        if exp[0] == 'scalar' and not spec.packed:
            if c.scalar is None:
                msgs.append('proto type %s needs get_%s(), the case consumes the field with %s()' % (spec.ptype, exp[1], getattr(c, 'view_accessor', '?')))
            elif c.scalar != exp[1] and not (spec.ptype in PROTO_ENUMS and c.scalar == 'enum'):
                msgs.append('proto type %s needs get_%s(), the case calls get_%s()' % (spec.ptype, exp[1], c.scalar))
        elif exp[0] == 'scalar':
            if not c.view:
                msgs.append('packed field must be consumed as a length-delimited view, the case calls get_%s()' % c.scalar)
            elif not c.packed:
                R.broken('cannot trace the varint_range that consumes packed field %s in %s' % (spec.key, c.fn.q))
                continue
            else:
                allowed = {exp[1]}
                if exp[1] == 'bool':
                    allowed |= {'int32', 'uint32'}   # one varint per element; 0/1 fit every plain varint reader
                for x in c.packed:
                    if x.kind not in allowed:
                        msgs.append('proto type packed %s needs next_%s(), %s calls next_%s() on %s'
                                    % (spec.ptype, exp[1], x.fn.q, x.kind, c.range_var[2] if c.range_var else 'the range'))
        elif exp[0] == 'len':
            if not c.view:
                msgs.append('proto type %s is length-delimited data, the case calls get_%s()' % (spec.ptype, c.scalar))
        else:
            if not c.view:
                msgs.append('proto type %s is a message, the case calls get_%s()' % (spec.ptype, c.scalar))
            elif c.nested is None:
                R.broken('cannot trace which pbf_message<> parses field %s in %s' % (spec.key, c.fn.q))
                continue
            elif c.nested.rsplit('::', 1)[-1] != exp[1]:
                msgs.append('the field holds a %s but is parsed as pbf_message<%s>' % (exp[1], short(c.nested)))
        R.check(not msgs, 'pbf-reader-kind-matches-proto', key, c.site, '%s: %s' % (spec.key, '; '.join(msgs)),
                detail={'wire': c.wire, 'scalar': c.scalar, 'packed': [x.kind for x in c.packed], 'nested': c.nested})
    return em, dc


def _dtext(flags, what, verb):
    if flags == {True}:
        return '%s the value through %s' % (verb, what)
    if flags == {False}:
        return '%s the value without %s' % (verb, what)
    return '%s some values with and some without %s' % (verb, what)


# ================================================================================================ clause 2: gates

def gate_atoms(fn, nid):
    """Option predicates that must hold for node nid to execute: set of atoms
       ('md', name) metadata_options::name() true; ('opt', field) bool option field true; ('not', atom);
       ('or', frozenset(atoms)) a disjunction; ('other', text) anything else."""
    out = set()
    conds = edge_guards(fn, nid)
    # drop sub-conditions of a disjunction that is itself recorded (guards_of expands conjunctions only when sense fits)
    for (c, sense, _b) in conds:
        a = _atom(fn, c)
        n = fn.sn(c)
        if n is not None and n.get('k') == 'binop' and n['op'] == '&&' and sense:
            continue  # expanded into its conjuncts by guards_of
        if n is not None and n.get('k') == 'unop' and n['op'] == '!':
            continue  # expanded into the negated operand
        out.add(a if sense else ('not', a))
    return out


def _atom(fn, c):
    n = codec.through_locals(fn, c)   # `const bool any_meta = m_options.add_metadata.any();`
    if n is None:
        return ('other', '?')
    if n.get('k') == 'call' and n.get('rcls') == 'osmium::metadata_options' and not n.get('args'):
        return ('md', n['q'].rsplit('::', 1)[-1])
    if n.get('k') == 'member' and n.get('field') and n.get('t') in ('bool', 'const bool'):
        return ('opt', n['name'])
    if n.get('k') == 'binop' and n['op'] == '||':
        return ('or', frozenset([_atom(fn, n['lhs']), _atom(fn, n['rhs'])]))
    return ('other', fn.expr(c))


def _split_container(atoms):
    plain = {a for a in atoms if a[0] != 'or'}
    ors = [a for a in atoms if a[0] == 'or']
    return plain, ors


def _fmt_atoms(atoms):
    def f(a):
        if a[0] == 'md':
            return 'add_metadata.%s()' % a[1]
        if a[0] == 'opt':
            return a[1]
        if a[0] == 'not':
            return '!' + f(a[1])
        if a[0] == 'or':
            return '(' + ' || '.join(sorted(f(x) for x in a[1])) + ')'
        return a[1]
    return '{' + ', '.join(sorted(f(a) for a in atoms)) + '}' if atoms else '{always}'


def gate_rules(fb, R, em):
    # ---- DenseNodes columns
    cols = [e for e in em if e.how == 'add_packed' and e.column is not None]
    by_class = {}
    for e in cols:
        by_class.setdefault(e.fn.cls, []).append(e)
    if not cols:
        R.broken('no packed column serialised from a member container found (DenseNodes::serialize)')
    for cls, es in by_class.items():
        rec = fb.record(cls)
        serialised = set()
        for e in es:
            spec = codec.pbf_spec(fb, e.msg, e.num)
            name = e.column[1]
            serialised.add(e.column[0])
            key = '%s::%s' % (cls, name)
            pushes = getattr(e, 'pushes', [])
            if not pushes:
                R.bad('dense-column-gates-agree', key, e.site, 'column %s is serialised as %s but never filled' % (name, spec.key if spec else e.num))
                continue
            sa, s_or = _split_container(gate_atoms(e.fn, e.node))
            bad = []
            for (g, _v, call) in pushes:
                pa, p_or = _split_container(gate_atoms(g, call))
                inloop = any(g.in_range(call, l['b'], l['e']) for l in g.loops)
                if inloop:
                    continue  # variable-length part; its presence is decided by the data, the terminator by the rule below
                if pa != sa:
                    bad.append('%s pushes under %s, %s serialises under %s' % (g.q, _fmt_atoms(pa), e.fn.q, _fmt_atoms(sa)))
            R.check(not bad, 'dense-column-gates-agree', key, e.site, 'column %s (%s): %s' % (name, spec.key if spec else e.num, '; '.join(bad)),
                    detail={'serialise_gate': _fmt_atoms(sa)})
            # ---- parallel arrays: exactly one push per node
            fixed = [(g, v, c) for (g, v, c) in pushes if not any(g.in_range(c, l['b'], l['e']) for l in g.loops)]
            looped = [(g, v, c) for (g, v, c) in pushes if (g, v, c) not in fixed]
            fns = {g.q for (g, _v, _c) in pushes}
            if looped:
                ok = len(fixed) == 1 and fixed[0][0].const_value(fixed[0][1]) == 0
                msg = ('variable-length column %s must get exactly one unconditional 0 terminator per node (found %d pushes outside the loop)'
                       % (name, len(fixed)))
                if ok:
                    # the terminator must come after the loop on every path: no path from the terminator back to a looped push
                    g, _v, c = fixed[0]
                    ids = {cc for (_g, _vv, cc) in looped}
                    ok = path_search(g, c, lambda x: x in ids, lambda x: False) is None
                    msg = 'the 0 terminator of column %s can be followed by further elements of the same node' % name
            else:
                others = [a for (g, _v, c) in fixed for a in gate_atoms(g, c) if a[0] in ('other',) or (a[0] == 'not')]
                ok = len(fixed) == 1 and len(fns) == 1 and not others
                msg = ('column %s must be pushed exactly once per node under option gates only (found %d push sites in %s%s)'
                       % (name, len(fixed), sorted(fns), ', extra conditions ' + _fmt_atoms(set(others)) if others else ''))
            R.check(ok, 'dense-columns-parallel', key, pushes[0][0].loc(pushes[0][2]), msg)
        # columns filled but never serialised
        if rec is not None:
            for f in rec.fields:
                if not f['tC'].startswith('std::vector<'):
                    continue
                if f['q'] in serialised:
                    continue
                pushes = codec._column_values(fb, es[0].fn, f['q'])
                if pushes:
                    R.bad('dense-column-gates-agree', '%s::%s' % (cls, f['name']), pushes[0][0].loc(pushes[0][2]),
                          'column %s is filled in %s but never serialised' % (f['name'], pushes[0][0].q))

    # ---- Info / DenseInfo fields gated by the option of the same name
    n = 0
    for e in em:
        if e.msg is None or e.msg.rsplit('::', 1)[-1] not in ('Info', 'DenseInfo'):
            continue
        spec = codec.pbf_spec(fb, e.msg, e.num)
        if spec is None:
            continue
        n += 1
        want = OPTION_ALIAS.get(spec.field, ('md', spec.field))
        atoms, ors = _split_container(gate_atoms(e.fn, e.node))
        msgs = []
        if atoms != {want}:
            msgs.append('written under %s, must be written under exactly %s' % (_fmt_atoms(atoms), _fmt_atoms({want})))
        for o in ors:
            # an enclosing `a || b` container must be implied by the field's own gate
            implied = want in o[1] or (want[0] == 'md' and ('md', 'any') in o[1])
            if not implied:
                msgs.append('enclosing condition %s is not implied by %s' % (_fmt_atoms({o}), _fmt_atoms({want})))
        R.check(not msgs, 'info-field-gated-by-own-option', '%s#%s' % (spec.key, e.fn.q), e.site, '%s: %s' % (spec.key, '; '.join(msgs)),
                detail={'gate': _fmt_atoms(atoms)})
    if n == 0:
        R.broken('no Info / DenseInfo field emission found')

    # ---- the nested Info / DenseInfo message itself: written whenever one of its fields can be
    for e in em:
        if e.how != 'nested' or e.nested is None or e.nested.rsplit('::', 1)[-1] not in ('Info', 'DenseInfo'):
            continue
        spec = codec.pbf_spec(fb, e.msg, e.num)
        atoms, ors = _split_container(gate_atoms(e.fn, e.node))
        inner = set()
        for x in em:
            if x.msg == e.nested and x.fn.pat == e.fn.pat:   # same template pattern (rows are de-duplicated per pattern)
                sp = codec.pbf_spec(fb, x.msg, x.num)
                if sp is not None:
                    inner.add(OPTION_ALIAS.get(sp.field, ('md', sp.field)))
        ok = not atoms and len(ors) == 1
        if ok:
            for w in inner:
                if not (w in ors[0][1] or (w[0] == 'md' and ('md', 'any') in ors[0][1])):
                    ok = False
        R.check(ok, 'info-field-gated-by-own-option', '%s#%s' % (spec.key if spec else e.num, e.fn.q), e.site,
                'the nested %s message is written under %s which does not cover the gates of its fields %s'
                % (short(e.nested), _fmt_atoms(atoms | set(ors)), _fmt_atoms(inner)))


def metadata_option_rules(fb, R):
    MO = 'osmium::metadata_options'
    e = fb.enum(MO + '::options')
    if e is None:
        R.broken('enum %s::options not found' % MO)
        return
    bits = {en['name']: int(en['value']) for en in e['enumerators']}
    for name in ('version', 'timestamp', 'changeset', 'uid', 'user'):
        fns = [f for f in fb.fns('%s::%s' % (MO, name)) if not f.params and f.has_cfg]
        if not fns:
            R.broken('%s::%s() not found' % (MO, name))
            continue
        for fn in fns:
            rets = [n for n in fn.all_nodes() if n.get('k') == 'return' and 'sub' in n]
            ok = len(rets) == 1
            used = None
            if ok:
                r = fn.sn(rets[0]['sub'])
                ok = r is not None and r.get('k') == 'binop' and r['op'] == '!=' and fn.const_value(r['rhs']) == 0
                if ok:
                    a = fn.sn(r['lhs'])
                    ok = a is not None and a.get('k') == 'binop' and a['op'] == '&'
                    if ok:
                        sides = [a['lhs'], a['rhs']]
                        mem = [s for s in sides if fn.is_this_member(s)]
                        cst = [s for s in sides if fn.const_value(s) is not None]
                        ok = len(mem) == 1 and len(cst) == 1
                        if ok:
                            used = fn.const_value(cst[0])
                            ok = used == bits.get('md_' + name) and used != 0 and (used & (used - 1)) == 0
            R.check(ok, 'metadata-option-accessors', '%s::%s' % (MO, name), fn.site,
                    '%s() must return (m_options & md_%s) != 0 (tests bit value %s, md_%s is %s)' % (name, name, used, name, bits.get('md_' + name)))
    for fn in [f for f in fb.fns(MO + '::any') if f.has_cfg]:
        rets = [n for n in fn.all_nodes() if n.get('k') == 'return' and 'sub' in n]
        ok = len(rets) == 1
        if ok:
            r = fn.sn(rets[0]['sub'])
            ok = (r is not None and r.get('k') == 'binop' and r['op'] == '!=' and fn.const_value(r['rhs']) == 0 and fn.is_this_member(r['lhs']))
        R.check(ok, 'metadata-option-accessors', MO + '::any', fn.site, 'any() must return m_options != 0 (it guards the whole Info message)')


# ================================================================================================ clause 4: block limits

class _Unknown(Exception):
    pass


INT_TYPES = ('int', 'unsigned int', 'long', 'unsigned long', 'short', 'unsigned short', 'char', 'unsigned char', 'long long',
             'unsigned long long', 'bool')


def _resolve_local(fn, nid):
    """Look through a local that is initialised once and never written again."""
    n = fn.sn(nid)
    hops = 0
    while n is not None and n.get('k') == 'var' and n.get('vk') == 'local' and hops < 5:
        hops += 1
        d = n['d']
        init = None
        for m in fn.all_nodes():
            if m.get('k') == 'decl':
                for v in m['vars']:
                    if v['d'] == d and isinstance(v.get('init'), int):
                        init = v['init']
            if m.get('k') == 'assign' or (m.get('k') == 'unop' and m['op'] in ('++', '--')):
                t = fn.sn(m.get('lhs', m.get('sub')))
                if t is not None and t.get('k') == 'var' and t.get('d') == d:
                    return n
        if init is None:
            return n
        n = fn.sn(init)
    return n


def _term(fn, nid, roles):
    """('const', v) | ('sym', name)"""
    v = fn.const_value(nid)
    if v is not None:
        return ('const', v)
    n = _resolve_local(fn, nid)
    if n is None:
        raise _Unknown('empty operand')
    for name, pred in roles.items():
        if pred(fn, n):
            return ('sym', name)
    if n.get('k') == 'var' and n.get('vk') == 'param':
        return ('sym', 'param:' + n['name'])
    if n.get('k') == 'member' and n.get('field') and fn.is_this_member(n['id']):
        return ('sym', 'field:' + n['name'])
    raise _Unknown('operand %s is neither a constant, a parameter, a member nor one of %s' % (fn.expr(nid), sorted(roles)))


_CMP = {'<': lambda a, b: a < b, '<=': lambda a, b: a <= b, '>': lambda a, b: a > b, '>=': lambda a, b: a >= b,
        '==': lambda a, b: a == b, '!=': lambda a, b: a != b}


def _collect_cmps(fn, nid, roles, out):
    n = fn.sn(nid)
    if n is None:
        raise _Unknown('empty condition')
    k = n.get('k')
    if k == 'binop' and n['op'] in ('&&', '||'):
        _collect_cmps(fn, n['lhs'], roles, out)
        _collect_cmps(fn, n['rhs'], roles, out)
    elif k == 'unop' and n['op'] == '!':
        _collect_cmps(fn, n['sub'], roles, out)
    elif k == 'binop' and n['op'] in _CMP:
        out.append((n['id'], _term(fn, n['lhs'], roles), n['op'], _term(fn, n['rhs'], roles)))
    elif k == 'lit' and fn.const_value(nid) is not None:
        pass
    else:
        raise _Unknown('condition %s is not a comparison of integers' % fn.expr(nid))


def _eval(fn, nid, world, roles):
    n = fn.sn(nid)
    k = n.get('k')
    if k == 'binop' and n['op'] == '&&':
        return _eval(fn, n['lhs'], world, roles) and _eval(fn, n['rhs'], world, roles)
    if k == 'binop' and n['op'] == '||':
        return _eval(fn, n['lhs'], world, roles) or _eval(fn, n['rhs'], world, roles)
    if k == 'unop' and n['op'] == '!':
        return not _eval(fn, n['sub'], world, roles)
    if k == 'binop' and n['op'] in _CMP:
        a, b = _term(fn, n['lhs'], roles), _term(fn, n['rhs'], roles)
        return _CMP[n['op']](world[a] if a[0] == 'sym' else a[1], world[b] if b[0] == 'sym' else b[1])
    v = fn.const_value(nid)
    if v is not None:
        return bool(v)
    raise _Unknown('cannot evaluate %s' % fn.expr(nid))


def _run(fn, world, roles):
    """Abstractly execute the decision tree of fn in one world; returns the boolean it returns."""
    b = fn.entry
    steps = 0
    while steps < 200:
        steps += 1
        blk = fn.blocks[b]
        for e in blk['elems']:
            n = fn.nodes[e]
            if n.get('k') == 'return':
                if 'sub' not in n:
                    raise _Unknown('return without value')
                return _eval(fn, n['sub'], world, roles)
            if n.get('k') in ('assign', 'throw', 'new', 'delete') or (n.get('k') == 'unop' and n['op'] in ('++', '--')):
                raise _Unknown('statement with side effects: %s' % fn.expr(e))
        succs = blk['succs']
        if 'cond' in blk and len(succs) == 2:
            t = _eval(fn, blk['cond'], world, roles)
            b = succs[0] if t else succs[1]
            if b is None:
                raise _Unknown('pruned edge taken')
        elif len(succs) == 1 and succs[0] is not None:
            b = succs[0]
        else:
            raise _Unknown('block B%d has no unique successor' % blk['id'])
    raise _Unknown('no return reached')


def _worlds(syms, consts):
    """All orderings: every symbol takes each constant and a representative of each gap (integers: empty gaps skipped);
    symbols without constants range over {0, 1, 2} relative to each other (=, <, > realised by distinct small values)."""
    cs = sorted(set(consts))
    reps = []
    if cs:
        reps.append(cs[0] - 1)
        for i, c in enumerate(cs):
            reps.append(c)
            if i + 1 < len(cs):
                if cs[i + 1] - c > 1:
                    reps.append(c + 1)
            else:
                reps.append(c + 1)
    else:
        reps = [0, 1, 2]
    out = [{}]
    for s in syms:
        out = [dict(w, **{s: v}) for w in out for v in reps]
    return out


def block_limit_rules(fb, R):
    PB = NS + 'PrimitiveBlock'
    max_ent = max_used = None
    for e in fb.enums:
        for en in e['enumerators']:
            if e['q'] == NS + '(anon)' and en['name'] == 'max_entities_per_block':
                max_ent = int(en['value'])
            if e['q'] == PB + '::(anon)' and en['name'] == 'max_used_blob_size':
                max_used = int(en['value'])
    g = fb.global_const(NS + 'max_uncompressed_blob_size')
    max_blob = int(g['cv']) if g is not None and 'cv' in g else None
    if max_ent is None or max_used is None or max_blob is None:
        R.broken('block limit constants not found (max_entities_per_block=%s max_used_blob_size=%s max_uncompressed_blob_size=%s)'
                 % (max_ent, max_used, max_blob))
        return

    # ---- can_add over all orderings
    def is_call(qn):
        return lambda fn, n: n.get('k') == 'call' and n.get('q') == qn and not n.get('args')
    roles = {'count': is_call(PB + '::count'), 'size': is_call(PB + '::size')}
    fns = [f for f in fb.fns(PB + '::can_add') if f.has_cfg]
    if not fns:
        R.broken('%s::can_add not found' % PB)
    for fn in fns:
        key = fn.q
        try:
            cmps = []
            for b in fn.blocks.values():
                if 'cond' in b and len(b['succs']) == 2:
                    _collect_cmps(fn, b['cond'], roles, cmps)
            for n in fn.all_nodes():
                if n.get('k') == 'return' and 'sub' in n:
                    _collect_cmps(fn, n['sub'], roles, cmps)
            # count()/size() must really be the entity counter and the byte size: count() returns the member incremented by
            # group()/add_dense_node, checked in block-switch rules; here: symbols and constants
            sym_consts = {'count': {max_ent}, 'size': {max_used}}
            pairs = set()
            for (_i, a, _op, b) in cmps:
                if a[0] == 'sym' and b[0] == 'const':
                    sym_consts.setdefault(a[1], set()).add(b[1])
                elif a[0] == 'const' and b[0] == 'sym':
                    sym_consts.setdefault(b[1], set()).add(a[1])
                elif a[0] == 'sym' and b[0] == 'sym':
                    pairs.add(frozenset([a[1], b[1]]))
                    sym_consts.setdefault(a[1], set())
                    sym_consts.setdefault(b[1], set())
            type_pair = [p for p in pairs if len(p) == 2 and any(x.startswith('param:') for x in p) and any(x.startswith('field:') for x in p)]
            worlds = [{}]
            for s, cs in sorted(sym_consts.items()):
                worlds = [dict(w, **{s: w2[s]}) for w in worlds for w2 in _worlds([s], cs)]
            nworlds = 0
            bad = None
            for w in worlds:
                res = _run(fn, {('sym', s): v for s, v in w.items()}, roles)
                nworlds += 1
                same_type = all(len({w[x] for x in p}) == 1 for p in type_pair) and bool(type_pair)
                allowed = same_type and w['count'] < max_ent and w['size'] < max_used
                if res and not allowed and bad is None:
                    bad = w
            msg = None
            if bad is not None:
                msg = ('returns true for count()=%s (max_entities_per_block=%d), size()=%s (max_used_blob_size=%d)%s: the block would exceed its limits'
                       % (bad['count'], max_ent, bad['size'], max_used,
                          ', type %s requested type' % ('==' if all(len({bad[x] for x in p}) == 1 for p in type_pair) and type_pair else '!=')))
            R.check(bad is None, 'can-add-block-limits', key, fn.site, 'can_add ' + (msg or ''),
                    detail={'orderings_evaluated': nworlds, 'comparisons': len(cmps)})
        except _Unknown as ex:
            R.broken('%s: body is not a decision tree over integer comparisons (%s)' % (fn.q, ex))

    # ---- count() really counts: returns the member that group()/add_dense_node increment
    cnt_fields = set()
    for fn in fb.fns(PB + '::count'):
        for n in fn.all_nodes():
            if n.get('k') == 'return' and 'sub' in n:
                r = fn.root_var(n['sub'])
                if r is not None and r[0] == 'field':
                    cnt_fields.add(r[1])
    for nm in ('group', 'add_dense_node'):
        for fn in fb.fns('%s::%s' % (PB, nm)):
            incs = []
            for n in fn.all_nodes():
                if n.get('k') == 'unop' and n['op'] == '++':
                    r = fn.root_var(n['sub'])
                    if r is not None and r[0] == 'field' and r[1] in cnt_fields:
                        incs.append(n['id'])
            ids = set(incs)
            w = path_search(fn, fn.entry, lambda x: isinstance(x, tuple) and x[0] == 'exit', lambda x: x in ids, from_block_start=True)
            R.check(bool(incs) and w is None, 'can-add-block-limits', '%s#counts' % fn.q, fn.site,
                    '%s hands out / fills an entity slot without incrementing the counter count() returns: %s' % (fn.q, describe_path(fn, w)))

    # ---- constants
    R.check(max_used <= max_blob, 'blob-size-constants', PB + '::max_used_blob_size', 'pbf_output_format.hpp',
            'max_used_blob_size (%d) exceeds max_uncompressed_blob_size (%d) that every reader enforces' % (max_used, max_blob))
    R.check(0 < max_ent, 'blob-size-constants', NS + 'max_entities_per_block', 'pbf_output_format.hpp', 'max_entities_per_block must be positive')
    # readers: a comparison against max_uncompressed_blob_size that leads to a throw may only reject sizes > the constant
    nread = 0
    for fn in fb.functions:
        if not fn.has_cfg or '/pbf_output_format.hpp' in fn.file:
            continue
        for n in fn.all_nodes():
            if n.get('k') != 'binop' or n['op'] not in _CMP:
                continue
            sides = {'lhs': fn.sn(n['lhs']), 'rhs': fn.sn(n['rhs'])}
            cside = [s for s, x in sides.items() if x is not None and x.get('k') == 'var' and x.get('q') == NS + 'max_uncompressed_blob_size']
            if not cside:
                continue
            # which outcome of the comparison throws?
            thr = _throwing_sense(fn, n['id'])
            if thr is None:
                continue
            nread += 1
            op = n['op'] if cside[0] == 'rhs' else {'<': '>', '>': '<', '<=': '>=', '>=': '<=', '==': '==', '!=': '!='}[n['op']]
            # X op MAX with X = size: does size == MAX (allowed by the writer) survive?
            rejected_at_max = _CMP[op](max_blob, max_blob) == thr
            rejected_below = _CMP[op](max_blob - 1, max_blob) == thr
            accepted_above = _CMP[op](max_blob + 1, max_blob) != thr
            R.check(not rejected_at_max and not rejected_below and not accepted_above, 'blob-size-constants', '%s#max_uncompressed_blob_size' % fn.q, fn.loc(n['id']),
                    '%s: test `%s` %s; the writer may produce blobs of up to max_uncompressed_blob_size bytes and nothing larger'
                    % (fn.q, fn.expr(n['id']), 'rejects a blob of exactly the maximum size' if rejected_at_max else
                       'rejects blobs below the limit' if rejected_below else 'accepts blobs above the limit'))
    if nread == 0:
        R.broken('no reader-side test against max_uncompressed_blob_size found')


def _is_throw(fn, x):
    """Element x is a throw expression or a call of a function that never returns normally (a `[[noreturn]]` throw helper: every
    path through its body ends in a throw)."""
    n = fn.nodes.get(x) if not isinstance(x, tuple) else None
    if n is None:
        return False
    if n.get('k') == 'throw':
        return True
    if n.get('k') == 'call' and n.get('u'):
        cache = fn.fb.__dict__.setdefault('_c01_noreturn', {})
        u = n['u']
        if u not in cache:
            cache[u] = False   # recursion guard
            for g in fn.fb.by_usr.get(u, []):
                if g.has_cfg:
                    cache[u] = path_search(g, g.entry, lambda e: isinstance(e, tuple) and e[0] == 'exit',
                                           lambda e, g=g: g.nodes[e].get('k') == 'throw', from_block_start=True) is None \
                        and any(m.get('k') == 'throw' for m in g.all_nodes())
                    break
        return cache[u]
    return False


def _throwing_sense(fn, cmp_id):
    """True/False if the comparison evaluating to that value necessarily leads to a throw, else None.
    Looks at the statement condition E the comparison is part of: E == cmp, or cmp is a disjunct of E and E true throws,
    or cmp is a conjunct of E and E false throws."""
    def exit_t(x):
        return isinstance(x, tuple) and x[0] == 'exit'

    def throws(bid):
        if bid is None:
            return False
        return path_search(fn, bid, exit_t, lambda x: _is_throw(fn, x), from_block_start=True) is None

    def member(nid, op):
        n = fn.sn(nid)
        if n is None:
            return False
        if n['id'] == cmp_id:
            return True
        if n.get('k') == 'binop' and n['op'] == op:
            return member(n['lhs'], op) or member(n['rhs'], op)
        return False
    for b in fn.blocks.values():
        if 'cond' not in b or len(b['succs']) != 2 or b.get('termcls') in ('BinaryOperator', 'SwitchStmt'):
            continue
        if cmp_id not in fn.subtree(b['cond']):
            continue
        t, f = b['succs']
        if fn.strip(b['cond']) == cmp_id:
            if throws(t) and not throws(f):
                return True
            if throws(f) and not throws(t):
                return False
            return None
        if member(b['cond'], '||') and throws(t) and not throws(f):
            return True
        if member(b['cond'], '&&') and throws(f) and not throws(t):
            return False
    return None


def block_switch_rules(fb, R):
    PB = NS + 'PrimitiveBlock'
    OF = NS + 'PBFOutputFormat'
    SW = OF + '::switch_primitive_block_type'
    ST = OF + '::store_primitive_block'
    nuse = 0
    for fn in fb.functions:
        if fn.cls != OF or not fn.has_cfg:
            continue
        sw = [n for n in fn.all_nodes() if n.get('k') == 'call' and n.get('q') == SW]
        for n in fn.all_nodes():
            if n.get('k') == 'call' and n.get('q') in (PB + '::group', PB + '::add_dense_node'):
                nuse += 1
                doms = [s for s in sw if fn.elem_dominates(s['id'], n['id'])]
                R.check(bool(doms), 'block-switch-before-use', '%s#%s' % (fn.q, n['q'].rsplit('::', 1)[-1]), fn.loc(n['id']),
                        '%s adds an entity to the current block without first calling switch_primitive_block_type (limits / group type unchecked)' % fn.q)
                # the requested type is the group the entity is then written as: nested builder tag == switch argument
    if nuse == 0:
        R.broken('no use of PrimitiveBlock::group / add_dense_node found in PBFOutputFormat')
    for fn in fb.fns(SW):
        assigns = [n for n in fn.all_nodes() if n.get('k') == 'call' and n.get('op') == '=' and n.get('recv') is not None
                   and (fn.root_var(n['recv']) or (None,))[0] == 'field' and 'PrimitiveBlock' in (fn.sn(n['recv']) or {}).get('t', '')]
        stores = [n for n in fn.all_nodes() if n.get('k') == 'call' and n.get('q') == ST]
        ids = {n['id'] for n in assigns}

        def edge_ok(b, idx, s, fn=fn):
            blk = fn.blocks[b]
            if 'cond' not in blk or len(blk['succs']) != 2 or blk.get('termcls') == 'BinaryOperator':
                return True
            # the only way around a new block: an edge on which can_add(...) is known to have answered true
            from ..c01_util import _expand
            facts = []
            _expand(fn, blk['cond'], idx == 0, b, facts)
            for (c, sense, _d) in facts:
                n = codec.through_locals(fn, c)
                if n is not None and n.get('k') == 'call' and n.get('q') == PB + '::can_add' and sense:
                    return False
            return True
        w = path_search(fn, fn.entry, lambda x: isinstance(x, tuple) and x[0] == 'exit', lambda x: x in ids, edge_ok, from_block_start=True)
        R.check(bool(assigns) and w is None, 'block-switch-before-use', fn.q + '#new-block', fn.site,
                'switch_primitive_block_type can return without starting a new block although there is none or can_add() refused: %s' % describe_path(fn, w))
        ok = bool(stores) and all(any(fn.elem_dominates(s['id'], a['id']) for s in stores) for a in assigns)
        R.check(ok, 'block-switch-before-use', fn.q + '#store-first', fn.site,
                'the current block must be handed to store_primitive_block() before m_primitive_block is replaced (its entities are lost otherwise)')
    if not fb.fns(SW):
        R.broken('%s not found' % SW)
    for fn in fb.fns(OF + '::write_end'):
        stores = {n['id'] for n in fn.all_nodes() if n.get('k') == 'call' and n.get('q') == ST}
        w = path_search(fn, fn.entry, lambda x: isinstance(x, tuple) and x[0] == 'exit', lambda x: x in stores, from_block_start=True)
        R.check(bool(stores) and w is None, 'block-switch-before-use', fn.q + '#last-block', fn.site, 'write_end must store the last (partially filled) block')
    if not fb.fns(OF + '::write_end'):
        R.broken('%s::write_end not found' % OF)


def _shift_of(fn, nid, want_index=False):
    """(source key, shift) for `(X >> K) & 0xff`, `X & 0xff`, `cast(X[i]) << K`, `cast(X[i])`; None otherwise.
    source key = ('var', decl) for the writer form, ('idx', decl, i) for the reader form."""
    n = codec.through_locals(fn, nid)
    if n is None:
        return None
    if n.get('k') == 'binop' and n['op'] == '&' and fn.const_value(n['rhs']) == 0xff:
        plain = fn.sn(n['lhs'])
        if plain is not None and plain.get('k') == 'var':
            return (('var', plain['d']), 0)
        inner = codec.through_locals(fn, n['lhs'])
        if inner is not None and inner.get('k') == 'binop' and inner['op'] == '>>':
            v = fn.sn(inner['lhs'])
            k = fn.const_value(inner['rhs'])
            if v is not None and v.get('k') == 'var' and k is not None:
                return (('var', v['d']), k)
        if inner is not None and inner.get('k') == 'var':
            return (('var', inner['d']), 0)
        return None
    shift = 0
    if n.get('k') == 'binop' and n['op'] == '<<':
        shift = fn.const_value(n['rhs'])
        n = codec.through_locals(fn, n['lhs'])
        if shift is None or n is None:
            return None
    if n.get('k') == 'index':
        b = fn.sn(n['base'])
        i = fn.const_value(n['idx'])
        if b is not None and b.get('k') == 'var' and i is not None:
            return (('idx', b['d'], i), shift)
    return None


def blob_framing_rules(fb, R):
    """The 4-byte BlobHeader length: the writer appends byte i = (size >> s_i) & 0xff, the reader rebuilds size from d[i] << s_i;
    both must use the network byte order of the format (s = 24, 16, 8, 0)."""
    want = {(0, 24), (1, 16), (2, 8), (3, 0)}
    wpairs = None
    wsite = None
    for fn in fb.functions:
        if not fn.has_cfg or fn.cls != NS + 'SerializeBlob':
            continue
        per_target = {}
        for c in fn.all_nodes():
            if c.get('k') == 'call' and c.get('rcls') == 'std::basic_string' and c.get('q', '').rsplit('::', 1)[-1] in ('operator+=', 'push_back') and c.get('args'):
                sh = _shift_of(fn, c['args'][0])
                r = fn.root_var(c['recv']) if c.get('recv') is not None else None
                if sh is not None and sh[0][0] == 'var' and r is not None:
                    per_target.setdefault((r, sh[0]), []).append((c['id'], sh[1]))
        for (_k, lst) in per_target.items():
            if len(lst) < 2:
                continue
            # order of appending = dominance order
            ordered = sorted(lst, key=lambda x: sum(1 for y in lst if fn.elem_dominates(y[0], x[0])))
            total = all(fn.elem_dominates(ordered[i][0], ordered[i + 1][0]) for i in range(len(ordered) - 1))
            if not total:
                R.broken('%s: the bytes of the BlobHeader length are not appended on one straight path' % fn.q)
                return
            wpairs = {(i, s) for i, (_c, s) in enumerate(ordered)}
            wsite = fn.loc(ordered[0][0])
    rpairs = None
    rsite = None
    for fn in fb.functions:
        if not fn.has_cfg or '/pbf_input_format.hpp' not in fn.file and fn.cls != NS + 'PBFParser':
            continue
        for n in fn.all_nodes():
            if n.get('k') != 'return' or 'sub' not in n:
                continue
            terms = []
            stack = [n['sub']]
            ok = True
            while stack:
                x = codec.through_locals(fn, stack.pop())
                if x is not None and x.get('k') == 'binop' and x['op'] in ('|', '+'):
                    stack += [x['lhs'], x['rhs']]
                    continue
                sh = _shift_of(fn, x['id']) if x is not None else None
                if sh is None or sh[0][0] != 'idx':
                    ok = False
                    break
                terms.append(sh)
            if ok and len(terms) >= 2 and len({t[0][1] for t in terms}) == 1:
                rpairs = {(t[0][2], t[1]) for t in terms}
                rsite = fn.loc(n['id'])
    if wpairs is None:
        R.broken('writer side of the 4-byte BlobHeader length not found in SerializeBlob')
        return
    if rpairs is None:
        R.broken('reader side of the 4-byte BlobHeader length (d[i] << s terms) not found in PBFParser')
        return
    R.check(wpairs == want, 'blob-header-length-byte-order', NS + 'SerializeBlob::operator()#length-bytes', wsite,
            'the writer emits the BlobHeader length as (byte index, shift) %s, the format demands big-endian %s' % (sorted(wpairs), sorted(want)))
    R.check(rpairs == wpairs, 'blob-header-length-byte-order', NS + 'PBFParser#length-bytes', rsite,
            'the reader rebuilds the BlobHeader length from (byte index, shift) %s but the writer emits %s' % (sorted(rpairs), sorted(wpairs)))


def _negated(fn, cond, target):
    """Is call `target` under an odd number of `!` inside cond (disjunction/conjunction operands allowed)?  None if not found plainly."""
    def walk(nid, neg):
        n = fn.sn(nid)
        if n is None:
            return None
        if n['id'] == target:
            return neg
        if n.get('k') == 'unop' and n['op'] == '!':
            return walk(n['sub'], not neg)
        if n.get('k') == 'binop' and n['op'] in ('||', '&&'):
            a = walk(n['lhs'], neg)
            return a if a is not None else walk(n['rhs'], neg)
        return None
    return walk(cond, False)


# ================================================================================================ clauses 3, 5, 6

# Frozen convention tables -------------------------------------------------------------------------------------------
# XML attributes the writer derives from another attribute; the reader need not dispatch on them
XML_DERIVED = {('changeset', 'open'): 'derived from closed_at (open="false" <=> closed_at present)'}
# which attribute an argument of a multi-argument builder call carries: (callee, argument index) -> attribute
ADD_ARGS = {('add_node_ref', 0): 'ref', ('add_node_ref', 1): 'location',
            ('add_member', 0): 'type', ('add_member', 1): 'ref', ('add_member', 2): 'role', ('add_member', 3): 'role',
            ('add_tag/2', 0): 'key', ('add_tag/2', 1): 'value',
            ('add_tag/4', 0): 'key', ('add_tag/4', 1): 'key', ('add_tag/4', 2): 'value', ('add_tag/4', 3): 'value',
            ('set_user', 0): 'user', ('set_user', 1): 'user',
            ('add_comment', 0): 'date', ('add_comment', 1): 'uid', ('add_comment', 2): 'user'}
AXIS_OF_ACCESSOR = {'x': 'lon', 'y': 'lat', 'lon': 'lon', 'lat': 'lat'}
CORNERS = {'bottom_left', 'top_right'}
CONTAINERS = {'location', 'bounds'}
SETTER_SUFFIXES = ('_from_signed', '_partial')


def _axis_of_wire_name(name):
    """lon / lat / None from the wire name of a coordinate field (XML attribute, OPL letter, PBF field)."""
    if name in ('x', 'X', 'left', 'right'):
        return 'lon'
    if name in ('y', 'Y', 'top', 'bottom'):
        return 'lat'
    low = name.lower()
    if len(name) > 1 and low.endswith('lon'):
        return 'lon'
    if len(name) > 1 and low.endswith('lat'):
        return 'lat'
    return None


def _corner_of_wire_name(name):
    if name in ('left', 'bottom', 'x', 'y') or name.lower().startswith('min'):
        return 'bottom_left'
    if name in ('right', 'top', 'X', 'Y') or name.lower().startswith('max'):
        return 'top_right'
    return None


def _norm_getters(getters):
    return {AXIS_OF_ACCESSOR.get(g, g) for g in getters}


def _setter_attrs(setters):
    """(attributes the value is stored as, axes it is routed to)"""
    attrs, axes = set(), set()
    for s in setters:
        if s.startswith('Location#'):
            axes.add('lon' if s.endswith('#0') else 'lat')
            continue
        if '#' in s:
            nm, idx = s.split('#')
            i = int(idx)
            base = nm.split('/')[0]
            a = ADD_ARGS.get((nm, i), ADD_ARGS.get((base, i)))
            if a is not None:
                attrs.add(a)
            continue
        a = None
        if s.startswith('set_'):
            a = s[len('set_'):]
        elif s.startswith('convert_pbf_'):
            a = s[len('convert_pbf_'):]
        if a is None:
            continue
        for suf in SETTER_SUFFIXES:
            if a.endswith(suf):
                a = a[:-len(suf)]
        a = AXIS_OF_ACCESSOR.get(a, a)
        attrs.add(a)
        if a in ('lon', 'lat'):
            axes.add(a)
    return attrs, axes


def pair_check(R, key, site, wire, getters, setters, rsite=None):
    """Rules wire-name-accessor-pairing and axis-corner-agreement for one wire name seen on both sides."""
    G = _norm_getters(getters)
    sattr, saxes = _setter_attrs(setters)
    sattr -= CONTAINERS      # set_location / add_node_ref(.., location): the container, not the attribute (writer may hold it in a local)
    if G and sattr:
        missing = sorted(a for a in sattr if a not in G)
        R.check(not missing, 'wire-name-accessor-pairing', key, site,
                '%s is written from %s but the reader stores it as %s (%s)' % (wire, sorted(getters), sorted(setters), rsite or ''),
                detail={'getters': sorted(getters), 'setters': sorted(setters)})
    ax = _axis_of_wire_name(wire.rsplit('@', 1)[-1])
    cn = _corner_of_wire_name(wire.rsplit('@', 1)[-1])
    gaxes = G & {'lon', 'lat'}
    gcorner = set(getters) & CORNERS
    scorner = set(setters) & CORNERS
    msgs = []
    if ax is not None:
        if gaxes and gaxes != {ax}:
            msgs.append('the writer feeds it from the %s accessor(s) %s' % ('/'.join(sorted(gaxes)), sorted(getters)))
        if saxes and saxes != {ax}:
            msgs.append('the reader routes it to %s (%s)' % ('/'.join(sorted(saxes)), sorted(setters)))
    if gaxes and saxes and gaxes != saxes and not msgs:
        msgs.append('writer axis %s, reader axis %s' % (sorted(gaxes), sorted(saxes)))
    if gcorner and scorner and gcorner != scorner:
        msgs.append('the writer takes it from %s, the reader stores it in %s' % (sorted(gcorner), sorted(scorner)))
    if cn is not None:
        if gcorner and gcorner != {cn}:
            msgs.append('the writer takes a %s coordinate from corner %s' % (cn, sorted(gcorner)))
        if scorner and scorner != {cn}:
            msgs.append('the reader stores a %s coordinate in corner %s' % (cn, sorted(scorner)))
    if ax is not None or (gcorner and scorner):
        if gaxes or saxes or gcorner or scorner:
            R.check(not msgs, 'axis-corner-agreement', key, site, '%s (%s axis%s): %s' % (wire, ax, ', corner ' + cn if cn else '', '; '.join(msgs)),
                    detail={'getters': sorted(getters), 'setters': sorted(setters)})


METADATA_ATTRS = ('version', 'timestamp', 'changeset', 'uid', 'user')


def _text_gate_check(R, fmt, w):
    """A field of a text writer that is written under a metadata option must be written under the option named like the
    accessor that feeds it (XML `uid="..."` from object.uid() under add_metadata.uid())."""
    md = {a[1] for a in gate_atoms(w.fn, w.node) if a[0] == 'md' and a[1] not in ('any', 'all', 'none')}
    neg = {a[1][1] for a in gate_atoms(w.fn, w.node) if a[0] == 'not' and a[1][0] == 'md'}
    fed = set(w.getters) & set(METADATA_ATTRS)
    if not md and not neg:
        return
    if len(fed) != 1:
        return
    R.check(md == fed and not neg, 'text-field-gated-by-own-option', '%s:%s@%s' % (fmt, w.fn.q, w.name), w.site,
            "%s field '%s' is fed from %s() but written under add_metadata.%s" % (fmt.upper(), w.name, sorted(fed)[0],
                                                                                   '/'.join(sorted(md)) + '()' if md else 'not ' + '/'.join(sorted(neg))),
            detail={'gate': _fmt_atoms(gate_atoms(w.fn, w.node))})


OBJECT_CLASSES = ('osmium::OSMObject', 'osmium::OSMEntity', 'osmium::Node', 'osmium::Way', 'osmium::Relation')


def _own_attribute_guard_check(R, fmt, w):
    """The reader restores every attribute of an object independently, so the writer may make the presence of a field depend only on
    its own metadata option and on the attribute itself (`object.uid()` for uid, non-empty `object.user()` for user): a guard that
    reads another attribute of the object drops the field for objects the reader would restore it for."""
    from ..c01_util import entity_accessors
    others = {}
    n_obj = 0
    for (c, s_, _b) in edge_guards(w.fn, w.node):
        for x in w.fn.subtree(c):
            n = w.fn.nodes[x]
            if n.get('k') == 'call' and n.get('rcls') in OBJECT_CLASSES and 'q' in n:
                nm = n['q'].rsplit('::', 1)[-1]
                if nm in ('tags', 'nodes', 'members', 'type'):
                    continue
                n_obj += 1
                if nm not in w.getters:
                    others[nm] = w.fn.expr(c)
    if n_obj == 0 or not (set(w.getters) - {'location', 'bounds'} or w.getters):
        return
    R.check(not others, 'write-guard-reads-own-attribute', '%s:%s@%s' % (fmt, w.fn.q, w.name), w.site,
            "%s field '%s' (fed from %s) is written only if `%s`, which reads %s: an object for which that differs loses a field the reader "
            'restores independently' % (fmt.upper(), w.name, sorted(w.getters), ' / '.join(sorted(set(others.values()))),
                                         ', '.join(o + '()' for o in sorted(others))))


def _strict_attribute_check(fb, R, U, key, w, rns):
    """An attribute whose value the reader hands unconditionally to a parser that throws on the empty string must not be written
    with a formatter that can yield the empty string, unless the write is guarded by the validity of that very value."""
    strict = None
    for rn in rns:
        strict = strict or U.strict_value_parsers(fb, rn)
    if strict is None:
        return
    for (f, vnode) in w.value_nodes:
        weak = []
        for x in f.subtree(vnode):
            n = f.nodes[x]
            if n.get('k') == 'call' and n.get('u') and (n.get('t') or '').replace('const ', '').startswith('std::basic_string'):
                for g in fb.by_usr.get(n['u'], []):
                    if g.has_cfg and U.may_return_empty_string(fb, g):
                        weak.append(n)
                    break
        if not weak:
            R.ok('xml-strict-attribute-never-empty', key, w.site, detail='formatter never yields an empty string; reader parses strictly at %s' % strict)
            continue
        # guarded by the validity of the same value?
        guarded = False
        for (c, s_, _b) in edge_guards(f, vnode):
            acc = U.entity_accessors(f, c)
            if s_ and acc and acc <= set(w.getters) | {'location', 'bounds'} and set(w.getters) & acc:
                guarded = True
        R.check(guarded, 'xml-strict-attribute-never-empty', key, w.site,
                '%s="..." is written with %s(), which yields the empty string for an unset value, without testing the value first; the reader '
                'hands the attribute unconditionally to a throwing parser (%s): the file the Writer produced is rejected'
                % (w.name, weak[0]['q'].rsplit('::', 1)[-1], strict))


def xml_rules(fb, R):
    from .. import c01_util as U
    fields, problems = U.xml_writer_fields(fb, (NS + 'XMLOutputBlock', NS + 'XMLOutputFormat'))
    for p in problems:
        R.broken(p)
    els, attrs, rproblems = U.xml_reader_vocab(fb, NS + 'XMLParser')
    for p in rproblems:
        R.broken(p)
    if not fields:
        R.broken('XML writer: no element / attribute emission found (XMLOutputBlock not instantiated?)')
        return
    if not els:
        R.broken('XML reader: no element dispatch found in XMLParser')
        return
    for w in fields:
        if w.kind == 'element':
            R.check(w.name in els, 'xml-name-dispatched', 'xml:<%s>' % w.name, w.site,
                    'the XML writer (%s) opens element <%s> which XMLParser does not dispatch on' % (w.fn.q, w.name))
    for w in fields:
        if w.kind != 'attr':
            continue
        if not w.const:
            _text_gate_check(R, 'xml', w)
            _own_attribute_guard_check(R, 'xml', w)
        for ctx_el in sorted(w.contexts):
            key = 'xml:%s@%s' % (ctx_el, w.name)
            if (ctx_el, w.name) in XML_DERIVED:
                R.ok('xml-name-dispatched', key, w.site, detail='derived attribute: ' + XML_DERIVED[(ctx_el, w.name)])
                continue
            rns = attrs.get(ctx_el, {}).get(w.name, [])
            R.check(bool(rns), 'xml-name-dispatched', key, w.site,
                    'the XML writer (%s) emits attribute %s="..." inside <%s>, the reader accepts only %s there'
                    % (w.fn.q, w.name, ctx_el, sorted(attrs.get(ctx_el, {}))))
            if rns and w.const and getattr(w, 'value', None) is not None:
                acc = set()
                for rn in rns:
                    acc |= U.accepted_values(fb, rn)
                if acc:
                    R.check(w.value in acc, 'xml-constant-value-accepted', '%s=%s' % (key, w.value), w.site,
                            'the XML writer emits %s="%s" inside <%s>; the reader only knows the values %s for this attribute'
                            % (w.name, w.value, ctx_el, sorted(acc)))
            if rns and not w.const and getattr(w, 'value_nodes', None):
                _strict_attribute_check(fb, R, U, key, w, rns)
            if not rns or w.const:
                continue
            setters = set()
            for rn in rns:
                setters |= rn.setters
            pair_check(R, key, w.site, 'xml:%s@%s' % (ctx_el, w.name), w.getters, setters, rns[0].site)


def opl_rules(fb, R):
    from .. import c01_util as U
    wf = U.opl_writer_fields(fb, NS + 'OPLOutputBlock')
    rv = U.opl_reader_vocab(fb)
    for kind in ('node', 'way', 'relation', 'changeset'):
        fields = wf.get(kind) or []
        rd = rv.get(kind)
        if not fields:
            R.broken('OPL writer: nothing emitted by OPLOutputBlock::%s found' % kind)
            continue
        if rd is None or not rd['cases']:
            R.broken('OPL reader: opl_parse_%s / its field switch not found' % kind)
            continue
        accepted = set(rd['cases']) | rd['nested'] | rd['type_letters']
        for w in fields:
            key = 'opl:%s@%s' % (kind, w.name)
            R.check(w.name in accepted, 'opl-letter-dispatched', key, w.site,
                    "the OPL writer (%s) emits field letter '%s' for a %s; opl_parse_%s accepts %s (nested sections: %s)"
                    % (w.fn.q, w.name, kind, kind, ''.join(sorted(rd['cases'])), ''.join(sorted(c for c in rd['nested'] if c.isalpha()))))
            if not w.const:
                _text_gate_check(R, 'opl', w)
                _own_attribute_guard_check(R, 'opl', w)
            c = rd['cases'].get(w.name)
            if c is None or w.const or not w.getters:
                continue
            if w.fn.name not in (kind, 'write_meta', 'write_location') and not getattr(w, 'paired', False):
                continue
            # letters emitted inside a nested section (way nodes: n x y) share characters with top-level fields of other kinds only
            if kind == 'way' and w.name in rd['nested'] and w.name not in rd['cases']:
                continue
            pair_check(R, key, w.site, 'opl:%s@%s' % (kind, w.name), w.getters, c.setters, c.site)


def pbf_pairing_rules(fb, R, em, dc):
    from .. import c01_util as U
    sinks = {}
    for c in dc:
        s = set()
        if c.scalar is not None:
            s |= U.value_sinks(fb, getattr(c, 'scalar_fn', c.fn), c.scalar_node, ret_to=getattr(c, 'scalar_stack', ()))
        for x in c.packed:
            s |= U.value_sinks(fb, x.fn, x.node)
        sinks.setdefault((c.msg, c.num), []).append((c, s))
    done = set()
    for e in em:
        spec = codec.pbf_spec(fb, e.msg, e.num)
        if spec is None or spec.field is None:
            continue
        g = set()
        for (f, v) in e.values:
            g |= U.entity_accessors(f, v)
        for (c, s) in sinks.get((e.msg, e.num), []):
            key = 'pbf:%s@%s#%s' % (short(e.msg).split('::')[-1], spec.field, c.fn.name)
            if (key, e.fn.q) in done:
                continue
            done.add((key, e.fn.q))
            pair_check(R, key, e.site, 'pbf:%s@%s' % (short(e.msg).split('::')[-1], spec.field), g, s, c.site)


# ================================================================================================ delta coder widths

INT_WIDTH = {'char': (8, True), 'signed char': (8, True), 'unsigned char': (8, False), 'short': (16, True), 'unsigned short': (16, False),
             'int': (32, True), 'unsigned int': (32, False), 'long': (64, True), 'unsigned long': (64, False),
             'long long': (64, True), 'unsigned long long': (64, False), 'bool': (1, False)}
PROTO_WIDTH = {'sint64': 64, 'int64': 64, 'uint64': 64, 'sint32': 32, 'int32': 32, 'uint32': 32}


def _int_type(t):
    if t is None:
        return None
    t = t.replace('const ', '').strip().rstrip('&').strip()
    return INT_WIDTH.get(t)


def _coder_types(fb, fn, call):
    """(value type, delta type) of the DeltaEncode / DeltaDecode object an update() call is made on, from the instantiated
    update() signature (Encode: TDelta update(TValue); Decode: TValue update(TDelta))."""
    enc = call.get('q') == codec.DELTA_ENC
    for g in fb.by_usr.get(call.get('u'), []):
        if g.params:
            a, r = g.params[0]['tC'], g.retC
            return (a, r) if enc else (r, a)
    # body not in the fact base: template arguments of the class spelling (TDelta defaults to int64_t)
    ta = codec.template_args(call.get('rclsT'))
    if ta:
        return (ta[0], ta[1] if len(ta) > 1 else 'long')
    return (None, None)


def delta_width_rules(fb, R, em, dc):
    """Every delta coded field: the delta type of the encoder, and the delta and accumulator types of the decoder, are signed and at
    least as wide as the proto field type (sint64 -> 64 bit), so that a difference the proto type can carry is neither computed nor
    summed up in fewer bits on one side."""
    for e in em:
        spec = codec.pbf_spec(fb, e.msg, e.num)
        if spec is None or spec.ptype not in PROTO_WIDTH:
            continue
        need = PROTO_WIDTH[spec.ptype]
        for (f, v) in e.values:
            if not codec.is_delta_encoded(f, v):
                continue
            call = codec.through_locals(f, v)
            vt, dt = _coder_types(fb, f, call)
            d = _int_type(dt)
            if d is None:
                R.broken('cannot determine the delta type of the DeltaEncode feeding %s at %s (%s)' % (spec.key, f.loc(v), dt))
                continue
            R.check(d[1] and d[0] >= need, 'pbf-delta-width', '%s#writer' % spec.key, f.loc(v),
                    '%s is a %s field but its DeltaEncode<%s, %s> computes the difference in a %s%d-bit type: differences of %d bits are truncated '
                    'while the decoder sums them up in 64 bits' % (spec.key, spec.ptype, vt, dt, '' if d[1] else 'unsigned ', d[0], need),
                    detail={'value_type': vt, 'delta_type': dt})
    for c in dc:
        spec = codec.pbf_spec(fb, c.msg, c.num)
        if spec is None or spec.ptype not in PROTO_WIDTH:
            continue
        need = PROTO_WIDTH[spec.ptype]
        nodes = [(x.fn, x.node) for x in c.packed if x.delta]
        sf = getattr(c, 'scalar_fn', c.fn)
        if c.scalar is not None and codec.reaches_call(sf, c.scalar_node, codec.DELTA_DEC) is not None:
            nodes.append((sf, c.scalar_node))
        for (f, nid) in nodes:
            call = codec.reaches_call(f, nid, codec.DELTA_DEC)
            vt, dt = _coder_types(fb, f, call)
            d, v = _int_type(dt), _int_type(vt)
            if d is None or v is None:
                R.broken('cannot determine the types of the DeltaDecode consuming %s at %s (%s, %s)' % (spec.key, f.loc(nid), vt, dt))
                continue
            R.check(d[1] and d[0] >= need and v[0] >= need, 'pbf-delta-width', '%s#%s' % (spec.key, c.fn.q), f.loc(nid),
                    '%s is a %s field but %s sums the differences up in DeltaDecode<%s, %s> (%d-bit accumulator, %s%d-bit delta)'
                    % (spec.key, spec.ptype, c.fn.q, vt, dt, v[0], '' if d[1] else 'unsigned ', d[0]),
                    detail={'value_type': vt, 'delta_type': dt})


# ================================================================================================ Writer: order of pending items

def writer_order_rules(fb, R):
    """osmium::io::Writer keeps items handed over one by one in an internal buffer.  Order is preserved only if that pending
    buffer reaches the output format before anything that was handed over later."""
    W = 'osmium::io::Writer'
    WB = NS + 'OutputFormat::write_buffer'
    WE = NS + 'OutputFormat::write_end'
    rec = fb.record(W)
    if rec is None:
        R.broken('record %s not found' % W)
        return
    pend = [f for f in rec.fields if f['tC'] == 'osmium::memory::Buffer']
    if len(pend) != 1:
        R.broken('%s: expected exactly one osmium::memory::Buffer member (the pending buffer), found %d' % (W, len(pend)))
        return
    PQ = pend[0]['q']
    methods = [f for f in fb.functions if f.has_cfg and f.cls == W and not f.is_lambda]
    bodies = []
    for m in methods:
        bodies.append((m, m))
        for g in fb.lambdas_in(m):
            bodies.append((g, m))
    if not methods:
        R.broken('no body of %s found' % W)
        return

    def is_pending(f, nid):
        r = f.root_var(nid)
        return r is not None and r[0] == 'field' and r[1] == PQ

    def locals_of(f):
        return {v['d'] for n in f.all_nodes() if n.get('k') == 'decl' for v in n['vars']}

    # ---- classify the methods that talk to the output format
    flushers = set()      # usr of functions that hand the pending buffer to write_buffer
    forwarders = {}       # usr -> index of the Buffer parameter handed to write_buffer
    for m in methods:
        pidx = {p['d']: i for i, p in enumerate(m.params)}
        for c in m.all_nodes():
            if c.get('k') != 'call' or c.get('q') != WB or not c.get('args'):
                continue
            r = m.root_var(c['args'][0])
            if r is None:
                continue
            if r[0] == 'field' and r[1] == PQ:
                flushers.add(m.usr)
            elif r[0] == 'var' and r[1] in pidx:
                forwarders[m.usr] = pidx[r[1]]
            elif r[0] == 'var':
                # `swap(m_buffer, local); write_buffer(std::move(local))`
                for s in m.all_nodes():
                    if s.get('k') == 'call' and s.get('q', s.get('name', '')).rsplit('::', 1)[-1] == 'swap' and len(s.get('args', [])) == 2:
                        roots = [m.root_var(a) for a in s['args']]
                        if any(x is not None and x[0] == 'field' and x[1] == PQ for x in roots) and any(x is not None and x[0] == 'var' and x[1] == r[1] for x in roots):
                            if m.elem_dominates(s['id'], c['id']):
                                flushers.add(m.usr)
    if not flushers:
        R.broken('%s: no function hands the pending buffer %s to OutputFormat::write_buffer (do_flush shape not recognised)' % (W, pend[0]['name']))
        return

    # a method that calls a flusher on every path is a flusher itself (extracted helper `flush_pending()`); a method that passes its
    # Buffer parameter on to a forwarder is a forwarder itself (`hand_over(Buffer&&)` around do_write)
    changed = True
    while changed:
        changed = False
        for m in methods:
            if m.usr in forwarders or m.usr in flushers:
                continue
            pidx = {p['d']: i for i, p in enumerate(m.params)}
            for c in m.all_nodes():
                if c.get('k') == 'call' and c.get('u') in forwarders and len(c.get('args', [])) > forwarders[c['u']]:
                    r = m.root_var(c['args'][forwarders[c['u']]])
                    if r is not None and r[0] == 'var' and r[1] in pidx:
                        forwarders[m.usr] = pidx[r[1]]
                        changed = True
        for m in methods:
            if m.usr in flushers or m.usr in forwarders:
                continue
            ids = {c['id'] for c in m.all_nodes() if c.get('k') == 'call' and c.get('u') in flushers and c['id'] in m.positions()}
            if ids and path_search(m, m.entry, lambda x: isinstance(x, tuple) and x[0] == 'exit', lambda x: x in ids, from_block_start=True) is None:
                flushers.add(m.usr)
                changed = True

    def flush_sites(f):
        out = []
        for c in f.all_nodes():
            if c.get('k') != 'call' or c['id'] not in f.positions():
                continue
            if c.get('u') in flushers:
                out.append(c['id'])
            elif c.get('q') == WB and c.get('args') and is_pending(f, c['args'][0]):
                out.append(c['id'])
            elif c.get('u') in forwarders and len(c.get('args', [])) > forwarders[c['u']] and is_pending(f, c['args'][forwarders[c['u']]]):
                out.append(c['id'])
        return out

    def dominated_by_flush(f, nid):
        sites = flush_sites(f)
        if any(f.elem_dominates(s, nid) for s in sites):
            return True
        # inside a catch handler (not reachable from the entry): no path from the handler's entry to nid that avoids a flush
        pos = f.positions()
        if nid in pos:
            for cb in f.catch_entry_blocks():
                if pos[nid][0] in f.reachable_blocks(cb):
                    ids = set(sites)
                    if path_search(f, cb, lambda x: x == nid, lambda x: x in ids, from_block_start=True) is None:
                        return True
        return False

    # ---- W1: a buffer supplied by the caller goes out only after the pending items
    for (f, m) in bodies:
        if f.usr in forwarders and f is m:
            continue   # the forwarder itself; the obligation is on its callers
        own = locals_of(f)
        for c in f.all_nodes():
            if c.get('k') != 'call' or c['id'] not in f.positions():
                continue
            arg = None
            if c.get('q') == WB and c.get('args'):
                arg = c['args'][0]
            elif c.get('u') in forwarders and len(c.get('args', [])) > forwarders[c['u']]:
                arg = c['args'][forwarders[c['u']]]
            if arg is None:
                continue
            r = f.root_var(arg)
            if r is None or r[0] != 'var' or r[1] in own:
                continue   # the pending buffer itself or a local (flusher shape)
            R.check(dominated_by_flush(f, c['id']), 'writer-flush-before-foreign-buffer', '%s#%s' % (m.q, r[2]), f.loc(c['id']),
                    '%s hands the caller\'s buffer `%s` to the output format without first flushing the items pending in %s: objects written '
                    'earlier with writer(item) come out after it' % (m.q, r[2], pend[0]['name']))

    # ---- W2: an item that did not fit is appended only after the full buffer went out: from the entry of a catch handler no
    #          push_back into the pending buffer is reachable without passing a flush
    for (f, m) in bodies:
        pushes = {c['id'] for c in f.all_nodes() if c.get('k') == 'call' and c.get('q') in ('osmium::memory::Buffer::push_back', 'osmium::memory::Buffer::add_item')
                  and c.get('recv') is not None and is_pending(f, c['recv']) and c['id'] in f.positions()}
        if not pushes or not f.catch_entry_blocks():
            continue
        sites = set(flush_sites(f))
        w = None
        for cb in f.catch_entry_blocks():
            w = w or path_search(f, cb, lambda x: x in pushes, lambda x: x in sites, from_block_start=True)
        reach = any(f.positions()[p][0] in f.reachable_blocks(cb) for p in pushes for cb in f.catch_entry_blocks())
        if reach:
            R.check(w is None, 'writer-full-buffer-flushed-before-retry', '%s#retry' % m.q, f.loc(sorted(pushes)[0]),
                    '%s appends the item again after buffer_is_full without flushing %s first: %s' % (m.q, pend[0]['name'], describe_path(f, w)))

    # ---- W2b: whatever is put into the pending buffer is committed before the function returns (push_back = add_item + commit)
    for (f, m) in bodies:
        adds = [c for c in f.all_nodes() if c.get('k') == 'call' and c.get('q') in ('osmium::memory::Buffer::push_back', 'osmium::memory::Buffer::add_item')
                and c.get('recv') is not None and is_pending(f, c['recv']) and c['id'] in f.positions()]
        if not adds:
            continue
        commits = {c['id'] for c in f.all_nodes() if c.get('k') == 'call' and c.get('q') in ('osmium::memory::Buffer::commit', 'osmium::memory::Buffer::push_back')
                   and c.get('recv') is not None and is_pending(f, c['recv'])}
        bad = None
        for c in adds:
            if c['q'].endswith('::push_back'):
                continue
            w = path_search(f, c['id'], lambda x: isinstance(x, tuple) and x[0] == 'exit', lambda x: x in commits)
            if w is not None:
                bad = (c, w)
        R.check(bad is None, 'writer-item-committed', '%s#item' % m.q, f.loc((bad[0] if bad else adds[0])['id']),
                '%s adds the item to %s with add_item() and can return without commit(): the item is dropped by the next flush / close (%s)'
                % (m.q, pend[0]['name'], describe_path(f, bad[1]) if bad else ''))

    # ---- W3: the pending items go out before the end-of-file marker
    n_end = 0
    for (f, m) in bodies:
        for c in f.all_nodes():
            if c.get('k') == 'call' and c.get('q') == WE and c['id'] in f.positions():
                n_end += 1
                R.check(dominated_by_flush(f, c['id']), 'writer-pending-flushed-before-end', '%s#write_end' % m.q, f.loc(c['id']),
                        '%s calls write_end() without first handing the pending buffer %s to the output format (the last items are lost)'
                        % (m.q, pend[0]['name']))
    if n_end == 0:
        R.broken('%s: no call to OutputFormat::write_end found' % W)

    # ---- W4: flush() flushes; ensure_cleanup runs the function it is given
    for m in methods:
        if m.q == W + '::flush':
            ok = False
            for f in [m] + fb.lambdas_in(m):
                ids = set(flush_sites(f))
                if ids and path_search(f, f.entry, lambda x: isinstance(x, tuple) and x[0] == 'exit', lambda x: x in ids, from_block_start=True) is None:
                    ok = True
            R.check(ok, 'writer-flush-entry-points', m.q, m.site, 'flush() must hand the pending buffer to the output format on every path')
        if m.q == W + '::ensure_cleanup' and m.params:
            d0 = m.params[0]['d']
            calls = {c['id'] for c in m.all_nodes() if c.get('k') == 'call' and c.get('recv') is not None
                     and (m.root_var(c['recv']) or (None, None))[:2] == ('var', d0)}
            calls |= {c['id'] for c in m.all_nodes() if c.get('k') == 'call' and c.get('callee') is not None
                      and (m.root_var(c['callee']) or (None, None))[:2] == ('var', d0)}
            w = path_search(m, m.entry, lambda x: isinstance(x, tuple) and x[0] == 'exit',
                            lambda x: x in calls or _is_throw(m, x), from_block_start=True)
            R.check(bool(calls) and w is None, 'writer-flush-entry-points', m.q, m.site,
                    'ensure_cleanup must invoke the function it is given on every non-throwing path: %s' % describe_path(m, w))


# ================================================================================================ compression layer

def _is_compression_none_test(fn, cond, sense):
    """Does branch outcome (cond, sense) establish file.compression() == file_compression::none?"""
    n = codec.through_locals(fn, cond)
    if n is None or n.get('k') != 'binop' or n['op'] not in ('==', '!='):
        return False
    sides = [codec.through_locals(fn, n['lhs']), codec.through_locals(fn, n['rhs'])]
    has_call = any(x is not None and x.get('k') == 'call' and x.get('q') == 'osmium::io::File::compression' for x in sides)
    has_none = any(x is not None and x.get('k') == 'var' and x.get('q') == 'osmium::io::file_compression::none' for x in sides)
    if not (has_call and has_none):
        return False
    return sense if n['op'] == '==' else (not sense)


def _passes_file_compression(fn, arg):
    n = codec.through_locals(fn, arg)
    return n is not None and n.get('k') == 'call' and n.get('q') == 'osmium::io::File::compression'


def _bodies_of_class(fb, cls):
    out = []
    for m in fb.functions:
        if m.has_cfg and m.cls == cls and not m.is_lambda:
            out.append((m, m))
            for g in fb.lambdas_in(m):
                out.append((g, m))
    return out


def compression_layer_rules(fb, R):
    """Writer and Reader must put the same compression layer around every format: both obtain it from the CompressionFactory for
    file.compression(); a hand-made (de)compressor is only acceptable where file.compression() is known to be `none`; the parser
    reads the file descriptor itself only when the decompressor is not a real one."""
    F = 'osmium::io::CompressionFactory::'
    for (cls, base, factory, rule) in (('osmium::io::Reader', 'osmium::io::Decompressor', F + 'create_decompressor', 'reader-decompressor-honours-compression'),
                                       ('osmium::io::Writer', 'osmium::io::Compressor', F + 'create_compressor', 'writer-compressor-honours-compression')):
        derived = {r.q for r in fb.derived_from(base)}
        bodies = _bodies_of_class(fb, cls)
        if not bodies:
            R.broken('no body of %s found' % cls)
            continue
        nfac = 0
        for (f, m) in bodies:
            for c in f.all_nodes():
                if c.get('k') == 'call' and c.get('q') == factory and c.get('args'):
                    nfac += 1
                    R.check(_passes_file_compression(f, c['args'][0]), rule, '%s#%s/%d' % (m.q, factory.rsplit('::', 1)[-1], len(c['args'])), f.loc(c['id']),
                            '%s asks the CompressionFactory for `%s` instead of file.compression(): the other side of the round trip uses the '
                            'compression of the file' % (m.q, f.expr(c['args'][0])))
                elif c.get('k') == 'construct' and c.get('rcls') in derived and not c.get('copymove'):
                    gs = edge_guards(f, c['id'])
                    ok = any(_is_compression_none_test(f, g, s) for (g, s, _b) in gs)
                    R.check(ok, rule, '%s#%s' % (m.q, c['rcls']), f.loc(c['id']),
                            '%s creates a %s without consulting file.compression() (guards: %s): a file with a compression suffix is %s'
                            % (m.q, c['rcls'], ', '.join('%s%s' % ('' if s else '!', f.expr(g)) for (g, s, _b) in gs) or 'none',
                               'handed to the parser still compressed although the Writer compressed it' if cls.endswith('Reader')
                               else 'written uncompressed although the Reader will decompress it'))
        if nfac == 0:
            R.broken('%s never calls %s' % (cls, factory))

    # ---- the parser gets the file descriptor only when the decompressor does not read from it
    RD = 'osmium::io::Reader'
    rec = fb.record(RD)
    fdq = None
    if rec is not None:
        ints = [x for x in rec.fields if x['tC'] == 'int']
        # the descriptor member is the int handed to the decompressor factory function
        for (f, m) in _bodies_of_class(fb, RD):
            for c in f.all_nodes():
                if c.get('k') == 'call' and c.get('q', '').startswith(RD + '::') and c.get('args'):
                    for g in fb.by_usr.get(c.get('u'), []):
                        if g.has_cfg and (any(x.get('k') == 'call' and x.get('q') == F + 'create_decompressor' for x in g.all_nodes())
                                          or (F + 'create_decompressor') in fb.callees_closure(g, depth=3)):
                            for a in c['args']:
                                r = f.root_var(a)
                                if r is not None and r[0] == 'field' and any(x['q'] == r[1] for x in ints):
                                    fdq = r[1]
    if fdq is None:
        R.broken('%s: cannot identify the file descriptor member (the int handed to the function that creates the decompressor)' % RD)
        return
    nth = 0
    for (f, m) in _bodies_of_class(fb, RD):
        for c in f.all_nodes():
            if c.get('k') != 'construct' or c.get('rcls') != 'osmium::thread::thread_handler' or not c.get('args'):
                continue
            # m_fd references that flow into the thread's arguments (directly or through a local)
            refs = []
            seen = set()
            work = list(c['args'])
            while work:
                a = work.pop()
                for x in f.subtree(a):
                    if x in seen:
                        continue
                    seen.add(x)
                    n = f.nodes[x]
                    if n.get('k') == 'member' and n.get('q') == fdq:
                        refs.append(x)
                    elif n.get('k') == 'var' and n.get('vk', 'local') == 'local':
                        d = n.get('d')
                        for y in f.all_nodes():
                            if y.get('k') == 'decl':
                                for v in y['vars']:
                                    if v['d'] == d and isinstance(v.get('init'), int):
                                        work.append(v['init'])
                            elif y.get('k') == 'assign' and (f.sn(y['lhs']) or {}).get('d') == d and (f.sn(y['lhs']) or {}).get('k') == 'var':
                                work.append(y['rhs'])
            if not refs:
                continue
            nth += 1
            bad = []
            for x in refs:
                if not _fd_protected(f, x):
                    bad.append(f.loc(x))
            R.check(not bad, 'reader-fd-for-parser-only-if-not-real', '%s#fd_for_parser' % m.q, f.loc(c['id']),
                    '%s hands the file descriptor to the parser thread also when the decompressor is a real one and reads from the same '
                    'descriptor (unprotected use at %s)' % (m.q, ', '.join(bad)))
    if nth == 0:
        R.broken('%s: no parser thread that receives the file descriptor found' % RD)


def _fd_protected(f, x):
    """Is the use of the descriptor at node x reached only when Decompressor::is_real() answered false?"""
    IS_REAL = 'osmium::io::Decompressor::is_real'

    def polarity(cond):
        """True if cond true means is_real, False if cond true means not real, None otherwise."""
        n = codec.through_locals(f, cond)
        neg = False
        while n is not None and n.get('k') == 'unop' and n['op'] == '!':
            neg = not neg
            n = codec.through_locals(f, n['sub'])
        if n is not None and n.get('k') == 'call' and n.get('q') == IS_REAL:
            return not neg
        return None
    pm = f.parent_map()
    y = x
    hops = 0
    while y in pm and hops < 30:
        p = f.nodes[pm[y]]
        hops += 1
        if p.get('k') == 'condop':
            pol = polarity(p['cond'])
            if pol is not None:
                if (y == p.get('else') and pol) or (y == p.get('then') and not pol):
                    return True
        y = p['id']
    for (g, s, _b) in edge_guards(f, x):
        pol = polarity(g)
        if pol is not None and (pol != s):
            return True
    return False


# ================================================================================================ string length bound

def _reject_polarity(fn, cmp_id):
    """True / False if comparison cmp_id evaluating to that truth value necessarily leads to a throw; None if it is not a reject
    guard.  Understands `if (cmp)`, `if (!cmp)`, cmp as a disjunct of a condition whose true edge throws / a conjunct of one whose
    false edge throws, and a local that only names the comparison."""
    def exit_t(x):
        return isinstance(x, tuple) and x[0] == 'exit'

    def throws(bid):
        if bid is None:
            return False
        return path_search(fn, bid, exit_t, lambda x: _is_throw(fn, x), from_block_start=True) is None

    def find(nid, want, depth=0):
        """polarities p such that: cond == want  implies  cmp == p   ... returns set of p for which cmp is *decisive* for `want`:
        cond true  <= cmp == p (disjunct)   when want is True;  cond false <= cmp == p (conjunct negated) when want is False."""
        n = codec.through_locals(fn, nid)
        if n is None or depth > 8:
            return set()
        if n['id'] == cmp_id:
            return {want}
        if n.get('k') == 'unop' and n.get('op') == '!':
            return find(n['sub'], not want, depth + 1)
        if n.get('k') == 'binop' and n.get('op') == '||' and want:
            return find(n['lhs'], True, depth + 1) | find(n['rhs'], True, depth + 1)
        if n.get('k') == 'binop' and n.get('op') == '&&' and not want:
            return find(n['lhs'], False, depth + 1) | find(n['rhs'], False, depth + 1)
        return set()
    out = set()
    for b in fn.blocks.values():
        if 'cond' not in b or len(b['succs']) != 2 or b.get('termcls') in ('BinaryOperator', 'SwitchStmt'):
            continue
        t, f = b['succs']
        if throws(t) and not throws(f):
            out |= find(b['cond'], True)
        elif throws(f) and not throws(t):
            out |= find(b['cond'], False)
    if len(out) == 1:
        return next(iter(out))
    return None


def _credit_callers(fb, fn, idx, depth=0, seen=None):
    """Call sites that supply parameter idx of fn, followed transitively while the argument is itself a parameter of the caller:
    [(key, site)] -- so that a guard keeps its instances when it is moved into (or out of) a validation helper."""
    seen = set() if seen is None else seen
    if (fn.usr, idx) in seen or depth > 3:
        return []
    seen.add((fn.usr, idx))
    out = []
    for g in fb.functions:
        if not g.has_cfg or g.usr == fn.usr:
            continue
        gp = {p['d']: i for i, p in enumerate(g.params)}
        for c in g.all_nodes():
            if c.get('k') == 'call' and c.get('u') == fn.usr and len(c.get('args', [])) > idx:
                a = codec.through_locals(g, c['args'][idx])
                sub = []
                if a is not None and a.get('k') == 'var' and a.get('d') in gp:
                    sub = _credit_callers(fb, g, gp[a['d']], depth + 1, seen)
                if sub:
                    out.extend(sub)
                else:
                    out.append(('%s(%s)#%s' % (g.q, ', '.join(p['tC'] for p in g.params), g.expr(c['args'][idx])), g.loc(c['id'])))
    return out


def string_length_rules(fb, R):
    """Every reject-guard that compares a length with osmium::max_osm_string_length rejects exactly len > max: one bound for
    builders (what a writer can be handed) and readers (what they accept back)."""
    mx = None
    for e in fb.enums:
        for en in e['enumerators']:
            if en['name'] == 'max_osm_string_length' and e['q'].startswith('osmium::'):
                mx = int(en['value'])
    if mx is None:
        # the enum itself lies outside the analysed roots: take the folded value at a use site
        for fn in fb.functions:
            for x in (fn.all_nodes() if fn.has_cfg else ()):
                if x.get('k') == 'var' and x.get('vk') == 'enumconst' and x.get('name') == 'max_osm_string_length' and 'cv' in x:
                    mx = int(x['cv'])
    if mx is None:
        R.broken('osmium::max_osm_string_length not found')
        return
    flip = {'<': '>', '>': '<', '<=': '>=', '>=': '<=', '==': '==', '!=': '!='}
    for fn in fb.functions:
        if not fn.has_cfg:
            continue
        for n in fn.all_nodes():
            if n.get('k') != 'binop' or n.get('op') not in _CMP:
                continue
            side = None
            bound = mx
            for nm in ('lhs', 'rhs'):
                x = codec.through_locals(fn, n[nm])
                if x is None:
                    continue
                # the constant itself or a constant expression built from it (`max_osm_string_length + 1`)
                if any(fn.nodes[y].get('k') == 'var' and fn.nodes[y].get('vk') == 'enumconst' and fn.nodes[y].get('name') == 'max_osm_string_length'
                       for y in fn.subtree(x['id'])) and fn.const_value(x['id']) is not None:
                    side = nm
                    bound = fn.const_value(x['id'])
            if side is None:
                continue
            pol = _reject_polarity(fn, n['id'])
            if pol is None:
                continue   # not a reject guard (no outcome necessarily throws)
            op = n['op'] if side == 'rhs' else flip[n['op']]
            other = n['lhs'] if side == 'rhs' else n['rhs']
            rejected = [(_CMP[op](v, bound) == pol) for v in (mx - 1, mx, mx + 1)]
            keys = [('%s(%s)#%s' % (fn.q, ', '.join(p['tC'] for p in fn.params), fn.expr(other)), fn.loc(n['id']))]
            # a validation helper that checks one of its parameters: the guard belongs to every caller (one instance per call site
            # and checked argument, as if the helper were inlined)
            ov = codec.through_locals(fn, other)
            pidx = {p['d']: i for i, p in enumerate(fn.params)}
            if ov is not None and ov.get('k') == 'var' and ov.get('d') in pidx:
                sites = _credit_callers(fb, fn, pidx[ov['d']])
                if sites:
                    keys = sites
            what = ('rejects a string of exactly max_osm_string_length (%d) bytes that the other builders, writers and readers accept' % mx
                    if rejected[1] else 'accepts strings longer than max_osm_string_length (%d) that every other site rejects' % mx
                    if not rejected[2] else 'rejects strings shorter than the maximum')
            for (key, site) in keys:
                R.check(rejected == [False, False, True], 'string-length-bound-agrees', key, site,
                        '%s: the guard `%s` %s' % (fn.q, fn.expr(n['id']), what))


# ================================================================================================ XML self-closing elements

def xml_self_closing_rules(fb, R):
    """An object element is written in the self-closing form `<way .../>` only when every sub-collection that the long form writes
    (tags; nodes; members; discussion) is empty -- otherwise those children are silently dropped."""
    from .. import c01_util as U
    sites = U.xml_self_closing_sites(fb, (NS + 'XMLOutputBlock', NS + 'XMLOutputFormat'))
    if sites is None:
        R.broken('XML writer: cannot determine the root element of a function that emits a self-closing tag')
        return
    n = 0
    for (fn, node, root, written) in sites:
        if not written:
            continue
        n += 1
        empty = U.emptiness_guards(fb, fn, node)
        missing = sorted(written - empty)
        R.check(not missing, 'xml-self-closing-only-when-empty', '%s#<%s/>' % (fn.q, root), fn.loc(node),
                '%s closes <%s .../> early when %s, but the long form also writes %s: an object with %s loses them'
                % (fn.q, root, ' and '.join('%s() is empty' % e for e in sorted(empty)) or 'nothing is tested', ', '.join(m + '()' for m in missing),
                   ' / '.join(missing)))
    if n == 0:
        R.broken('XML writer: no self-closing object element found (node/way/relation/changeset)')


# ================================================================================================ value range bounds

def value_range_rules(fb, R):
    """A reject-guard that compares a decoded value with std::numeric_limits<T>::max() / ::min() of a narrower (or differently
    signed) type T -- the storage type the value is then narrowed to -- rejects exactly v > max(T) / v < min(T).  A guard that also
    rejects v == max(T) refuses a value every builder and writer accepts."""
    flip = {'<': '>', '>': '<', '<=': '>=', '>=': '<='}
    for fn in fb.functions:
        if not fn.has_cfg:
            continue
        for n in fn.all_nodes():
            if n.get('k') != 'binop' or n.get('op') not in flip:
                continue
            side = None
            for nm in ('lhs', 'rhs'):
                x = codec.through_locals(fn, n[nm])
                if x is not None and x.get('k') == 'call' and x.get('q') in ('std::numeric_limits::max', 'std::numeric_limits::min') and 'cv' in x:
                    side, lim = nm, x
            if side is None:
                continue
            other = n['lhs'] if side == 'rhs' else n['rhs']
            ot = _int_type((fn.sn(other, casts=False) or fn.sn(other) or {}).get('t'))
            ot2 = _int_type((codec.through_locals(fn, other) or {}).get('t'))
            tt = _int_type(lim.get('t'))
            if tt is None:
                continue
            # only genuine range checks before narrowing: the compared value has a wider / differently signed type than T
            cands = [t for t in (ot, ot2) if t is not None]
            if not cands or all(t == tt for t in cands):
                continue
            pol = _reject_polarity(fn, n['id'])
            if pol is None:
                continue
            bound = int(lim['cv'])
            is_max = lim['q'].endswith('::max')
            op = n['op'] if side == 'rhs' else flip[n['op']]
            rejected = [(_CMP[op](v, bound) == pol) for v in (bound - 1, bound, bound + 1)]
            want = [False, False, True] if is_max else [True, False, False]
            key = '%s(%s)#%s#%s' % (fn.q, ', '.join(p['tC'] for p in fn.params), fn.expr(other), 'max' if is_max else 'min')
            tname = (codec.template_args(lim.get('rclsT')) or ['?'])[0]
            if rejected[1]:
                what = 'rejects the value %d = numeric_limits<%s>::%s() itself, which the type, the builders and every writer accept' % (bound, tname, 'max' if is_max else 'min')
            else:
                what = 'does not reject exactly the values outside the range of %s' % tname
            R.check(rejected == want, 'value-range-bound-agrees', key, fn.loc(n['id']), '%s: the guard `%s` %s' % (fn.q, fn.expr(n['id']), what))


# ================================================================================================ PBF block size estimate

def _byte_quantity(fb, g, depth=0):
    """Is what g returns measured in bytes?  (True, why) / (False, why) / (None, why)."""
    rets = [n for n in g.all_nodes() if n.get('k') == 'return' and 'sub' in n]
    if not rets:
        return None, 'no return value'
    verdicts = []
    for r in rets:
        sub = g.subtree(r['sub'])
        if any(g.nodes[x].get('k') == 'sizeof' for x in sub):
            verdicts.append((True, 'scaled by sizeof'))
            continue
        calls = [g.nodes[x] for x in sub if g.nodes[x].get('k') == 'call']
        if any(c.get('q') in ('std::basic_string::size', 'std::basic_string::length', 'std::basic_string::capacity') for c in calls):
            verdicts.append((True, 'size of a std::string'))
            continue
        fields = [g.nodes[x] for x in sub if g.nodes[x].get('k') == 'member' and g.nodes[x].get('field') and g.is_this_member(x)]
        if not fields:
            v = None
            for c in calls:
                for h in fb.by_usr.get(c.get('u'), []):
                    if h.has_cfg and depth < 2 and h.cls and h.cls.startswith('osmium::'):
                        v = _byte_quantity(fb, h, depth + 1)
                        break
            verdicts.append(v if v is not None else (None, 'return expression %s not understood' % g.expr(r['sub'])))
            continue
        for fld in fields:
            grows_len, grows_const = [], []
            for m in fb.functions:
                if m.cls != g.cls or not m.has_cfg:
                    continue
                for n in m.all_nodes():
                    tgt = rhs = None
                    if n.get('k') == 'assign' and n.get('op') in ('+=', '='):
                        tgt, rhs = n['lhs'], n['rhs']
                    elif n.get('k') == 'unop' and n.get('op') in ('++', '--'):
                        tgt = n['sub']
                    if tgt is None:
                        continue
                    t = m.sn(tgt)
                    if t is None or t.get('k') != 'member' or t.get('q') != fld.get('q'):
                        continue
                    if rhs is not None and any(m.nodes[x].get('k') == 'call' and (m.nodes[x].get('q', m.nodes[x].get('name', '')) in ('strlen', 'std::strlen')
                                               or m.nodes[x].get('q', '').endswith(('::size', '::length'))) for x in m.subtree(rhs)):
                        grows_len.append(m.loc(n['id']))
                    elif rhs is None or m.const_value(rhs) is not None:
                        grows_const.append(m.loc(n['id']))
            if grows_len:
                verdicts.append((True, '%s grows by the length of what is stored' % fld['name']))
            elif grows_const:
                verdicts.append((False, '%s is a counter (changed by a constant per element at %s), not a number of bytes' % (fld['name'], ', '.join(grows_const[:2]))))
            else:
                verdicts.append((None, 'cannot see how %s changes' % fld['name']))
    if any(v[0] is False for v in verdicts):
        return next(v for v in verdicts if v[0] is False)
    if any(v[0] is None for v in verdicts):
        return next(v for v in verdicts if v[0] is None)
    return verdicts[0]


def _part_columns_covered(fb, R, S, use_ids):
    """A part that is itself made of columns (DenseNodes): its byte estimate must mention every column the part's serialisation
    writes whose element count is not bounded by the per-block object limit, i.e. every column that does not grow by exactly one
    element per added object; and it must scale with the number of objects (mention at least one one-per-object column)."""
    for p in S.all_nodes():
        if p.get('k') != 'call' or p.get('recv') is None or not (use_ids & set(S.subtree(p['recv']))) or not p.get('u'):
            continue
        g = next((h for h in fb.by_usr.get(p['u'], []) if h.has_cfg), None)
        if g is None or not g.cls or not g.cls.startswith('osmium::'):
            continue
        cols = {}
        for e in codec.pbf_emissions(fb):
            if e.how == 'add_packed' and e.column is not None and e.fn.cls == g.cls:
                cols[e.column[0]] = (e.column[1], getattr(e, 'pushes', []))
        if not cols:
            continue
        mentioned = {n.get('q') for n in g.all_nodes() if n.get('k') == 'member' and n.get('field') and g.is_this_member(n['id'])}
        one_per_object = []
        for q, (name, pushes) in sorted(cols.items()):
            fixed = [(f, v, c) for (f, v, c) in pushes if not any(f.in_range(c, l['b'], l['e']) for l in f.loops)]
            bounded = len(pushes) == 1 and len(fixed) == 1
            if bounded:
                one_per_object.append(q)
                continue
            R.check(q in mentioned, 'pbf-block-size-counts-every-serialised-part', '%s#%s' % (g.q, name), g.site,
                    '%s is written into the blob by %s and grows by a data-dependent number of elements per object (%d push sites, %d in a loop), '
                    'so the per-block object limit does not bound it; %s does not count it: a block whose %s alone exceeds the blob size '
                    'limit is written without error' % (name, g.cls, len(pushes), len(pushes) - len(fixed), g.q, name))
        R.check(any(q in mentioned for q in one_per_object), 'pbf-block-size-counts-every-serialised-part', '%s#per-object' % g.q, g.site,
                '%s does not depend on the number of objects stored (none of the one-element-per-object columns is counted)' % g.q)


def block_size_rules(fb, R):
    """PrimitiveBlock::size() -- the estimate can_add() compares with max_used_blob_size -- has a summand for every member of the
    block that the serialisation writes into the blob, and every summand is a number of bytes."""
    PB = NS + 'PrimitiveBlock'
    rec = fb.record(PB)
    if rec is None:
        R.broken('record %s not found' % PB)
        return
    # the size function: the parameterless PrimitiveBlock method whose result can_add() compares
    size_fns = []
    for f in fb.fns(PB + '::can_add'):
        for n in f.all_nodes():
            if n.get('k') == 'binop' and n.get('op') in _CMP:
                for x in (n['lhs'], n['rhs']):
                    c = codec.through_locals(f, x)
                    o = n['rhs'] if x == n['lhs'] else n['lhs']
                    oc = f.sn(o)
                    if c is not None and c.get('k') == 'call' and c.get('rcls') == PB and not c.get('args') and oc is not None \
                            and oc.get('k') == 'var' and oc.get('name') == 'max_used_blob_size':
                        size_fns.extend(g for g in fb.by_usr.get(c.get('u'), []) if g.has_cfg)
    if not size_fns:
        R.broken('%s::can_add: no comparison of a size estimate with max_used_blob_size found' % PB)
        return
    S = size_fns[0]
    # parts written: data members of the block used by the methods the serialiser calls on the block
    ser_methods = set()
    for f in fb.functions:
        if f.has_cfg and f.cls == NS + 'SerializeBlob':
            for c in f.all_nodes():
                if c.get('k') == 'call' and c.get('rcls') == PB and c.get('u'):
                    ser_methods.add(c['u'])
    if not ser_methods:
        R.broken('SerializeBlob does not call any %s method' % PB)
        return
    field_by_q = {x['q']: x for x in rec.fields}
    parts = {}
    for u in ser_methods:
        for g in fb.by_usr.get(u, []):
            if not g.has_cfg:
                continue
            for n in g.all_nodes():
                if n.get('k') == 'member' and n.get('field') and n.get('q') in field_by_q and g.is_this_member(n['id']):
                    fd = field_by_q[n['q']]
                    t = fd['tC']
                    if t.startswith(('protozero::', 'osmium::io::detail::pbf_output_options')) or _int_type(t) is not None or t.startswith('osmium::io::detail::OSMFormat'):
                        continue   # writer handle / options / scalars: not data that ends up in the blob
                    parts[fd['q']] = fd
    if not parts:
        R.broken('%s: cannot determine which members are serialised into the blob' % PB)
        return
    # the estimate may be split over private helpers of the block (`dense_size()`): treat their bodies as part of size()
    size_bodies = [S]
    for c in S.all_nodes():
        if c.get('k') == 'call' and c.get('rcls') == PB and c.get('u'):
            for g in fb.by_usr.get(c['u'], []):
                if g.has_cfg and g not in size_bodies:
                    size_bodies.append(g)
                    break
    S_main = S
    for q, fd in sorted(parts.items()):
        S = S_main
        key = '%s#%s' % (S.q, fd['name'])
        uses = []
        S0 = S
        for B in size_bodies:
            uses = [n for n in B.all_nodes() if n.get('k') == 'member' and n.get('q') == q and B.is_this_member(n['id'])]
            if uses:
                S = B
                break
        if not uses:
            S = S0
            R.bad('pbf-block-size-counts-every-serialised-part', key, S.site,
                  '%s is serialised into the blob (%s) but %s does not count it: can_add() never sees it grow and blocks above the '
                  'blob size limit are written' % (fd['name'], ', '.join(sorted(g.q for u in ser_methods for g in fb.by_usr.get(u, [])[:1])), S.q))
            continue
        # the summand: the call made on the member
        verdict = None
        use_ids = {u_['id'] for u_ in uses}
        for p in S.all_nodes():
            if p.get('k') != 'call' or p.get('recv') is None or not (use_ids & set(S.subtree(p['recv']))):
                continue
            q2 = p.get('q', '')
            if q2.startswith('std::unique_ptr::') or q2.endswith('::(conv)') or q2.endswith('operator bool'):
                continue   # access path / null test, not the summand
            if q2 in ('std::basic_string::size', 'std::basic_string::length'):
                v = (True, 'size of a std::string')
            else:
                v = None
                for h in fb.by_usr.get(p.get('u'), []):
                    if h.has_cfg:
                        v = _byte_quantity(fb, h)
                        break
            if v is not None and (verdict is None or v[0] is False or (v[0] is None and verdict[0])):
                verdict = v
        if verdict is None or verdict[0] is None:
            R.broken('%s: cannot decide whether the summand for %s is a number of bytes (%s)' % (S.q, fd['name'], verdict[1] if verdict else 'no call on the member'))
            continue
        if verdict[0]:
            _part_columns_covered(fb, R, S, use_ids)
        R.check(verdict[0], 'pbf-block-size-counts-every-serialised-part', key, S0.site,
                'the summand of %s for %s is not a number of bytes: %s; can_add() compares the sum with max_used_blob_size (bytes)' % (S.q, fd['name'], verdict[1]),
                detail={'why': verdict[1]})


# ================================================================================================ driver

def run(ctx):
    R = ctx.R
    configs = ['ndebug14'] if ctx.tier == 'quick' else ['ndebug14', 'debug14', 'ndebug17', 'debug17']
    for cfg in configs:
        fb = ctx.facts(['io_write', 'io_read'], cfg)
        tabs = pbf_table_rules(fb, R)
        if tabs:
            gate_rules(fb, R, tabs[0])
            pbf_pairing_rules(fb, R, tabs[0], tabs[1])
            delta_width_rules(fb, R, tabs[0], tabs[1])
        writer_order_rules(fb, R)
        compression_layer_rules(fb, R)
        string_length_rules(fb, R)
        xml_self_closing_rules(fb, R)
        value_range_rules(fb, R)
        block_size_rules(fb, R)
        metadata_option_rules(fb, R)
        block_limit_rules(fb, R)
        block_switch_rules(fb, R)
        blob_framing_rules(fb, R)
        xml_rules(fb, R)
        opl_rules(fb, R)
    # instance floors, each count confirmed by reading the pristine tree (the evidence file lists the instances); a concrete
    # violation outranks a missed floor in the engine, so no slack is needed when a mutated row takes derived instances with it
    floors = [
        ('pbf-emitted-field-decoded', 60),       # 61 distinct (message, field) emitted; Blob.lz4_data only with OSMIUM_WITH_LZ4
        ('pbf-writer-kind-matches-proto', 60),   # one per (field, writer function)
        ('pbf-reader-kind-matches-proto', 68),   # 69 consuming cases in 17 switches / next() loops (lz4 case as above)
        ('pbf-delta-agrees', 45),                # scalar and packed scalar fields x consuming decoder functions
        ('pbf-delta-width', 25),                 # 11 delta coded fields on the writer side + 14 (field, decoder function) pairs
        ('writer-flush-before-foreign-buffer', 1),       # Writer::operator()(Buffer&&)
        ('writer-full-buffer-flushed-before-retry', 1),  # Writer::operator()(const Item&), buffer_is_full handler
        ('writer-pending-flushed-before-end', 1),        # Writer::do_close
        ('writer-item-committed', 1),                    # Writer::operator()(const Item&)
        ('write-guard-reads-own-attribute', 7),          # XML write_meta version/timestamp/uid/user/changeset, node lat/lon
        ('xml-strict-attribute-never-empty', 6),         # timestamp (node, way, relation), changeset created_at/closed_at, comment date
        ('writer-flush-entry-points', 2),                # Writer::flush, Writer::ensure_cleanup
        ('reader-decompressor-honours-compression', 3),  # make_decompressor: 2 factory calls + DummyDecompressor
        ('writer-compressor-honours-compression', 1),    # Writer constructor
        ('reader-fd-for-parser-only-if-not-real', 1),    # Reader constructor
        ('string-length-bound-agrees', 21),              # 11 guards; a guard on a helper's length parameter is credited to each call site
        ('xml-self-closing-only-when-empty', 4),         # XMLOutputBlock::node, way, relation, changeset
        ('value-range-bound-agrees', 10),                # pbf changeset x2, o5m uid + version, opl_parse_int max/min, string_to_ulong,
                                                         # parse_timestamp, string_to_location_coordinate max/min
        ('pbf-block-size-counts-every-serialised-part', 5),  # group data, string table, dense nodes; DenseNodes::size: m_tags, per-object
        ('dense-column-gates-agree', 10),        # the 10 vector members of DenseNodes
        ('dense-columns-parallel', 10),
        ('info-field-gated-by-own-option', 16),  # 6 Info + 6 DenseInfo fields, 3 Info + 1 DenseInfo containers
        ('metadata-option-accessors', 6),        # version timestamp changeset uid user any
        ('can-add-block-limits', 3),             # can_add, group#counts, add_dense_node#counts
        ('blob-size-constants', 4),              # 2 constants, decode_blob, read_from_input_queue_with_check
        ('block-switch-before-use', 7),          # 4 uses, new-block, store-first, last-block
        ('blob-header-length-byte-order', 2),    # SerializeBlob::operator() and PBFParser::get_size_in_network_byte_order
        ('xml-name-dispatched', 71),             # 16 elements + 55 (element, attribute) pairs
        ('xml-constant-value-accepted', 8),      # visible=true/false in node, way, relation; version=0.6 in osm, osmChange
        ('opl-letter-dispatched', 49),           # node 12, way 14, relation 11, changeset 12
        ('text-field-gated-by-own-option', 10),  # XML write_meta 5 attributes, OPL write_meta 5 letters
        ('wire-name-accessor-pairing', 103),     # pbf 36, xml 41, opl 26 wire names with a getter and a setter
        ('axis-corner-agreement', 30),           # every lon/lat/x/y/left/right/top/bottom/min*/max* wire name
    ]
    for rule, n in floors:
        R.expect(rule, n)


def _st_codec(fb, R):
    tabs = pbf_table_rules(fb, R)
    if tabs:
        gate_rules(fb, R, tabs[0])
        delta_width_rules(fb, R, tabs[0], tabs[1])


def _st_writer(fb, R):
    writer_order_rules(fb, R)


def _st_compress(fb, R):
    compression_layer_rules(fb, R)


def _st_block(fb, R):
    block_limit_rules(fb, R)
    block_switch_rules(fb, R)
    metadata_option_rules(fb, R)
    blob_framing_rules(fb, R)
    block_size_rules(fb, R)


def _st_text(fb, R):
    xml_rules(fb, R)
    opl_rules(fb, R)
    xml_self_closing_rules(fb, R)
    string_length_rules(fb, R)
    value_range_rules(fb, R)


SELFTESTS = [
    ('pbf-emitted-field-decoded', 'c01_codec.cpp', _st_codec),
    ('pbf-writer-kind-matches-proto', 'c01_codec.cpp', _st_codec),
    ('pbf-reader-kind-matches-proto', 'c01_codec.cpp', _st_codec),
    ('pbf-delta-agrees', 'c01_codec.cpp', _st_codec),
    ('pbf-delta-width', 'c01_codec.cpp', _st_codec),
    ('writer-flush-before-foreign-buffer', 'c01_writer.cpp', _st_writer),
    ('writer-full-buffer-flushed-before-retry', 'c01_writer.cpp', _st_writer),
    ('writer-pending-flushed-before-end', 'c01_writer.cpp', _st_writer),
    ('writer-flush-entry-points', 'c01_writer.cpp', _st_writer),
    ('reader-decompressor-honours-compression', 'c01_compress.cpp', _st_compress),
    ('writer-compressor-honours-compression', 'c01_compress.cpp', _st_compress),
    ('reader-fd-for-parser-only-if-not-real', 'c01_compress.cpp', _st_compress),
    ('info-field-gated-by-own-option', 'c01_codec.cpp', _st_codec),
    ('dense-column-gates-agree', 'c01_codec.cpp', _st_codec),
    ('dense-columns-parallel', 'c01_codec.cpp', _st_codec),
    ('can-add-block-limits', 'c01_block.cpp', _st_block),
    ('blob-size-constants', 'c01_block.cpp', _st_block),
    ('block-switch-before-use', 'c01_block.cpp', _st_block),
    ('metadata-option-accessors', 'c01_block.cpp', _st_block),
    ('blob-header-length-byte-order', 'c01_block.cpp', _st_block),
    ('xml-constant-value-accepted', 'c01_text.cpp', _st_text),
    ('xml-name-dispatched', 'c01_text.cpp', _st_text),
    ('write-guard-reads-own-attribute', 'c01_text.cpp', _st_text),
    ('xml-strict-attribute-never-empty', 'c01_text.cpp', _st_text),
    ('writer-item-committed', 'c01_writer.cpp', _st_writer),
    ('value-range-bound-agrees', 'c01_text.cpp', _st_text),
    ('pbf-block-size-counts-every-serialised-part', 'c01_block.cpp', _st_block),
    ('xml-self-closing-only-when-empty', 'c01_text.cpp', _st_text),
    ('string-length-bound-agrees', 'c01_text.cpp', _st_text),
    ('text-field-gated-by-own-option', 'c01_text.cpp', _st_text),
    ('opl-letter-dispatched', 'c01_text.cpp', _st_text),
    ('wire-name-accessor-pairing', 'c01_text.cpp', _st_text),
    ('axis-corner-agreement', 'c01_text.cpp', _st_text),
]
