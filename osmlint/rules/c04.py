"""C04 — buffers and builders keep objects intact across growth, commit, rollback, purge.

Decided (structural necessary conditions; DESIGN.md 5/C04):
 STALE-L / STALE-L-param  no local pointer/reference/iterator into Buffer storage (Buffer::data/get/..., Builder::item/object/
                 reserve_space*, Buffer::m_data itself) is used after a call that may relocate that storage (closure over
                 resolved callees that reach Buffer::reserve_space/grow/..., sub-builder ctors and dtors), also through
                 pointer parameters of callees
 STALE-F         no builder/memory class keeps a pointer member into buffer storage that can be stale at a normal method exit
 B1 coherence    every mutation of Buffer::m_memory is followed on all paths by an assignment of Buffer::m_data
 B2 memberwise   Buffer::swap exchanges, move ctor/assignment transfer every non-debug field; the moved-from data pointer and
                 counters are reset
 B3 relocation   grow() copies before it swaps and copies m_capacity|m_written bytes; grow_internal: no read of m_committed after
                 it was reset, copy precedes the reset; reserve_space calls grow_internal only with committed data
 S1..S6 size     conservation of sizes between reserve/append calls and add_size on self/ancestors (see rule texts)
 P1..P3 purge    callback before memmove for exactly the moved items; nothing is read through the read iterator after the move
                 in an iteration; m_written and m_committed are both set from the write iterator; the two siblings agree
 T1 witnesses    Buffer/Builder/Item are not copyable, builders not movable, Item::add_size and the ChangesetComment/
                 RelationMember size setters are not public
NOT decided: equality of stored content with what was passed in, padded_length arithmetic, alignment of every item.
"""
from ..flow import guards_of, path_search, describe_path
from ..stale import Stale, B, BU

EXPLANATION = (
    'Decided: (1) storage-alias dataflow: no pointer/reference/iterator derived from Buffer storage (locals, pointer parameters, '
    'pointer members of builders) is used after a call that may relocate that storage, with relocating calls closed over the resolved '
    'call graph; (2) Buffer field coherence (m_data re-assigned after every m_memory mutation; swap/move touch every field); (3) growth '
    'copies before it swaps, grow_internal only with committed data; (4) size conservation between reserved/appended bytes and add_size '
    'on self and ancestors for every builder method, constructor and destructor; (5) purge_removed callback-before-move, no read through '
    'the read iterator after the move, both counters set from the write iterator; (6) type-level witnesses (non-copyable, setters not '
    'public). NOT decided: byte equality of stored content, padded_length arithmetic, behaviour for every capacity/growth point as such.')
ASSUMPTIONS = ['relocating/derivation tables of osmlint/stale.py (DESIGN appendix B) are complete for Buffer and Builder',
               'references whose root is unknown (function parameters such as const Way&) are not tracked (prefer a miss to a false alarm)']

BUF = 'osmium::memory::Buffer'
BLD = 'osmium::builder::Builder'


def _file_ok(f):
    return any(s in f for s in ('/memory/', '/builder/', '/storage/', '/io/detail/', '/area/', '/relations/', '/osm/', '/handler/', '/index/',
                                '/selftest/positive/'))


def exit_t(e):
    return isinstance(e, tuple) and e[0] == 'exit'


def _is_throw_or_noreturn(fn, e):
    if isinstance(e, tuple):
        return False
    n = fn.nodes[e]
    return n.get('k') == 'throw' or (n.get('k') == 'call' and n.get('noret'))


def _named(fn, nid, hops=4):
    """look through locals that only name a value (declared once with an initialiser, never assigned again)"""
    while hops > 0:
        hops -= 1
        x = fn.sn(nid)
        if x is None or x.get('k') != 'var' or x.get('vk') != 'local':
            return nid
        init = None
        nd = 0
        for n in fn.all_nodes():
            if n.get('k') == 'decl':
                for v in n.get('vars', []):
                    if v['d'] == x['d']:
                        nd += 1
                        init = v.get('init')
            elif n.get('k') == 'assign' and (fn.sn(n['lhs']) or {}).get('k') == 'var' and fn.sn(n['lhs']).get('d') == x['d']:
                nd += 5
            elif n.get('k') == 'unop' and n.get('op') in ('++', '--') and (fn.sn(n['sub']) or {}).get('d') == x['d']:
                nd += 5
        if nd != 1 or init is None:
            return nid
        nid = init
    return nid


def this_field(fn, nid, name=None):
    n = fn.sn(nid)
    if n is not None and n.get('k') == 'member' and n.get('field') and fn.is_this_member(nid):
        return n['name'] if name is None or n['name'] == name else None
    return None


def field_of(fn, nid):
    """(base-kind, field name): ('this', name) / ('other', name) for member accesses, else None"""
    n = fn.sn(nid)
    if n is None or n.get('k') != 'member' or not n.get('field'):
        return None
    if fn.is_this_member(nid):
        return ('this', n['name'])
    return ('other', n['name'])


# ------------------------------------------------------------------------------------------------ STALE

def stale_rules(fb, R):
    S = Stale(fb)
    fns = [f for f in fb.functions if _file_ok(f.file)]
    S.rule_locals(R, fns, rule='STALE-L')
    recs = [r for r in fb.records if any(s in r.file for s in ('/builder/', '/memory/', '/storage/', '/osm/', '/selftest/positive/'))]
    S.rule_fields(R, recs, rule='STALE-F')


# ------------------------------------------------------------------------------------------------ Buffer coherence

def _assigned_fields(fn):
    """[(node id, ('this'|'other', field))] for assignments, ctor initialisers and swap(x, y) arguments"""
    out = []
    for n in fn.all_nodes():
        k = n.get('k')
        if k == 'assign':
            f = field_of(fn, n['lhs'])
            if f:
                out.append((n['id'], f, n))
        elif k == 'init' and 'name' in n:
            out.append((n['id'], ('this', n['name']), n))
        elif k == 'call' and n.get('q', '').rsplit('::', 1)[-1] == 'swap' and len(n.get('args', [])) == 2:
            for a in n['args']:
                f = field_of(fn, a)
                if f:
                    out.append((n['id'], f, n))
        elif k == 'call' and n.get('op') == '=' and n.get('recv') is not None:
            f = field_of(fn, n['recv'])
            if f:
                out.append((n['id'], f, n))
        elif k == 'call' and n.get('q') == 'std::exchange' and len(n.get('args', [])) == 2:
            f = field_of(fn, n['args'][0])     # std::exchange(x, v) stores v into x
            if f:
                out.append((n['id'], f, n))
        elif k == 'call' and n.get('q', '').endswith('::reset') and n.get('recv') is not None:
            f = field_of(fn, n['recv'])
            if f:
                out.append((n['id'], f, n))
    return out


def buffer_rules(fb, R):
    rec = fb.record(BUF)
    if rec is None:
        R.broken('record %s not found' % BUF)
        return
    fields = [f['name'] for f in rec.fields]
    for need in ('m_memory', 'm_data', 'm_capacity', 'm_written', 'm_committed'):
        if need not in fields:
            R.broken('Buffer field %s not found' % need)
            return
    methods = [f for f in fb.functions if f.cls == BUF and not f.is_lambda]
    # B1: every mutation of m_memory followed by assignment of m_data
    nb1 = 0
    for fn in methods:
        asg = _assigned_fields(fn)
        mem = [a for a in asg if a[1] == ('this', 'm_memory')]
        # moved-from: std::move(m_memory) passed somewhere
        for n in fn.all_nodes():
            if n.get('k') == 'call' and n.get('q') == 'std::move' and n.get('args') and this_field(fn, n['args'][0], 'm_memory'):
                mem.append((n['id'], ('this', 'm_memory'), n))
        if not mem:
            continue
        data_ids = {a[0] for a in asg if a[1] == ('this', 'm_data')}
        for (nid, _f, n) in mem:
            nb1 += 1
            if nid in data_ids:
                R.ok('B1-data-follows-memory', '%s#m_memory' % fn.q, fn.loc(nid))
                continue
            w = path_search(fn, nid, exit_t, lambda e: (not isinstance(e, tuple)) and (e in data_ids or _is_throw_or_noreturn(fn, e)))
            R.check(w is None, 'B1-data-follows-memory', '%s#m_memory' % fn.q, fn.loc(nid),
                    'Buffer::m_memory is changed in %s but a normal exit is reachable without re-assigning m_data from it: %s'
                    % (fn.q, describe_path(fn, w)))
    if nb1 == 0:
        R.broken('no mutation of Buffer::m_memory found')

    # B2: member-wise completeness
    req = [f for f in fields if f != 'm_builder_count']
    for fn in fb.fns(BUF + '::swap'):
        got = {a[1][1] for a in _assigned_fields(fn) if a[1][0] == 'this'}
        got_o = {a[1][1] for a in _assigned_fields(fn) if a[1][0] == 'other'}
        for f in req:
            R.check(f in got and f in got_o, 'B2-memberwise-complete', '%s#%s' % (fn.q, f), fn.site,
                    'Buffer::swap does not exchange field %s' % f)
    for q in (BUF + '::(ctor)', BUF + '::operator='):
        for fn in fb.fns(q):
            if not fn.params or BUF not in fn.params[0]['tC'] or not fn.params[0]['tC'].endswith('&&'):
                continue
            asg = _assigned_fields(fn)
            got = {a[1][1] for a in asg if a[1][0] == 'this'}
            for f in req:
                R.check(f in got, 'B2-memberwise-complete', '%s#%s' % (fn.q, f), fn.site, 'Buffer move %s does not transfer field %s' % (fn.name, f))
            reset = {a[1][1] for a in asg if a[1][0] == 'other'}
            for f in ('m_data', 'm_capacity', 'm_written', 'm_committed'):
                R.check(f in reset, 'B2-moved-from-reset', '%s#%s' % (fn.q, f), fn.site,
                        'Buffer move %s leaves %s of the moved-from buffer set (two buffers would claim the same memory)' % (fn.name, f))

    # B3: growth
    for fn in fb.fns(BUF + '::grow'):
        copies = [n for n in fn.all_nodes() if n.get('k') == 'call' and n.get('q') in ('std::copy_n', 'std::memcpy', 'std::copy')]
        asg = _assigned_fields(fn)
        mem_mut = [a[0] for a in asg if a[1] == ('this', 'm_memory')]
        cap_mut = [a[0] for a in asg if a[1] == ('this', 'm_capacity')]
        ok = len(copies) == 1 and bool(mem_mut)
        msg = 'Buffer::grow must copy the old content exactly once'
        if ok:
            c = copies[0]
            cnt = fn.sn(c['args'][1]) if c['q'] == 'std::copy_n' else fn.sn(c['args'][2])
            okc = cnt is not None and cnt.get('k') == 'member' and cnt['name'] in ('m_capacity', 'm_written')
            src = this_field(fn, (fn.sn(c['args'][0]) or {}).get('recv'), 'm_memory') if (fn.sn(c['args'][0]) or {}).get('k') == 'call' else None
            src2 = this_field(fn, c['args'][0], 'm_data')
            oks = bool(src or src2)
            before = all(fn.elem_dominates(c['id'], m) for m in mem_mut) and all(fn.elem_dominates(c['id'], m) for m in cap_mut)
            ok = okc and oks and before
            msg = ('Buffer::grow must copy m_capacity (or m_written) bytes from the old memory before m_memory/m_capacity are replaced '
                   '(count=%s, source-is-old=%s, copy-first=%s)' % (fn.expr(c['args'][1])[:30], oks, before))
        R.check(ok, 'B3-grow-copies-old-content', fn.q, fn.site, msg)
    for fn in fb.fns(BUF + '::grow_internal'):
        asg = _assigned_fields(fn)
        resets = [a for a in asg if a[1] == ('this', 'm_committed') and a[2].get('k') == 'assign' and a[2]['op'] == '=']
        reads = [n['id'] for n in fn.all_nodes() if n.get('k') == 'member' and n.get('field') and n['name'] == 'm_committed' and fn.is_this_member(n['id'])]
        ok = bool(resets)
        w = None
        for (nid, _f, n) in resets:
            lhs = fn.strip(n['lhs'])
            w = path_search(fn, nid, lambda e: (not isinstance(e, tuple)) and e in reads and e != lhs, lambda e: False)
            if w:
                ok = False
        R.check(ok, 'B3-grow_internal-order', fn.q + '#committed-reset-last', fn.site,
                'grow_internal reads m_committed after resetting it (the uncommitted tail would be copied from the wrong offset): %s' % describe_path(fn, w))
        copies = [n for n in fn.all_nodes() if n.get('k') == 'call' and n.get('q') in ('std::copy_n', 'std::memcpy', 'std::copy')]
        ok = len(copies) == 1
        if ok:
            c = copies[0]
            dst = this_field(fn, c['args'][2] if c['q'] == 'std::copy_n' else c['args'][0], 'm_data')
            data_asg = [a[0] for a in asg if a[1] == ('this', 'm_data')]
            ok = bool(dst) and bool(data_asg) and all(fn.elem_dominates(d, c['id']) for d in data_asg)
            srctxt = fn.expr(c['args'][0])
            ok = ok and 'm_committed' in srctxt
        R.check(ok, 'B3-grow_internal-order', fn.q + '#copy-uncommitted-tail', fn.site,
                'grow_internal must copy the uncommitted tail (old data + m_committed) into the new m_data after m_data was re-pointed')
    # every call of grow_internal (wherever it lives: reserve_space or a helper it was extracted into) needs committed data
    gi_sites = [(fn, n) for fn in methods for n in fn.all_nodes() if n.get('k') == 'call' and n.get('q') == BUF + '::grow_internal']
    okall = bool(gi_sites)
    site = methods[0].site if methods else BUF
    for (fn, c) in gi_sites:
        site = fn.loc(c['id'])
        gs = guards_of(fn, c['id'])
        has_committed = False
        for (cn, sense, _b) in gs:
            x = fn.sn(cn)
            if x is not None and x.get('k') == 'binop' and sense:
                if x['op'] in ('!=', '>') and this_field(fn, x['lhs'], 'm_committed') and fn.const_value(x['rhs']) == 0:
                    has_committed = True
                if x['op'] in ('!=', '<') and this_field(fn, x['rhs'], 'm_committed') and fn.const_value(x['lhs']) == 0:
                    has_committed = True
            if x is not None and x.get('k') == 'binop' and not sense and x['op'] == '==':
                if (this_field(fn, x['lhs'], 'm_committed') and fn.const_value(x['rhs']) == 0) or \
                        (this_field(fn, x['rhs'], 'm_committed') and fn.const_value(x['lhs']) == 0):
                    has_committed = True
            if x is not None and x.get('k') == 'member' and x.get('name') == 'm_committed' and sense and fn.is_this_member(cn):
                has_committed = True
            if x is not None and x.get('k') == 'call' and x.get('q') == BUF + '::committed' and sense:
                has_committed = True
        okall = okall and has_committed
    R.check(okall, 'B3-grow_internal-needs-committed-data', BUF + '#grow_internal-call', site,
            'grow_internal() must be called only when m_committed != 0 (otherwise an empty nested buffer is chained, which consumers '
            'of nested buffers do not expect)')
    # growth happens before the address is taken: covered by STALE-L on the local derived from m_data

    # B3: the capacity handed to grow() covers written + requested: every comparison of the new-capacity local that feeds
    # grow() is against `m_written + <request parameter>` (not m_committed, not the bare request)
    n_cov = 0
    for fn in methods:
        grows = [n for n in fn.all_nodes() if n.get('k') == 'call' and n.get('q') == BUF + '::grow' and n.get('args')]
        for g in grows:
            rv = fn.root_var(g['args'][0])
            if rv is None or rv[0] != 'var':
                continue
            d = rv[1]
            pd = {p['d'] for p in fn.params}
            if d in pd:
                continue  # grow(size) forwarded from a parameter: nothing to decide here
            cmps = []
            for b in fn.blocks.values():
                if 'cond' not in b:
                    continue
                c = fn.sn(b['cond'])
                if c is None or c.get('k') != 'binop' or c['op'] not in ('>', '<', '>=', '<='):
                    continue
                l, r = fn.sn(c['lhs']), fn.sn(c['rhs'])
                if r is not None and r.get('k') == 'var' and r.get('d') == d and c['op'] in ('>', '>='):
                    cmps.append((c, c['lhs']))
                elif l is not None and l.get('k') == 'var' and l.get('d') == d and c['op'] in ('<', '<='):
                    cmps.append((c, c['rhs']))
            for (c, other) in cmps:
                n_cov += 1
                o = fn.sn(other)
                ok = False
                if o is not None and o.get('k') == 'binop' and o['op'] == '+':
                    a, b2 = o['lhs'], o['rhs']
                    fa, fb = this_field(fn, a), this_field(fn, b2)
                    va, vb = fn.sn(a), fn.sn(b2)
                    pa = va is not None and va.get('k') == 'var' and va.get('d') in pd
                    pb = vb is not None and vb.get('k') == 'var' and vb.get('d') in pd
                    ok = (fa == 'm_written' and pb) or (fb == 'm_written' and pa)
                R.check(ok, 'B3-growth-target-covers-request', '%s#new-capacity-test' % fn.q, fn.loc(c['id']),
                        'the capacity computed for grow() is compared with `%s`; it must cover m_written + the requested size (all bytes written so far, '
                        'committed or not, plus the new request), otherwise the reserved range ends beyond the new block' % fn.expr(other))
    # ... and the capacity that reaches grow() is SHOWN to cover the request: the call is dominated by the outcome
    # `new_capacity >= m_written + size` of such a comparison (loop exit or if), or the argument is max(.., m_written + size)
    def _is_request_sum(fn, nid, pd):
        o = fn.sn(nid)
        if o is None or o.get('k') != 'binop' or o['op'] != '+':
            return False
        fa, fb_ = this_field(fn, o['lhs']), this_field(fn, o['rhs'])
        va, vb = fn.sn(o['lhs']), fn.sn(o['rhs'])
        pa = va is not None and va.get('k') == 'var' and va.get('d') in pd
        pb = vb is not None and vb.get('k') == 'var' and vb.get('d') in pd
        return (fa == 'm_written' and pb) or (fb_ == 'm_written' and pa)
    for fn in methods:
        pd = {p['d'] for p in fn.params}
        for g in [n for n in fn.all_nodes() if n.get('k') == 'call' and n.get('q') == BUF + '::grow' and n.get('args')]:
            a = fn.sn(g['args'][0])
            if a is not None and a.get('k') == 'var' and a.get('d') in pd:
                continue
            n_cov += 1
            ok = False
            if a is not None and a.get('k') == 'var':
                d = a['d']
                for (c, sense, _b) in guards_of(fn, g['id']):
                    cn = fn.sn(c)
                    if cn is None or cn.get('k') != 'binop' or cn['op'] not in ('>', '<', '>=', '<='):
                        continue
                    l, r = fn.sn(cn['lhs']), fn.sn(cn['rhs'])
                    lv = l is not None and l.get('k') == 'var' and l.get('d') == d
                    rv_ = r is not None and r.get('k') == 'var' and r.get('d') == d
                    if rv_ and _is_request_sum(fn, cn['lhs'], pd):      # sum OP d
                        covers = (cn['op'] == '>' and not sense) or (cn['op'] == '<=' and sense)
                    elif lv and _is_request_sum(fn, cn['rhs'], pd):     # d OP sum
                        covers = (cn['op'] == '<' and not sense) or (cn['op'] == '>=' and sense)
                    else:
                        covers = False
                    ok = ok or covers
            elif a is not None and a.get('k') == 'call' and a.get('q') == 'std::max':
                ok = any(_is_request_sum(fn, x, pd) for x in a.get('args', []))
            R.check(ok, 'B3-growth-target-covers-request', '%s#grow-argument-covers' % fn.q, fn.loc(g['id']),
                    'grow(%s) is not shown to provide m_written + the requested size: no dominating test `capacity >= m_written + size` '
                    '(doubling once is not enough for a request larger than the current capacity): the reserved range ends beyond the new block'
                    % fn.expr(g['args'][0]))
    if n_cov == 0:
        R.broken('B3-growth-target-covers-request: no grow() call with a computed capacity found in Buffer')


# ------------------------------------------------------------------------------------------------ size conservation

def _calls(fn, qnames):
    return [n for n in fn.all_nodes() if n.get('k') == 'call' and n.get('q') in qnames]


def _add_size_parent_chain_loop(fn, p0):
    """Equivalent iterative form of Builder::add_size: a cursor that starts at `this`, is advanced with `cursor = cursor->m_parent`
    and nothing else, a loop that runs while the cursor is non-null, and in every iteration `cursor->item().add_size(size)`."""
    from ..flow import in_cfg_loop
    cursor = None
    for n in fn.all_nodes():
        if n.get('k') == 'decl':
            for v in n['vars']:
                if isinstance(v.get('init'), int) and (fn.sn(v['init']) or {}).get('k') == 'this':
                    cursor = v['d']
    if cursor is None:
        return False
    steps = 0
    for n in fn.all_nodes():
        if n.get('k') == 'assign':
            l = fn.sn(n['lhs'])
            if l is not None and l.get('k') == 'var' and l.get('d') == cursor:
                r = fn.sn(n['rhs'])
                if n['op'] != '=' or r is None or r.get('k') != 'member' or r.get('name') != 'm_parent':
                    return False
                b = fn.sn(r['base'])
                if b is None or b.get('k') != 'var' or b.get('d') != cursor:
                    return False
                steps += 1
        elif n.get('k') == 'unop' and n['op'] in ('++', '--'):
            x = fn.sn(n['sub'])
            if x is not None and x.get('k') == 'var' and x.get('d') == cursor:
                return False
    if steps != 1:
        return False
    adds = [n for n in fn.all_nodes() if n.get('k') == 'call' and n.get('q') == 'osmium::memory::Item::add_size']
    if len(adds) != 1:
        return False
    a = adds[0]
    rv = fn.root_var(a.get('recv'))
    x = fn.sn(a['args'][0]) if a.get('args') else None
    if rv != ('var', cursor, rv[2] if rv else None) or x is None or x.get('k') != 'var' or x.get('d') != p0:
        return False
    if not in_cfg_loop(fn, a['id']):
        return False
    # the loop is left only when the cursor is null: every path from the add to the exit passes a false edge of a cursor test;
    # and no path from entry reaches the exit without the add unless the cursor was null (it starts as `this`, never null)
    ids = {a['id']}
    w = path_search(fn, fn.entry, exit_t, lambda e: e in ids or _is_throw_or_noreturn(fn, e), from_block_start=True)
    if w is None:
        return True
    # a path without the add exists syntactically (loop condition false at once); accept only if that edge tests the cursor
    for b in fn.blocks.values():
        if 'cond' in b and len(b['succs']) == 2:
            c = fn.sn(b['cond'])
            txt_ok = False
            if c is not None and c.get('k') == 'var' and c.get('d') == cursor:
                txt_ok = True
            if c is not None and c.get('k') == 'binop' and c['op'] in ('!=', '=='):
                l, r = fn.sn(c['lhs']), fn.sn(c['rhs'])
                if (l is not None and l.get('k') == 'var' and l.get('d') == cursor and r is not None and r.get('null')) or \
                        (r is not None and r.get('k') == 'var' and r.get('d') == cursor and l is not None and l.get('null')):
                    txt_ok = True
            if txt_ok:
                return True
    return False


def size_rules(fb, R):
    builder_classes = {r.q for r in fb.records if BLD in r.allbases} | {BLD}
    ADD = BLD + '::add_size'
    APP = {BLD + '::append', BLD + '::append_with_zero'}
    RSF = BLD + '::reserve_space_for'
    RS = BLD + '::reserve_space'
    PAD = BLD + '::add_padding'

    # S1: Builder::add_size adds to self and recurses to the parent
    for fn in fb.fns(ADD):
        own = [n for n in fn.all_nodes() if n.get('k') == 'call' and n.get('q') == 'osmium::memory::Item::add_size']
        rec = [n for n in _calls(fn, {ADD}) if this_field(fn, n.get('recv'), 'm_parent')]
        p0 = fn.params[0]['d'] if fn.params else None

        def is_param(nid):
            x = fn.sn(nid)
            return x is not None and x.get('k') == 'var' and x['d'] == p0
        ok = len(own) == 1 and len(rec) == 1 and is_param(own[0]['args'][0]) and is_param(rec[0]['args'][0])
        if ok:
            ids = {own[0]['id']}
            ok = path_search(fn, fn.entry, exit_t, lambda e: e in ids or _is_throw_or_noreturn(fn, e), from_block_start=True) is None
            gs = guards_of(fn, rec[0]['id'])
            ok = ok and any(sense and this_field(fn, c, 'm_parent') for (c, sense, _b) in gs)

            def edge_ok(b, idx, s):
                blk = fn.blocks[b]
                if 'cond' in blk and len(blk['succs']) == 2 and idx == 1 and this_field(fn, blk['cond'], 'm_parent'):
                    return False
                return True
            rid = {rec[0]['id']}
            ok = ok and path_search(fn, fn.entry, exit_t, lambda e: e in rid or _is_throw_or_noreturn(fn, e), edge_ok, from_block_start=True) is None
        if not ok:
            ok = _add_size_parent_chain_loop(fn, p0)
        R.check(ok, 'S1-add_size-self-and-ancestors', ADD, fn.site,
                'Builder::add_size must add the size to the own item and, when there is a parent, recurse into m_parent->add_size(size) on every path')
    if not fb.fns(ADD):
        R.broken('Builder::add_size not found')

    # S2: Builder ctor: reserve_space(size) and m_parent->add_size(size) when there is a parent
    for fn in fb.fns(BLD + '::(ctor)'):
        sz = fn.params[2]['d'] if len(fn.params) >= 3 else None

        def is_sz(nid):
            x = fn.sn(nid)
            return x is not None and x.get('k') == 'var' and x['d'] == sz
        rs = [n for n in _calls(fn, {RS}) if n.get('args') and is_sz(n['args'][0])]
        ad = [n for n in _calls(fn, {ADD}) if this_field(fn, n.get('recv'), 'm_parent') and n.get('args') and is_sz(n['args'][0])]
        ok = len(rs) == 1 and len(ad) == 1
        if ok:
            def edge_ok(b, idx, s):
                blk = fn.blocks[b]
                if 'cond' in blk and len(blk['succs']) == 2 and idx == 1 and this_field(fn, blk['cond'], 'm_parent'):
                    return False
                return True
            ids = {ad[0]['id']}
            ok = path_search(fn, fn.entry, exit_t, lambda e: e in ids or _is_throw_or_noreturn(fn, e), edge_ok, from_block_start=True) is None
            ids = {rs[0]['id']}
            ok = ok and path_search(fn, fn.entry, exit_t, lambda e: e in ids or _is_throw_or_noreturn(fn, e), from_block_start=True) is None
        R.check(ok, 'S2-builder-ctor-accounts-initial-size', BLD + '::(ctor)', fn.site,
                'Builder constructor must reserve `size` bytes and add the same `size` to the parent chain when there is a parent')

    # S3: constructors of builder classes: reserved == own size == size added to ancestors (numeric, per instantiation)
    n_ctor = 0
    for fn in fb.functions:
        if fn.kind != 'ctor' or fn.cls not in builder_classes or fn.cls == BLD:
            continue
        base = [n for n in fn.all_nodes() if n.get('k') == 'construct' and n.get('q') == BLD + '::(ctor)']
        if not base:
            continue  # delegates to another builder class ctor
        reserved = fn.const_value(base[0]['args'][2]) if len(base[0].get('args', [])) >= 3 else None
        news = [n for n in fn.all_nodes() if n.get('k') == 'new' and n.get('placement') and 'asz' in n]
        adds = [n for n in _calls(fn, {ADD}) if (fn.sn(n.get('recv')) or {}).get('k') == 'this']
        addv = [fn.const_value(n['args'][0]) for n in adds]
        extra_rs = [fn.const_value(n['args'][0]) for n in _calls(fn, {RS}) if (fn.sn(n.get('recv')) or {}).get('k') == 'this']
        n_ctor += 1
        key = '%s::(ctor)#sizes' % fn.cls
        if reserved is None or len(news) != 1 or any(v is None for v in addv) or any(v is None for v in extra_rs):
            R.broken('%s: constructor shape not understood (reserved=%s placements=%d)' % (fn.full, reserved, len(news)))
            continue
        total_reserved = reserved + sum(extra_rs)
        own = news[0]['asz'] + sum(addv)
        anc = reserved + sum(addv)
        R.check(own == total_reserved, 'S3-ctor-own-size', key, fn.site,
                '%s: the item starts with byte_size %d (sizeof %s + add_size %s) but %d bytes were reserved for it'
                % (fn.full, own, news[0].get('alloc'), addv, total_reserved))
        R.check(anc == total_reserved, 'S3-ctor-ancestor-size', key, fn.site,
                '%s: %d bytes are reserved but %d are added to the ancestors\' sizes (Builder ctor adds %d, add_size adds %s again): a parent item '
                'claims more bytes than were written' % (fn.full, total_reserved, anc, reserved, addv))
    if n_ctor == 0:
        R.broken('no builder constructors found')

    # S4: results of append*/reserve_space_for/reserve_space in subclasses are accounted by add_size
    n_acc = 0
    for fn in fb.functions:
        if fn.cls not in builder_classes or fn.is_lambda or fn.kind == 'ctor':
            continue
        pm = fn.parent_map()
        for n in _calls(fn, APP):
            if fn.cls == BLD:
                continue  # Builder::append(const char*) forwards to append(data, len) and returns the count
            n_acc += 1
            p = pm.get(n['id'])
            while p is not None and fn.nodes[p].get('k') in ('icast', 'wrap', 'cast'):
                p = pm.get(p)
            pn = fn.nodes.get(p) if p is not None else None
            ok = pn is not None and pn.get('k') == 'call' and pn.get('q') == ADD and (fn.sn(pn.get('recv')) or {}).get('k') == 'this'
            R.check(ok, 'S4-appended-bytes-accounted', '%s#%s' % (fn.q, n['q'].rsplit('::', 1)[-1]), fn.loc(n['id']),
                    'the byte count returned by %s is not passed to add_size(): bytes are written to the buffer that no item size covers'
                    % n['q'].rsplit('::', 1)[-1])
        for n in _calls(fn, {RSF}):
            n_acc += 1
            # sizeof of the reserved type must be added on every path to a normal exit
            tname = n.get('t', '').replace(' *', '').strip()
            adds = [a for a in _calls(fn, {ADD}) if (fn.sn(a.get('recv')) or {}).get('k') == 'this']
            want = None
            for a in adds:
                x = fn.sn(a['args'][0])
                if x is not None and x.get('k') == 'sizeof' and x.get('of') == tname:
                    want = a
            ok = want is not None
            if ok:
                ids = {want['id']}
                ok = path_search(fn, n['id'], exit_t, lambda e: (not isinstance(e, tuple)) and (e in ids or _is_throw_or_noreturn(fn, e))) is None
            R.check(ok, 'S4-reserved-object-accounted', '%s#reserve_space_for' % fn.q, fn.loc(n['id']),
                    'space for a %s is reserved but add_size(sizeof(%s)) does not follow on every path' % (tname, tname))
        if fn.cls != BLD or fn.name == 'add_padding':
            for n in _calls(fn, {RS}):
                if (fn.sn(n.get('recv')) or {}).get('k') != 'this':
                    continue
                n_acc += 1
                argtxt = fn.expr(n['args'][0])
                adds = [a for a in _calls(fn, {ADD}) if fn.expr(a['args'][0]).replace('cast<unsigned int>(', '').rstrip(')') == argtxt.rstrip(')')
                        or fn.expr(a['args'][0]) == argtxt or argtxt in fn.expr(a['args'][0])]
                ids = {a['id'] for a in adds}

                def edge_ok(b, idx, s, fn=fn):
                    # add_padding(false) without a parent: nobody to account the padding to
                    blk = fn.blocks[b]
                    if fn.name == 'add_padding' and 'cond' in blk and len(blk['succs']) == 2 and idx == 1 and this_field(fn, blk['cond'], 'm_parent'):
                        return False
                    return True
                w = path_search(fn, n['id'], exit_t, lambda e: (not isinstance(e, tuple)) and (e in ids or _is_throw_or_noreturn(fn, e)), edge_ok)
                R.check(bool(adds) and w is None, 'S4-reserved-bytes-accounted', '%s#reserve_space' % fn.q, fn.loc(n['id']),
                        'reserve_space(%s) is not followed on every path by add_size(%s)' % (argtxt, argtxt))
    for fn in fb.fns(BLD + '::add_item'):
        adds = _calls(fn, {ADD})
        bi = _calls(fn, {BUF + '::add_item'})
        ok = len(adds) == 1 and len(bi) == 1
        if ok:
            x = fn.sn(adds[0]['args'][0])
            ok = x is not None and x.get('k') == 'call' and x.get('q', '').endswith('::padded_size') and \
                fn.root_var(x['recv']) == fn.root_var(bi[0]['args'][0])
        R.check(ok, 'S4-appended-bytes-accounted', BLD + '::add_item#padded_size', fn.site,
                'Builder::add_item must add the copied item\'s padded_size() (the number of bytes Buffer::add_item copies)')
        n_acc += 1
    if n_acc < 10:
        R.broken('size accounting: only %d append/reserve sites found' % n_acc)

    # S5: sub-builder destructors pad; variable-length members pad themselves
    variable = set()
    for fn in fb.functions:
        if fn.cls in builder_classes and fn.cls != BLD and (_calls(fn, APP) or _calls(fn, {RSF})):
            variable.add(fn.cls)
    for cls in sorted(variable):
        dts = fb.fns(cls + '::(dtor)')
        if not dts:
            R.bad('S5-destructor-pads', cls + '::(dtor)', (fb.record(cls).file + ':%d' % fb.record(cls).line) if fb.record(cls) else cls,
                  '%s appends variable-length data but has no destructor that calls add_padding(): the item sequence loses 8-byte alignment' % cls)
            continue
        for fn in dts:
            pads = {n['id'] for n in _calls(fn, {PAD})}
            w = path_search(fn, fn.entry, exit_t, lambda e: e in pads or _is_throw_or_noreturn(fn, e), from_block_start=True)
            R.check(bool(pads) and w is None, 'S5-destructor-pads', cls + '::(dtor)', fn.site,
                    '%s::~ must call add_padding() on every path (8-byte alignment of the item sequence)' % cls)
    for fn in fb.functions:
        if fn.cls not in builder_classes:
            continue
        setters = [n for n in fn.all_nodes() if n.get('k') == 'call' and n.get('q', '').rsplit('::', 1)[-1] in ('set_role_size', 'set_text_size')]
        if not setters:
            continue
        apps = _calls(fn, APP)
        pads = [n for n in _calls(fn, {PAD}) if n.get('args') and fn.const_value(n['args'][0]) == 1]
        ids = {n['id'] for n in pads}
        ok = bool(apps) and bool(pads)
        for a in apps:
            w = path_search(fn, a['id'], exit_t, lambda e: (not isinstance(e, tuple)) and (e in ids or _is_throw_or_noreturn(fn, e)))
            ok = ok and w is None
        R.check(ok, 'S5-variable-member-padded', fn.q, fn.site,
                '%s writes the last variable-length part of a member but add_padding(true) does not follow on every path' % fn.q)

    # S6: add_padding: padding computed from own size modulo align_bytes; fill_n of that many zero bytes
    for fn in fb.fns(PAD):
        fills = [n for n in fn.all_nodes() if n.get('k') == 'call' and n.get('q') in ('std::fill_n', 'std::memset')]
        ok = len(fills) == 1
        if ok:
            f = fills[0]
            rs = [x for x in fn.subtree(f['args'][0]) if fn.nodes[x].get('q') == RS]
            ok = len(rs) == 1 and fn.expr(fn.nodes[rs[0]]['args'][0]) == fn.expr(f['args'][1])
        R.check(ok, 'S6-padding-zero-filled', PAD, fn.site, 'add_padding must zero-fill exactly the reserved padding bytes')



# ------------------------------------------------------------------------------------------------ user area layout (S7)

def layout_rules(fb, R):
    """S7: for EVERY length, the bytes reserved for the user name by the builders (constructor + set_user) equal the offset at
    which the readers expect the sub-items, the name (with its NUL) fits into them, and what is reserved is what is accounted."""
    from osmlint.c04_layout import V, Eval, Unknown, lengths, paths, compare
    RS, ADD = BLD + '::reserve_space', BLD + '::add_size'
    it = fb.enum('osmium::item_type')
    itvals = {}
    if it:
        for e in it.get('values', it.get('enumerators', [])):
            itvals[e['name']] = int(e['value'] if 'value' in e else e['v'])
    targets = []
    for fn in fb.fns('osmium::builder::OSMObjectBuilder::set_user') + fb.fns('osmium::builder::ChangesetBuilder::set_user'):
        if len(fn.params) == 2:
            targets.append(fn)
    if not targets:
        R.broken('S7: no set_user(const char*, size_t) body found')
        return
    seen = set()
    for fn in targets:
        T = fn.cls_targs[1] if fn.cls_targs and len(fn.cls_targs) > 1 else 'osmium::Changeset'
        key = '%s::set_user<%s>' % (fn.cls, T.rsplit('::', 1)[-1])
        if key in seen:
            continue
        seen.add(key)
        rcls = 'osmium::Changeset' if T == 'osmium::Changeset' else 'osmium::OSMObject'
        try:
            # bytes reserved by the constructor of this builder class (same numbers S3 verifies against the item size)
            ctors = [c for c in fb.fns(fn.cls + '::(ctor)') if c.cls_targs == fn.cls_targs]
            if not ctors:
                raise Unknown('constructor of %s not found' % fn.cls)
            c = ctors[0]
            base = [n for n in c.all_nodes() if n.get('k') == 'construct' and n.get('q') == BLD + '::(ctor)']
            r0 = c.const_value(base[0]['args'][2]) if base and len(base[0].get('args', [])) >= 3 else None
            extra = [c.const_value(n['args'][0]) for n in _calls(c, {RS}) if (c.sn(n.get('recv')) or {}).get('k') == 'this']
            if r0 is None or any(v is None for v in extra):
                raise Unknown('constructor sizes of %s' % fn.cls)
            ctor_total = r0 + sum(extra)
            readers_sub = [f for f in fb.fns(rcls + '::subitems_position')]
            readers_usr = [f for f in fb.fns(rcls + '::user') if not f.params]
            if not readers_sub or not readers_usr:
                raise Unknown('reader functions of %s' % rcls)
            tname = T.rsplit('::', 1)[-1].lower()
            if rcls == 'osmium::OSMObject' and tname not in itvals:
                raise Unknown('item_type value of %s' % T)
            lp = fn.params[1]['d']
            bad = None
            nruns = 0
            for L in lengths():
                over = {
                    'osmium::memory::detail::ItemHelper::data': V(0, 0, 1),
                    'osmium::builder::Builder::item_pos': V(0, 0, 1),
                }

                def on_call(ev, n, st, fn=fn):
                    q = n.get('q', '')
                    if q == RS and (fn.sn(n.get('recv')) or {}).get('k') == 'this':
                        st.setdefault('reserved', []).append(ev.ev(n['args'][0]))
                    elif q == ADD and (fn.sn(n.get('recv')) or {}).get('k') == 'this':
                        st.setdefault('added', []).append(ev.ev(n['args'][0]))
                    elif q.rsplit('::', 1)[-1] == 'set_user_size':
                        st.setdefault('usize', []).append(ev.ev(n['args'][0]))
                    elif q in ('memcpy', 'std::memcpy') and len(n.get('args', [])) == 3:
                        src = fn.sn(n['args'][1])
                        if src is not None and src.get('k') == 'var' and src.get('d') == fn.params[0]['d']:
                            st.setdefault('copy', []).append((ev.ev(n['args'][0]), ev.ev(n['args'][2])))
                over_w = dict(over)
                over_w['osmium::builder::OSMObjectBuilder::object'] = V(0, 0, 1)
                over_w['osmium::builder::ChangesetBuilder::object'] = V(0, 0, 1)
                ps = paths(fb, fn, {lp: L}, over_w, on_call)
                for st, _ev in ps:
                    nruns += 1
                    res = sum(st.get('reserved', []), V(0))
                    add = sum(st.get('added', []), V(0))
                    if len(st.get('usize', [])) != 1 or len(st.get('copy', [])) != 1:
                        raise Unknown('set_user_size / memcpy of the name not found once on a path of %s' % fn.full)
                    U = st['usize'][0]
                    dest, n_copied = st['copy'][0]
                    total = V(ctor_total) + res
                    over_r = dict(over)
                    over_r[rcls + '::user_size'] = U
                    over_r[('member', 'm_user_size')] = U
                    over_r['osmium::memory::Item::type'] = V(itvals.get(tname, 0))
                    rs_ = readers_sub[0]
                    ret = [x for x in rs_.all_nodes() if x.get('k') == 'return']
                    sub = Eval(fb, rs_, {}, over_r).ev(ret[0]['sub'])
                    ru = readers_usr[0]
                    ret = [x for x in ru.all_nodes() if x.get('k') == 'return']
                    usr = Eval(fb, ru, {}, over_r).ev(ret[0]['sub'])
                    if not (res == add):
                        bad = 'for length=%r set_user reserves %r more bytes but adds %r to the item sizes' % (L, res, add)
                    elif not (sub == V(0, 0, 1) + total):
                        bad = ('for length=%r the builder has reserved %r bytes for object+user name, but %s::subitems_position() '
                               '(user_size=%r) looks for tags/sub-items at offset %r' % (L, total, rcls, U, sub - V(0, 0, 1)))
                    elif not (dest == usr):
                        bad = 'the name is copied to offset %r but %s::user() reads it at %r' % (dest - V(0, 0, 1), rcls, usr - V(0, 0, 1))
                    elif not (n_copied == L):
                        bad = 'memcpy of the name copies %r bytes for length=%r' % (n_copied, L)
                    elif compare('<=', dest + n_copied + V(1), V(0, 0, 1) + total) is not True:
                        bad = 'for length=%r the name and its NUL end at offset %r, beyond the %r reserved bytes' % (L, dest + n_copied + V(1) - V(0, 0, 1), total)
                    if bad:
                        break
                if bad:
                    break
            if nruns == 0:
                raise Unknown('no normal path through %s' % fn.full)
            R.check(bad is None, 'S7-user-area-matches-reader-layout', key, fn.site, bad or '')
        except Unknown as e:
            R.broken('S7 %s: arithmetic not understood (%s)' % (key, e))


# ------------------------------------------------------------------------------------------------ committed / written discipline (B5, B6)

def commit_rules(fb, R):
    """B5: readers see committed data only (every iterator range a Buffer hands out ends at data+committed; add_buffer copies the
    committed part of its source).  B6: a builder finds its item again after ANY growth of the buffer: its stored offset is relative to
    the commit point, because Buffer::grow_internal() moves [committed, written) to the front of the new memory and sets committed = 0
    (rules B3-*), while growth by reallocation keeps committed and changes data()."""
    from osmlint.c04_layout import Sym, sym_eval, Unknown

    def who(fn, recv):
        if recv is None:
            return 'this'
        rv = fn.root_var(recv)
        if not rv or rv[0] == 'this':
            return 'this'
        return rv[2] if len(rv) > 2 else str(rv[1])

    # B5a
    n5 = 0
    for fn in fb.functions:
        if fn.cls != BUF or fn.is_lambda:
            continue
        for c in fn.all_nodes():
            if c.get('k') != 'construct' or 'ItemIterator' not in c.get('q', '') or len(c.get('args', [])) != 2:
                continue
            key = '%s#range' % fn.q
            try:
                b, e = sym_eval(fn, c['args'][0], who, fb=fb), sym_eval(fn, c['args'][1], who, fb=fb)
            except Unknown as ex:
                R.broken('B5 %s: %s' % (fn.full, ex))
                continue
            n5 += 1
            want_e = Sym({'data(this)': 1, 'committed(this)': 1})
            rest = b.add(Sym.of('data(this)'), -1)
            ok_b = rest == Sym() or rest == Sym.of('committed(this)') or (len(rest) == 1 and list(rest.values()) == [1] and str(list(rest)[0]).startswith('var:'))
            R.check(e == want_e and ok_b, 'B5-readers-see-committed-data-only', key, fn.loc(c['id']),
                    '%s hands out the range [%s, %s): a range over a buffer must start inside it and end at data + committed, '
                    'uncommitted (or rolled back) bytes are not part of the content' % (fn.q, b.text(), e.text()))
    # B5b
    for fn in fb.fns(BUF + '::add_buffer'):
        cps = [n for n in fn.all_nodes() if n.get('k') == 'call' and n.get('q') in ('std::copy_n', 'std::memcpy', 'memcpy', 'std::copy')]
        rss = _calls(fn, {BUF + '::reserve_space'})
        pn = fn.params[0]['name'] if fn.params else None
        key = BUF + '::add_buffer#copies-committed-part'
        try:
            if len(cps) != 1 or len(rss) != 1 or pn is None or cps[0]['q'] == 'std::copy':
                raise Unknown('shape of add_buffer')
            cp = cps[0]
            src, cnt = (cp['args'][0], cp['args'][1]) if cp['q'] == 'std::copy_n' else (cp['args'][1], cp['args'][2])
            fs, fc, fr = sym_eval(fn, src, who, fb=fb), sym_eval(fn, cnt, who, fb=fb), sym_eval(fn, rss[0]['args'][0], who, fb=fb)
            n5 += 1
            ok = fs == Sym.of('data(%s)' % pn) and fc == Sym.of('committed(%s)' % pn) and fr == fc
            R.check(ok, 'B5-readers-see-committed-data-only', key, fn.loc(cp['id']),
                    'add_buffer copies %s bytes from %s into %s reserved bytes: it must copy exactly the committed part of the source buffer'
                    % (fc.text(), fs.text(), fr.text()))
        except Unknown as ex:
            R.broken('B5 add_buffer: %s' % ex)
    if n5 < 8:
        R.broken('B5: only %d range/copy sites found in Buffer' % n5)

    # B6
    def who1(fn, recv):
        return 'buf'       # a Builder has exactly one buffer (m_buffer / the constructor parameter bound to it)
    ctors = fb.fns(BLD + '::(ctor)')
    ips = fb.fns(BLD + '::item_pos')
    if not ctors or not ips:
        R.broken('B6: Builder constructor / item_pos() not found')
        return
    try:
        inits = [n for n in ctors[0].all_nodes() if n.get('k') == 'init' and n.get('name') == 'm_item_offset']
        if len(inits) != 1:
            # assignment in the body
            raise Unknown('m_item_offset is not set by a constructor initialiser')
        f = sym_eval(ctors[0], inits[0]['init'], who1, fb=fb)
        # reserve_space must not precede the offset computation: initialisers run before the body; check no reserve in init exprs
        ip = ips[0]
        rets = [n for n in ip.all_nodes() if n.get('k') == 'return' and 'sub' in n]
        if len(rets) != 1:
            raise Unknown('item_pos() is not a single expression')
        g = sym_eval(ip, rets[0]['sub'], who1, members={'m_item_offset': 'off'}, fb=fb)
        at_ctor = g.subst('off', f)
        want1 = Sym({'data(buf)': 1, 'written(buf)': 1})
        after_internal = g.subst('committed(buf)', Sym()).subst('off', f)
        want2 = Sym({'data(buf)': 1, 'written(buf)': 1, 'committed(buf)': -1})
        R.check(at_ctor == want1, 'B6-builder-offset-survives-growth', BLD + '#item-at-construction', ip.site,
                'item_pos() = %s with m_item_offset = %s gives %s at construction; the new item starts at data + written' % (g.text(), f.text(), at_ctor.text()))
        R.check(after_internal == want2, 'B6-builder-offset-survives-growth', BLD + '#item-after-internal-growth', ip.site,
                'after Buffer::grow_internal() (uncommitted bytes moved to the front, committed = 0) item_pos() = %s with m_item_offset = %s '
                'gives %s, but the item now starts at %s: the stored offset must be relative to the commit point'
                % (g.text(), f.text(), after_internal.text(), want2.text()))
    except Unknown as ex:
        R.broken('B6: %s' % ex)


# ------------------------------------------------------------------------------------------------ capacity (B3c, B7) and atomic adds (S8)

def capacity_rules(fb, R):
    """B3c: when Buffer::reserve_space() hands out &m_data[m_written] and advances m_written, `m_written + size <= m_capacity` has been
    (re-)established after the LAST change of written/capacity: by the false outcome of that very test, or by grow(X) whose argument is shown
    to cover the request (B3-growth-target-covers-request).  grow_internal() establishes nothing.
    B7: every value stored into m_capacity is a multiple of the alignment (calculate_capacity result, a parameter whose misalignment throws,
    another buffer's capacity, or 0).
    S8: a builder method that validates its arguments by throwing does so before it writes anything (a rejected tag leaves the list unchanged)."""
    methods = [f for f in fb.functions if f.cls == BUF and not f.is_lambda]

    def is_fits_test(fn, cid, pd):
        """condition `m_written + <param> > m_capacity` (any spelling): returns the index of the successor edge on which the request FITS"""
        cid = _named(fn, cid)
        cn = fn.sn(cid)
        if cn is not None and cn.get('k') == 'unop' and cn.get('op') == '!':
            inner = is_fits_test(fn, cn['sub'], pd)
            return None if inner is None else 1 - inner
        if cn is None or cn.get('k') != 'binop' or cn['op'] not in ('>', '<', '>=', '<='):
            return None

        def is_par(nid):
            v = fn.sn(_named(fn, nid))
            return v is not None and v.get('k') == 'var' and v.get('d') in pd

        def is_free(nid):      # m_capacity - m_written
            o = fn.sn(_named(fn, nid))
            return o is not None and o.get('k') == 'binop' and o['op'] == '-' and this_field(fn, o['lhs'], 'm_capacity') and this_field(fn, o['rhs'], 'm_written')
        if is_free(cn['lhs']) and is_par(cn['rhs']):      # free OP size : fits when free >= size
            return {'<': 1, '>=': 0}.get(cn['op'])
        if is_par(cn['lhs']) and is_free(cn['rhs']):      # size OP free : fits when size <= free
            return {'>': 1, '<=': 0}.get(cn['op'])

        def is_sum(nid):
            nid = _named(fn, nid)
            o = fn.sn(nid)
            if o is None or o.get('k') != 'binop' or o['op'] != '+':
                return False
            fa, fb_ = this_field(fn, o['lhs']), this_field(fn, o['rhs'])
            va, vb = fn.sn(o['lhs']), fn.sn(o['rhs'])
            pa = va is not None and va.get('k') == 'var' and va.get('d') in pd
            pb = vb is not None and vb.get('k') == 'var' and vb.get('d') in pd
            return (fa == 'm_written' and pb) or (fb_ == 'm_written' and pa)
        l_cap, r_cap = this_field(fn, cn['lhs'], 'm_capacity'), this_field(fn, cn['rhs'], 'm_capacity')
        if is_sum(cn['lhs']) and r_cap:       # sum OP cap
            return {'>': 1, '<=': 0}.get(cn['op'])
        if l_cap and is_sum(cn['rhs']):       # cap OP sum
            return {'<': 1, '>=': 0}.get(cn['op'])
        return None

    n = 0
    for fn in fb.fns(BUF + '::reserve_space'):
        pd = {p_['d'] for p_ in fn.params}
        adv = [x for x in fn.all_nodes() if x.get('k') == 'assign' and x.get('op') in ('+=', '=') and this_field(fn, x['lhs'], 'm_written')]
        if len(adv) != 1:
            R.broken('B3c: reserve_space does not advance m_written exactly once')
            continue
        target = adv[0]['id']

        def establishing_helpers(host, host_pd, depth=0):
            """calls in `host` to a Buffer helper that receives the size parameter and (re-)establishes the capacity on every normal path"""
            out = set()
            if depth > 1:
                return out
            for c_ in host.all_nodes():
                if c_.get('k') != 'call' or not (c_.get('q') or '').startswith(BUF + '::') or c_.get('q') in (BUF + '::grow', BUF + '::grow_internal'):
                    continue
                if (host.sn(c_.get('recv')) or {'k': 'this'}).get('k') != 'this':
                    continue
                for ai, a_ in enumerate(c_.get('args', [])):
                    av = host.sn(_named(host, a_))
                    if av is None or av.get('k') != 'var' or av.get('d') not in host_pd:
                        continue
                    for h in fb.fns(c_['q']):
                        if len(h.params) <= ai or h.usr == host.usr:
                            continue
                        hpd = {h.params[ai]['d']}
                        hgrows = {g['id'] for g in h.all_nodes() if g.get('k') == 'call' and g.get('q') == BUF + '::grow'} | establishing_helpers(h, hpd, depth + 1)
                        hmods = [g for g in h.all_nodes() if g.get('k') == 'call' and g.get('q') == BUF + '::grow_internal']

                        def h_edge(b, idx, s_, h=h, hpd=hpd):
                            blk = h.blocks[b]
                            if 'cond' in blk and len(blk['succs']) == 2:
                                fits = is_fits_test(h, blk['cond'], hpd)
                                if fits is not None and idx == fits:
                                    return False
                            return True

                        def h_bar(e, h=h, hgrows=hgrows):
                            return (not isinstance(e, tuple)) and (e in hgrows or _is_throw_or_noreturn(h, e))
                        ok_h = path_search(h, h.entry, exit_t, h_bar, h_edge, from_block_start=True) is None
                        for m_ in hmods:
                            ok_h = ok_h and path_search(h, m_['id'], exit_t, h_bar, h_edge) is None
                        if ok_h:
                            out.add(c_['id'])
            return out
        grows = {g['id'] for g in fn.all_nodes() if g.get('k') == 'call' and g.get('q') == BUF + '::grow'} | establishing_helpers(fn, pd)
        modifiers = [g for g in fn.all_nodes() if g.get('k') == 'call' and g.get('q') in (BUF + '::grow_internal',)]

        def edge_ok(b, idx, s_, fn=fn, pd=pd):
            blk = fn.blocks[b]
            if 'cond' in blk and len(blk['succs']) == 2:
                fits = is_fits_test(fn, blk['cond'], pd)
                if fits is not None and idx == fits:
                    return False          # the request fits on this edge: established
            return True

        def barrier(e, grows=grows, fn=fn):
            return (not isinstance(e, tuple)) and (e in grows or _is_throw_or_noreturn(fn, e))
        n += 1
        w = path_search(fn, fn.entry, lambda e: e == target, barrier, edge_ok, from_block_start=True)
        R.check(w is None, 'B3-capacity-established-before-reservation', BUF + '::reserve_space#from-entry', fn.site,
                'reserve_space() can reach `m_written += size` without having tested m_written + size <= m_capacity or grown to a covering capacity: %s'
                % describe_path(fn, w))
        for m in modifiers:
            n += 1
            w = path_search(fn, m['id'], lambda e: e == target, barrier, edge_ok)
            R.check(w is None, 'B3-capacity-established-before-reservation', BUF + '::reserve_space#after-grow_internal', fn.loc(m['id']),
                    'after grow_internal() (which only moves the uncommitted bytes to a fresh block of the SAME capacity) the request is not re-tested '
                    'against m_capacity before `m_written += size`: a request larger than what the internal growth freed overflows the block: %s'
                    % describe_path(fn, w))
    if n == 0:
        R.broken('B3c: Buffer::reserve_space not found')

    # B7
    n7 = 0
    for fn in methods:
        stores = []
        for x in fn.all_nodes():
            if x.get('k') == 'init' and x.get('name') == 'm_capacity':
                stores.append((x['id'], x.get('init')))
            elif x.get('k') == 'assign' and x.get('op') == '=' and this_field(fn, x['lhs'], 'm_capacity'):
                stores.append((x['id'], x['rhs']))
        pd = {p_['d']: p_ for p_ in fn.params}
        for (sid, rhs) in stores:
            if rhs is None:
                continue
            why = fn.expr(rhs)
            rhs = _named(fn, rhs)
            r = fn.sn(rhs)
            n7 += 1
            ok = False
            if r is None:
                ok = False
            elif fn.const_value(rhs) == 0:
                ok = True
            elif r.get('k') == 'call' and r.get('q') in (BUF + '::calculate_capacity', 'osmium::memory::padded_length'):
                ok = True
            elif r.get('k') == 'call' and r.get('q') == 'std::exchange':
                ok = True     # move: the other buffer's capacity (B2 checks the member pairing)
            elif r.get('k') == 'member' and r.get('name') == 'm_capacity':
                ok = True     # another buffer's capacity
            elif r.get('k') == 'var' and r.get('d') in pd:
                d = r['d']

                # (a) misalignment of the parameter throws (in this function or in a Buffer helper the parameter is handed to)
                def misalign_throws(g, dd, depth=0):
                    for b in g.blocks.values():
                        if 'cond' not in b or len(b['succs']) != 2:
                            continue
                        cn = g.sn(b['cond'])
                        uses = [g.nodes[y] for y in g.subtree(b['cond']) if g.nodes[y].get('k') == 'var' and g.nodes[y].get('d') == dd]
                        mods = [g.nodes[y] for y in g.subtree(b['cond']) if g.nodes[y].get('k') == 'binop' and g.nodes[y].get('op') == '%']
                        if uses and mods and cn is not None and cn.get('k') == 'binop' and cn.get('op') in ('!=', '=='):
                            tb = b['succs'][0] if cn['op'] == '!=' else b['succs'][1]
                            if tb is not None and any(g.nodes[e].get('k') == 'throw' for e in g.blocks[tb]['elems']):
                                return True
                    if depth < 2:
                        for c_ in g.all_nodes():
                            if c_.get('k') != 'call' or not (c_.get('q') or '').startswith(BUF + '::'):
                                continue
                            for ai, a_ in enumerate(c_.get('args', [])):
                                av = g.sn(a_)
                                if av is not None and av.get('k') == 'var' and av.get('d') == dd:
                                    for h in fb.fns(c_['q']):
                                        if len(h.params) > ai and misalign_throws(h, h.params[ai]['d'], depth + 1):
                                            return True
                    return False
                if misalign_throws(fn, d):
                    ok = True
                # (b) the parameter was re-assigned from calculate_capacity before the store
                for a in fn.all_nodes():
                    if a.get('k') == 'assign' and a.get('op') == '=' and (fn.sn(a['lhs']) or {}).get('k') == 'var' and fn.sn(a['lhs']).get('d') == d:
                        ra = fn.sn(a['rhs'])
                        if ra is not None and ra.get('k') == 'call' and ra.get('q') in (BUF + '::calculate_capacity', 'osmium::memory::padded_length') \
                                and fn.elem_dominates(a['id'], sid):
                            ok = True
            R.check(ok, 'B7-capacity-is-aligned', '%s#m_capacity' % fn.q, fn.loc(sid),
                    '%s stores `%s` into m_capacity without aligning it (calculate_capacity) or rejecting a misaligned value: a capacity that is not '
                    'a multiple of align_bytes makes a later grow_internal() throw std::invalid_argument in the middle of a build' % (fn.q, why))
    if n7 < 4:
        R.broken('B7: only %d stores to Buffer::m_capacity found' % n7)

    # S8
    builder_classes = {r.q for r in fb.records if BLD in r.allbases} | {BLD}
    WRITES = {BLD + '::append', BLD + '::append_with_zero', BLD + '::reserve_space', BLD + '::reserve_space_for', BLD + '::add_size', BLD + '::add_padding',
              BLD + '::add_item'}
    n8 = 0
    for fn in fb.functions:
        if fn.cls not in builder_classes or fn.is_lambda or fn.kind in ('ctor', 'dtor'):
            continue
        throws = {x['id'] for x in fn.all_nodes() if x.get('k') == 'throw' and 'length_error' in (x.get('tt') or '')}
        writes = [x for x in fn.all_nodes() if x.get('k') == 'call' and x.get('q') in WRITES]
        if not throws or not writes:
            continue
        n8 += 1
        bad = None
        for wr in writes:
            w = path_search(fn, wr['id'], lambda e: e in throws, lambda e: False)
            if w is not None:
                bad = (wr, w)
                break
        R.check(bad is None, 'S8-validate-before-write', fn.q, fn.site if bad is None else fn.loc(bad[0]['id']),
                '%s writes into the buffer (%s) and can afterwards still reject its arguments with std::length_error: the caller who catches the '
                'exception and goes on is left with a half-written entry (odd number of strings in a tag list)'
                % (fn.q, '' if bad is None else fn.expr(bad[0]['id'])[:60]))
    if n8 < 3:
        R.broken('S8: only %d validating builder methods found' % n8)

# ------------------------------------------------------------------------------------------------ purge_removed

def purge_rules(fb, R):
    fns = fb.fns(BUF + '::purge_removed')
    if len(fns) < 2:
        R.broken('expected both Buffer::purge_removed variants, found %d' % len(fns))
        return
    shapes = []
    for fn in fns:
        variant = 'callback' if fn.params else 'plain'
        key = '%s#%s' % (fn.q, variant)
        mm = [n for n in fn.all_nodes() if n.get('k') == 'call' and n.get('q') in ('std::memmove', 'memmove')]
        if len(mm) != 1:
            R.bad('P1-purge-moves-items', key, fn.site, 'expected exactly one memmove in purge_removed, found %d' % len(mm))
            continue
        m = mm[0]
        dst = fn.root_var(m['args'][0])
        src = fn.root_var(m['args'][1])
        ok = dst is not None and src is not None and dst != src and dst[0] == 'var' and src[0] == 'var'
        # guarded by (src != dst) and !removed
        gs = guards_of(fn, m['id'])
        neq = False
        notrem = False
        for (c, sense, _b) in gs:
            x = fn.sn(c)
            if x is None:
                continue
            if x.get('k') == 'call' and x.get('op') == '!=' and sense:
                vs = {fn.root_var(x.get('recv')), fn.root_var(x['args'][0]) if x.get('args') else None}
                if vs == {dst, src}:
                    neq = True
            if x.get('k') == 'call' and x.get('q', '').endswith('::removed') and not sense:
                notrem = True
        R.check(ok and neq and notrem, 'P1-purge-moves-items', key, fn.loc(m['id']),
                'memmove in purge_removed must move a non-removed item from the read position to a different write position '
                '(guards: read!=write %s, !removed %s)' % (neq, notrem))
        if not ok:
            continue
        # size moved = padded_size of the read item
        cnt = fn.sn(m['args'][2])
        okc = cnt is not None and cnt.get('k') == 'call' and cnt.get('q', '').endswith('::padded_size') and fn.root_var(cnt['recv']) == src
        R.check(okc, 'P1-purge-moves-whole-item', key, fn.loc(m['id']), 'purge_removed must move padded_size() bytes of the item being read')
        # P2: no read through the read iterator after the move until it is re-assigned
        srcd = src[1]

        def is_src_use(e):
            if isinstance(e, tuple):
                return False
            n = fn.nodes[e]
            if n.get('k') != 'var' or n['d'] != srcd:
                return False
            p = fn.parent_map().get(e)
            pn = fn.nodes.get(p) if p is not None else None
            # re-assignment target: it_read = next
            if pn is not None and ((pn.get('k') == 'call' and pn.get('op') == '=' and fn.strip(pn.get('recv')) == e) or
                                   (pn.get('k') == 'assign' and fn.strip(pn['lhs']) == e)):
                return False
            return True

        def is_src_kill(e):
            if isinstance(e, tuple):
                return False
            n = fn.nodes[e]
            if n.get('k') == 'call' and n.get('op') == '=' and n.get('recv') is not None:
                r = fn.sn(n['recv'])
                return r is not None and r.get('k') == 'var' and r['d'] == srcd
            if n.get('k') == 'assign' and n['op'] == '=':
                l = fn.sn(n['lhs'])
                return l is not None and l.get('k') == 'var' and l['d'] == srcd
            return False
        w = path_search(fn, m['id'], is_src_use, is_src_kill)
        R.check(w is None, 'P2-no-read-after-move', key, fn.loc(m['id']),
                'after the memmove the read iterator is used again before it is re-assigned (%s): the move may have overwritten the item '
                'header it points to (overlapping ranges), so the next position must be computed before the move' % describe_path(fn, w))
        # callback before move
        if variant == 'callback':
            cb = [n for n in fn.all_nodes() if n.get('k') == 'call' and n.get('name', n.get('q', '')).endswith('moving_in_buffer')]
            okcb = len(cb) == 1 and fn.elem_dominates(cb[0]['id'], m['id']) and fn.positions()[cb[0]['id']][0] == fn.positions()[m['id']][0]
            R.check(okcb, 'P1-callback-before-move', key, fn.loc(m['id']),
                    'moving_in_buffer(old, new) must be called exactly once, immediately before the memmove of the same item (same guarded block)')
            if okcb:
                a0 = fn.expr(cb[0]['args'][0])
                a1 = fn.expr(cb[0]['args'][1])
                # old offset derives from the read iterator, new offset from the write iterator
                def var_roots(nid):
                    out = set()
                    stack = [nid]
                    seen = set()
                    while stack:
                        x = stack.pop()
                        if x in seen:
                            continue
                        seen.add(x)
                        n = fn.nodes.get(x)
                        if n is None:
                            continue
                        if n.get('k') == 'var':
                            if n['d'] in (src[1], dst[1]):
                                out.add(n['d'])
                            else:
                                # follow local initialisers
                                for dn in fn.all_nodes():
                                    if dn.get('k') == 'decl':
                                        for v in dn['vars']:
                                            if v['d'] == n['d'] and isinstance(v.get('init'), int):
                                                stack.append(v['init'])
                        stack.extend(fn.children(x))
                    return out
                r0 = var_roots(cb[0]['args'][0])
                r1 = var_roots(cb[0]['args'][1])
                R.check(r0 == {src[1]} and r1 == {dst[1]}, 'P1-callback-offsets', key, fn.loc(cb[0]['id']),
                        'moving_in_buffer must receive (offset of the read position, offset of the write position); got (%s, %s)' % (a0[:40], a1[:40]))
        # P3: counters
        asg = _assigned_fields(fn)
        wr = [a for a in asg if a[1] == ('this', 'm_written')]
        cm = [a for a in asg if a[1] == ('this', 'm_committed')]
        okw = len(wr) == 1 and dst in {fn.root_var(x) for x in fn.subtree(wr[0][2]['rhs']) if fn.nodes[x].get('k') == 'var'} if wr and wr[0][2].get('k') == 'assign' else False
        okm = False
        if len(cm) == 1 and cm[0][2].get('k') == 'assign':
            rhs = fn.sn(cm[0][2]['rhs'])
            okm = (rhs is not None and rhs.get('k') == 'member' and rhs['name'] == 'm_written' and okw and fn.elem_dominates(wr[0][0], cm[0][0])) or \
                (dst in {fn.root_var(x) for x in fn.subtree(cm[0][2]['rhs']) if fn.nodes[x].get('k') == 'var'})
        R.check(okw and okm, 'P3-counters-from-write-iterator', key, fn.site,
                'purge_removed must set both m_written and m_committed from the final write position (m_written ok=%s, m_committed ok=%s)' % (okw, okm))
        # write iterator advances exactly for kept items
        adv = [n for n in fn.all_nodes() if n.get('k') == 'call' and n.get('q', '').endswith('::advance_once') and fn.root_var(n.get('recv')) == dst]
        oka = len(adv) == 1
        if oka:
            gs = guards_of(fn, adv[0]['id'])
            oka = any((fn.sn(c) or {}).get('q', '').endswith('::removed') and not sense for (c, sense, _b) in gs) and \
                not any((fn.sn(c) or {}).get('op') == '!=' and {fn.root_var((fn.sn(c) or {}).get('recv')), fn.root_var(fn.sn(c)['args'][0]) if (fn.sn(c) or {}).get('args') else None} == {dst, src}
                        for (c, sense, _b) in gs)
        R.check(oka, 'P3-write-iterator-advances-per-kept-item', key, fn.site,
                'the write iterator must advance exactly once for every non-removed item (moved or not)')
        shapes.append((variant, sorted(n.get('q', n.get('name', '')) for n in fn.all_nodes() if n.get('k') == 'call' and
                                        not n.get('q', n.get('name', '')).endswith('moving_in_buffer') and '__assert' not in n.get('q', ''))))
    if len(shapes) == 2:
        a, b = shapes[0][1], shapes[1][1]
        # the callback variant may compute two extra offsets (data() calls / operator-) ; everything else must agree
        sa, sb = set(a), set(b)
        diff = (sa ^ sb) - {BUF + '::data', 'osmium::memory::ItemIterator::data'}
        R.check(not diff, 'P4-purge-siblings-agree', BUF + '::purge_removed#siblings', fns[0].site,
                'the two purge_removed variants differ in more than the callback: %s' % sorted(diff))


# ------------------------------------------------------------------------------------------------ witnesses

def witness_rules(fb, R):
    def method(rec, pred):
        return [m for m in rec.methods if pred(m)]
    for q in (BUF, BLD, 'osmium::memory::Item'):
        rec = fb.record(q)
        if rec is None:
            R.broken('record %s not found' % q)
            continue
        cc = method(rec, lambda m: m.get('copy'))
        ca = method(rec, lambda m: m.get('copyassign'))
        ok = bool(cc) and all(m.get('deleted') for m in cc) and bool(ca) and all(m.get('deleted') for m in ca)
        R.check(ok, 'T1-not-copyable', q, '%s:%d' % (rec.file, rec.line), '%s must have deleted copy constructor and copy assignment' % q)
    rec = fb.record(BLD)
    if rec is not None:
        mc = [m for m in rec.methods if m.get('move')]
        ma = [m for m in rec.methods if m.get('moveassign')]
        ok = bool(mc) and all(m.get('deleted') for m in mc) and bool(ma) and all(m.get('deleted') for m in ma)
        R.check(ok, 'T1-builder-not-movable', BLD, '%s:%d' % (rec.file, rec.line), 'Builder must not be movable (sub-builders keep a pointer to their parent)')
    for (q, names) in (('osmium::memory::Item', ('add_size',)), ('osmium::ChangesetComment', ('set_user_size', 'set_text_size')),
                       ('osmium::RelationMember', ('set_role_size',))):
        rec = fb.record(q)
        if rec is None:
            R.broken('record %s not found' % q)
            continue
        for nm in names:
            ms = [m for m in rec.methods if m['name'] == nm]
            R.check(bool(ms) and all(m.get('access') != 'public' for m in ms), 'T1-size-setter-not-public', '%s::%s' % (q, nm),
                    '%s:%d' % (rec.file, rec.line), '%s::%s must not be publicly callable (sizes are maintained by the builders only)' % (q, nm))


def all_rules(fb, R):
    stale_rules(fb, R)
    buffer_rules(fb, R)
    size_rules(fb, R)
    layout_rules(fb, R)
    commit_rules(fb, R)
    capacity_rules(fb, R)
    purge_rules(fb, R)
    witness_rules(fb, R)


def run(ctx):
    R = ctx.R
    configs = ['ndebug14'] if ctx.tier == 'quick' else ['ndebug14', 'debug14', 'ndebug17', 'debug17']
    for cfg in configs:
        fb = ctx.facts(['core', 'io_read', 'relarea'], cfg)
        all_rules(fb, R)
    if ctx.tier == 'thorough':
        # every test/example unit of the repository's own build: other instantiations of the same templates
        units = ctx.build_units(['builder', 'memory', 'io', 'area', 'relations', 'storage', 'examples', 'osm'])
        n = 0
        for _p, fb in ctx.each_unit_facts(units):
            stale_rules(fb, R)
            n += 1
        R.note('thorough: STALE rules also applied to %d of %d test/example units of the build' % (n, len(units)))
    R.expect('STALE-L', 40)
    R.expect('STALE-F', 0)  # after the F1 fix no builder keeps a pointer member into the buffer; the positive example keeps the rule alive
    R.expect('B1-data-follows-memory', 4)
    R.expect('B2-memberwise-complete', 21)
    R.expect('B2-moved-from-reset', 8)
    R.expect('B3-grow-copies-old-content', 1)
    R.expect('B3-grow_internal-order', 2)
    R.expect('B3-grow_internal-needs-committed-data', 1)
    R.expect('B3-growth-target-covers-request', 1)
    R.expect('S1-add_size-self-and-ancestors', 1)
    R.expect('S2-builder-ctor-accounts-initial-size', 1)
    R.expect('S3-ctor-own-size', 6)
    R.expect('S3-ctor-ancestor-size', 6)
    R.expect('S4-appended-bytes-accounted', 6)
    R.expect('S4-reserved-object-accounted', 3)
    R.expect('S4-reserved-bytes-accounted', 2)
    R.expect('S7-user-area-matches-reader-layout', 5)
    R.expect('B5-readers-see-committed-data-only', 7)
    R.expect('B6-builder-offset-survives-growth', 2)
    R.expect('B3-capacity-established-before-reservation', 1)
    R.expect('B7-capacity-is-aligned', 3)
    R.expect('S8-validate-before-write', 3)
    R.expect('S5-destructor-pads', 4)
    R.expect('S5-variable-member-padded', 2)
    R.expect('P1-purge-moves-items', 2)
    R.expect('P2-no-read-after-move', 2)
    R.expect('P3-counters-from-write-iterator', 2)
    R.expect('T1-not-copyable', 3)
    R.expect('T1-size-setter-not-public', 4)


def _self(fb, R):
    all_rules(fb, R)


SELFTESTS = [
    ('STALE-L', 'c04_builder.cpp', _self),
    ('STALE-F', 'c04_builder.cpp', _self),
    ('B1-data-follows-memory', 'c04_builder.cpp', _self),
]
