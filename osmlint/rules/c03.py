"""C03 -- malformed or hostile input never causes memory errors, aborts or hangs: presence and placement of the
protective mechanisms the property's anchors name (GUARD table G1-G9), NUL-layout agreement, builder-protocol typestate of
the XML state machine, who-may-abort, thrown types.

What a rule instance is: one *required* protection (a row of the guard table applied to one construct).  Instances are
keyed by the protected construct, so a deleted guard is a violated instance (exit 1), not a missing one.

 G1  every element access of the PBF string table member is `.at()`; std::out_of_range cannot leave
     PBFPrimitiveBlockDecoder::operator() (it is mapped to pbf_error)
 G2  every insertion into the string table passes `size > max_osm_string_length -> reject` first
 G3  every append of a caller-supplied string in a builder method passes a length bound first (bound <= what the size
     field written next to it can hold)
 G4  blob acceptance: raw data size, raw_size range, BlobHeader size on both input paths, datasize != 0, blob size before
     resize/append
 G5  o5m: derived section ends are compared with the dataset end before use; ReferenceTable::get / add bounds; dataset
     length and type byte are covered by ensure_bytes_available; header bytes are available before the magic is read;
     cursor dereferences in the decode_* functions are end-checked since the last advance (must-dataflow, interprocedural
     through entry preconditions)
 G6  member type conversions are range-checked (PBF cast, o5m index, XML / OPL allowed set)
 G7  expat boundary: registered callbacks are noexcept and nothing can escape their bodies; the catch-all stores the
     exception and stops the parser; an entity-declaration handler is registered and always throws; the XML_Parse error
     branch rethrows the stored exception before constructing its own
 G8  every throw in the reader / builder / osm / memory code throws a type derived from std::exception
 G9  next_utf8_codepoint: the length test precedes every advance-and-read, each case reads exactly its length
 NUL every parser call of a length-carrying TagListBuilder::add_tag overload is NUL-safe (overload rejects interior NUL,
     or the argument provably has none)                                             -> F4 expected on the pristine tree
 TS  XML state machine: add_comment obligation closed at the end of the element that opened it, closer cannot run a
     second time; sibling sub-builders are reset before another one is opened / used; end handlers reset every
     sub-builder before the object builder and commit afterwards                    -> F3 expected on the pristine tree
 A1  abort / terminate / exit call sites are the frozen who-may-call list
 A2  noexcept functions (incl. destructors) in the closure of the four parsers cannot let an exception out of their body
     (that would be std::terminate on hostile input)

Not decided (other technique families): absence of out-of-bounds accesses in general, protozero's own varint bounds,
termination / hangs, equivalence of assert-on and NDEBUG builds, decompressor internals (C09), STALE-L/F (run by C04).
"""
from ..c03_util import (classify_edges, upper_bound, lower_bound, equals, truthy, reaches_unchecked, describe, roots,
                        local_roots, starts_for, definitions, elem_of, sig, var_name, cmp_parts, strip_not)
from ..excflow import Esc, catch_alls, handler_entry_block, must_pass
from ..errdisc import guards
from ..flow import path_search

KNOWN = [
    # (rule, key, explanation) -- genuine defects of the pristine tree (DESIGN.md section 7), reported with R.bad
    ('NUL-tag-strings-have-no-interior-nul',
     'osmium::io::detail::PBFPrimitiveBlockDecoder::build_tag_list#add_tag(char*,size_t,char*,size_t)',
     'F4: a PBF string-table entry with an interior NUL ("a\\0b") used as tag key/value is copied with its length by '
     'add_tag(ptr,len,ptr,len); Tag::next() walks by strchr and desynchronises, running off the buffer'),
    ('NUL-tag-strings-have-no-interior-nul',
     'osmium::io::detail::PBFPrimitiveBlockDecoder::build_tag_list_from_dense_nodes#add_tag(char*,size_t,char*,size_t)',
     'F4: same for dense-node tags'),
    ('TS-comment-obligation-closed',
     'osmium::io::detail::XMLParser::end_element#context::comment:add_comment',
     'F3: <comment> without <text>: add_comment is never followed by add_comment_text, the comment keeps text_size 0 and no '
     'padding; traversing the delivered changeset leaves the item (segfault with NDEBUG, assert otherwise)'),
    ('TS-comment-closer-once',
     'osmium::io::detail::XMLParser::end_element#context::text:add_comment_text',
     'F3: <comment> with two <text> children: the second add_comment_text dereferences m_comment == nullptr'),
]

EXPLANATION = (
    'Decided: presence and placement of the named guards. PBF: string table element access is .at() and out_of_range is mapped '
    'inside operator(); string-table entries, blobs, blob headers and raw_size are bounded before allocation/insertion. Builders: '
    'every caller-supplied string append is length-checked against a bound its size field can hold. o5m: section ends, reference '
    'table get/add, dataset length, header bytes, and every cursor dereference in decode_* is end-checked since the last advance on all '
    'CFG paths. Member-type conversions are range checked in all four parsers. Expat callbacks are noexcept with nothing escaping, '
    'entity declarations are rejected, the stored exception is rethrown first. Every throw statement throws a std::exception-derived '
    'type. Tag strings handed to length-carrying add_tag overloads are NUL-free or rejected (F4 known). The XML state machine closes '
    'the add_comment obligation, resets sibling sub-builders and closes builders in order (F3 known). abort/exit call sites are the '
    'frozen list; noexcept functions in the parser closures cannot leak exceptions. '
    'NOT decided: absence of out-of-bounds reads in general, termination, assert-on/off equivalence, decompression libraries, '
    'protozero internals, use-after-relocation (checked by C04 STALE).')
ASSUMPTIONS = ['protozero (varint / length-delimited views) bounds-checks against the end pointer it is given',
               'std::vector::at throws std::out_of_range; expat calls only the registered callbacks',
               'bodies outside include/osmium (std, protozero, expat, zlib) do not throw types outside std::exception',
               'the driver instantiation set (io_read, core) covers the reader code']

PBD = 'osmium::io::detail::PBFPrimitiveBlockDecoder'
PBFP = 'osmium::io::detail::PBFParser'
O5M = 'osmium::io::detail::O5mParser'
RT = 'osmium::io::detail::ReferenceTable'
XMLP = 'osmium::io::detail::XMLParser'
EXPAT = XMLP + '::ExpatXMLParser'
BUILDER = 'osmium::builder::Builder'
U16 = 0xffff
U32 = 0xffffffff


def _exit_t(e):
    return isinstance(e, tuple) and e[0] == 'exit'


def _is_this_field(fn, nid, name=None):
    n = fn.sn(nid)
    return n is not None and n.get('k') == 'member' and n.get('field') and fn.is_this_member(nid) and (name is None or n['name'] == name)


def _recv_field(fn, c):
    """name of the this-field a call is made on (through implicit casts / smart-pointer operator->), else None."""
    r = c.get('recv')
    hops = 0
    while r is not None and hops < 6:
        hops += 1
        n = fn.sn(r)
        if n is None:
            return None
        if n.get('k') == 'member' and n.get('field') and fn.is_this_member(r):
            return n['name']
        if n.get('k') == 'call' and n.get('op') in ('->', '*') and n.get('recv') is not None:
            r = n['recv']
            continue
        if n.get('k') == 'unop' and n.get('op') == '*':
            r = n['sub']
            continue
        return None
    return None


def _const_le(limit):
    def f(fn, nid):
        v = fn.const_value(nid)
        return v is not None and 0 <= v <= limit
    return f


def _rooted_in(want):
    """expression reads at least one of the wanted roots and no other local storage."""
    def f(fn, nid):
        r = local_roots(fn, nid)
        return bool(r) and r <= want
    return f


def _method_name(q):
    return q.rsplit('::', 1)[-1]


# ------------------------------------------------------------------------------------------------ G1 / G2 string table

_ELEM_BAD = ('operator[]', 'front', 'back', 'data', 'begin', 'end', 'cbegin', 'cend', 'rbegin', 'rend', 'crbegin', 'crend')
_INSERT = ('emplace_back', 'push_back', 'insert', 'emplace', 'resize', 'assign')
_NEUTRAL = ('empty', 'size', 'clear', 'reserve', 'capacity', 'shrink_to_fit', 'max_size')


def g1_g2_stringtable(fb, R, esc):
    rec = fb.record(PBD)
    if rec is None:
        R.broken('record %s not found' % PBD)
        return
    fields = [f for f in rec.fields if f['tC'].startswith('std::vector<std::pair<const char *')]
    if len(fields) != 1:
        R.broken('%s: cannot identify the string table member by type (found %d candidates)' % (PBD, len(fields)))
        return
    F = fields[0]['name']
    n_at = 0
    for fn in fb.functions:
        if fn.cls != PBD or not fn.has_cfg:
            continue
        members = {n['id'] for n in fn.all_nodes() if n.get('k') == 'member' and n.get('field') and n['name'] == F and fn.is_this_member(n['id'])}
        if not members:
            continue
        used = {}
        for c in fn.all_nodes():
            if c.get('k') == 'call' and c.get('recv') is not None and 'q' in c:
                r = fn.strip(c['recv'])
                if r in members:
                    used[r] = c
        bad = []
        elem = False
        for m in sorted(members):
            c = used.get(m)
            if c is None:
                if fn.kind == 'ctor':
                    continue
                bad.append('%s escapes as a plain reference at %s' % (F, fn.loc(m)))
                elem = True
                continue
            name = _method_name(c['q'])
            if name == 'at':
                elem = True
                n_at += 1
            elif name in _ELEM_BAD:
                elem = True
                bad.append('unchecked %s.%s at %s' % (F, name, fn.loc(c['id'])))
            elif name in _INSERT:
                _g2_insert(fb, R, fn, c, F)
            elif name not in _NEUTRAL:
                R.broken('%s: unknown operation %s on the string table member' % (fn.q, c['q']))
        if elem:
            R.check(not bad, 'G1-stringtable-access-is-at', '%s#%s-element-access' % (fn.q, F), fn.site,
                    'string ids come from the file: every element access of %s must be .at() (bounds-checked); %s' % (F, '; '.join(bad)))
    if n_at == 0:
        R.note('G1: no .at() access of the string table found')
    # out_of_range mapped inside operator()
    ops = fb.fns(PBD + '::operator()')
    if not ops:
        R.broken('%s::operator() not found' % PBD)
    for fn in ops:
        e = esc.body_escapes(fn)
        w = e.get('std::out_of_range')
        R.check(w is None, 'G1-out_of_range-mapped', fn.q + '#std::out_of_range', fn.site,
                'std::out_of_range (thrown by %s.at() for a string id outside the table) can leave %s unmapped: %s'
                % (F, fn.q, esc.chain(w, 'std::out_of_range') if w is not None else ''))
        # the mapping handler itself must throw a std::exception-derived type (not swallow): handled by G8 for the throw;
        # here: a typed handler for out_of_range / logic_error / exception (or catch-all) exists and does not return normally
        hs = [(t, h) for t in fn.tries for h in t['handlers']
              if h.get('all') or (h.get('typeq') or h.get('type')) in ('std::out_of_range', 'std::logic_error', 'std::exception')]
        ok = bool(hs)
        for (t, h) in hs:
            b = handler_entry_block(fn, h)
            if b is None:
                ok = False
                continue
            w2 = path_search(fn, b, _exit_t, lambda x: fn.nodes.get(x, {}).get('k') == 'throw', from_block_start=True)
            ok = ok and w2 is None
        R.check(ok, 'G1-out_of_range-mapped', fn.q + '#handler-throws', fn.site,
                '%s must catch std::out_of_range and leave the handler only by throwing (a swallowed error would deliver a half-built buffer)' % fn.q)


def _g2_insert(fb, R, fn, c, F):
    subj = set()
    for a in c.get('args', []) or []:
        if a is not None:
            subj |= {r for r in local_roots(fn, a) if r[0] == 'var'}
    key = '%s#%s-insert' % (fn.q, F)
    if not subj:
        R.broken('%s: inserted string-table entry does not come from a local view' % fn.q)
        return
    pe = classify_edges(fn, upper_bound(_rooted_in(subj), _const_le(U16)))
    starts = []
    for r in subj:
        starts += starts_for(fn, r[1])
    w = reaches_unchecked(fn, starts, [c['id']], pe)
    R.check(w is None, 'G2-stringtable-entry-length', key, fn.loc(c['id']),
            'a string-table entry is inserted without passing a length test (size > max_osm_string_length -> reject; the length is '
            'later narrowed to 16 bit): %s' % describe(fn, w))


# ------------------------------------------------------------------------------------------------ G3 builder appends

_RAW_STRING_TYPES = ('const char *', 'char *', 'const std::string &', 'std::string', 'const std::basic_string<char> &',
                     'const std::size_t', 'std::size_t', 'unsigned long', 'const unsigned long', 'size_t', 'const size_t',
                     'unsigned int', 'const unsigned int', 'unsigned short', 'const unsigned short')


def _is_raw_param(p):
    t = p['tC']
    return t in _RAW_STRING_TYPES or t.startswith(('const std::basic_string<char', 'std::basic_string<char', 'const std::__cxx11::basic_string<char'))


def builder_append_sites(fb):
    """[(fn, call node, param decl ids feeding it)] -- Builder::append* calls in methods of Builder-derived classes whose
    arguments come only from raw string / length parameters (caller-supplied data, as opposed to objects already in a buffer)."""
    out = []
    derived = {r.q for r in fb.derived_from(BUILDER)}
    seen = set()
    for fn in fb.functions:
        if fn.cls not in derived or not fn.has_cfg or fn.is_lambda:
            continue
        if (fn.q, fn.pat) in seen:
            continue
        seen.add((fn.q, fn.pat))
        pd = {p['d']: p for p in fn.params}
        for c in fn.all_nodes():
            if c.get('k') != 'call' or c.get('q') not in (BUILDER + '::append', BUILDER + '::append_with_zero'):
                continue
            rs = set()
            for a in c.get('args', []) or []:
                if a is not None:
                    rs |= local_roots(fn, a)
            ps = [r[1] for r in rs if r[0] == 'var' and r[1] in pd]
            if not ps or len(ps) != len(rs):
                continue        # fed from locals / fields: not a plain forwarding of caller data
            if not all(_is_raw_param(pd[d]) for d in ps):
                continue        # e.g. add_tag(const Tag&): strings already laid out in a buffer
            out.append((fn, c, ps))
    return out


def g3_builder_lengths(fb, R):
    for (fn, c, ps) in builder_append_sites(fb):
        idx = sorted(i for i, p in enumerate(fn.params) if p['d'] in ps)
        key = '%s%s#append:arg%s' % (fn.q, sig(fn), '+'.join(str(i) for i in idx))
        subj = {('var', d) for d in ps}
        # what the stored size field can hold: a narrowing cast of the subject to 16 bit anywhere in the function => 65534
        limit = U32 - 1
        for n in fn.all_nodes():
            if n.get('k') == 'cast' and n.get('toC') in ('unsigned short', 'osmium::string_size_type') and local_roots(fn, n['id']) & subj:
                limit = U16 - 1
        pe = classify_edges(fn, upper_bound(_rooted_in(subj), _const_le(limit)))
        w = reaches_unchecked(fn, ['entry'], [c['id']], pe)
        R.check(w is None, 'G3-builder-string-length-checked', key, fn.loc(c['id']),
                '%s appends a caller-supplied string without first passing a length test against a bound <= %d on that string '
                '(over-long input must throw std::length_error, not overflow the size field): %s' % (fn.q, limit, describe(fn, w)))


# ------------------------------------------------------------------------------------------------ G4 blobs

def _bound_global(fb, q):
    g = fb.global_const(q)
    if g is None or 'cv' not in g:
        return None
    try:
        return int(g['cv'])
    except ValueError:
        return None


def _returns(fn):
    return [n for n in fn.all_nodes() if n.get('k') == 'return' and 'sub' in n]


def g4_blobs(fb, R):
    max_blob = _bound_global(fb, 'osmium::io::detail::max_uncompressed_blob_size')
    max_hdr = _bound_global(fb, 'osmium::io::detail::max_blob_header_size')
    if max_blob is None or max_hdr is None:
        R.broken('max_uncompressed_blob_size / max_blob_header_size constants not found')
        return
    rule = 'G4-blob-sizes-bounded'
    # (a) + (b) decode_blob
    fns = fb.fns('osmium::io::detail::decode_blob')
    if not fns:
        R.broken('decode_blob not found')
    for fn in fns:
        # (a) a view of the blob's own bytes returned to the caller: its size is bounded
        n_a = 0
        for ret in _returns(fn):
            vs = {r for r in local_roots(fn, ret['sub']) if r[0] == 'var'}
            views = set()
            for r in vs:
                for d in definitions(fn, r[1]):
                    dn = fn.nodes[d]
                    if dn.get('k') == 'decl' and any(fn.nodes[x].get('q', '').endswith('::get_view') for v in dn['vars'] if isinstance(v.get('init'), int)
                                                     for x in fn.subtree(v['init'])):
                        views.add(r)
            if not views:
                continue
            n_a += 1
            pe = classify_edges(fn, upper_bound(_rooted_in(views), _const_le(max_blob)))
            starts = [d for r in views for d in definitions(fn, r[1])]
            w = reaches_unchecked(fn, starts, [ret['id']], pe)
            R.check(w is None, rule, fn.q + '#raw-data-size', fn.loc(ret['id']),
                    'uncompressed blob data is handed on without the size test against max_uncompressed_blob_size: %s' % describe(fn, w))
        if n_a == 0:
            R.broken('decode_blob: no return of a raw data view found')
        # (b) the raw_size handed to the decompressors
        n_b = 0
        for c in fn.all_nodes():
            if c.get('k') != 'call' or not c.get('q', '').endswith('_uncompress_string'):
                continue
            args = c.get('args', [])
            if len(args) < 3:
                R.broken('decode_blob: unexpected signature of %s' % c['q'])
                continue
            vs = {r for r in local_roots(fn, args[2]) if r[0] == 'var'}
            if len(vs) != 1:
                R.broken('decode_blob: raw size argument of %s is not a single local' % c['q'])
                continue
            n_b += 1
            d = list(vs)[0][1]
            up = classify_edges(fn, upper_bound(_rooted_in(vs), _const_le(max_blob)))
            w = reaches_unchecked(fn, starts_for(fn, d), [c['id']], up)
            R.check(w is None, rule, fn.q + '#raw_size-upper-bound', fn.loc(c['id']),
                    'raw_size read from the file reaches %s (output.resize(raw_size)) without the test against max_uncompressed_blob_size: %s'
                    % (_method_name(c['q']), describe(fn, w)))
            lo = classify_edges(fn, lower_bound(_rooted_in(vs), lambda f, x: f.const_value(x) in (0, 1)))
            w = reaches_unchecked(fn, starts_for(fn, d), [c['id']], lo)
            R.check(w is None, rule, fn.q + '#raw_size-not-negative', fn.loc(c['id']),
                    'a negative raw_size reaches %s (converted to a huge unsigned size): %s' % (_method_name(c['q']), describe(fn, w)))
        if n_b == 0:
            R.broken('decode_blob: no call of a *_uncompress_string function found')
    # (c) BlobHeader size on both input paths
    gs = PBFP + '::get_size_in_network_byte_order'
    n_c = 0
    for fn in fb.functions:
        if fn.cls != PBFP or not fn.has_cfg:
            continue
        pm = fn.parent_map()
        for c in fn.all_nodes():
            if c.get('k') != 'call' or c.get('q') != gs:
                continue
            n_c += 1
            src = sorted(r[-1] if r[0] == 'field' else var_name(fn, r[1]) for a in c.get('args', []) if a is not None for r in local_roots(fn, a))
            key = '%s#header-size-from:%s' % (fn.q, '+'.join(src) or '?')
            # consumer
            x = c['id']
            hops = 0
            consumer = None
            while x in pm and hops < 6:
                x = pm[x]
                hops += 1
                k = fn.nodes[x].get('k')
                if k in ('wrap', 'icast', 'cast'):
                    continue
                consumer = fn.nodes[x]
                break
            if consumer is None:
                R.broken('%s: size read from the input is not consumed in a recognised way' % fn.q)
                continue
            if consumer.get('k') == 'call' and consumer.get('u') and fb.by_usr.get(consumer['u']):
                ok = True
                msg = ''
                for g in fb.by_usr[consumer['u']]:
                    if not g.params:
                        ok = False
                        continue
                    subj = {('var', g.params[0]['d'])}
                    pe = classify_edges(g, upper_bound(_rooted_in(subj), _const_le(max_hdr)))
                    rets = [r['id'] for r in _returns(g)]
                    w = reaches_unchecked(g, ['entry'], rets, pe)
                    if w is not None or not rets:
                        ok = False
                        msg = '%s returns its argument unchecked: %s' % (g.q, describe(g, w))
                R.check(ok, rule, key, fn.loc(c['id']), 'BlobHeader size from the file is not bounded by max_blob_header_size: ' + msg)
            elif consumer.get('k') in ('assign', 'decl'):
                if consumer['k'] == 'assign':
                    l = fn.sn(consumer['lhs'])
                    d = l.get('d') if l is not None and l.get('k') == 'var' else None
                else:
                    d = next((v['d'] for v in consumer['vars'] if isinstance(v.get('init'), int) and c['id'] in fn.subtree(v['init'])), None)
                if d is None:
                    R.broken('%s: size read from the input is stored in something other than a local' % fn.q)
                    continue
                subj = {('var', d)}
                pe = classify_edges(fn, upper_bound(_rooted_in(subj), _const_le(max_hdr)))
                uses = [r['id'] for r in _returns(fn) if ('var', d) in local_roots(fn, r['sub'])]
                uses += [n['id'] for n in fn.all_nodes() if n.get('k') == 'call' and 'q' in n and n['id'] != c['id']
                         and n.get('q') != gs and any(a is not None and ('var', d) in local_roots(fn, a) for a in n.get('args', []))]
                w = reaches_unchecked(fn, [consumer['id']], uses, pe)
                R.check(w is None and bool(uses), rule, key, fn.loc(c['id']),
                        'BlobHeader size from the file is used without the test against max_blob_header_size: %s' % describe(fn, w))
            else:
                R.broken('%s: size read from the input is consumed by an unrecognised construct (%s)' % (fn.q, consumer.get('cls')))
    if n_c == 0:
        R.broken('no call of %s found' % gs)
    # (d) decode_blob_header: datasize != 0
    fns = fb.fns(PBFP + '::decode_blob_header')
    if not fns:
        R.broken('decode_blob_header not found')
    for fn in fns:
        for ret in _returns(fn):
            vs = {r for r in local_roots(fn, ret['sub']) if r[0] == 'var'}
            if len(vs) != 1:
                R.broken('decode_blob_header: returned value is not a single local')
                continue
            pe = classify_edges(fn, equals(_rooted_in(vs), lambda f, x: f.const_value(x) == 0, want_equal=False))
            pe |= classify_edges(fn, lower_bound(_rooted_in(vs), lambda f, x: f.const_value(x) in (0, 1)))
            # the local starts at 0 (constant initialiser): the path from entry must be covered as well
            w = reaches_unchecked(fn, ['entry'], [ret['id']], pe)
            R.check(w is None, rule, fn.q + '#datasize-not-zero', fn.loc(ret['id']),
                    'a BlobHeader without datasize (or datasize 0) is accepted: the caller reads a zero-length blob and loops on the '
                    'same header logic: %s' % describe(fn, w))
    # (e) read_from_input_queue_with_check: size bounded before resize / append / queue fill
    fns = fb.fns(PBFP + '::read_from_input_queue_with_check')
    if not fns:
        R.broken('read_from_input_queue_with_check not found')
    for fn in fns:
        if not fn.params:
            R.broken('read_from_input_queue_with_check: no size parameter')
            continue
        subj = {('var', fn.params[0]['d'])}
        pe = classify_edges(fn, upper_bound(_rooted_in(subj), _const_le(max_blob)))
        uses = []
        for n in fn.all_nodes():
            if n.get('k') == 'call' and 'q' in n and any(a is not None and subj & local_roots(fn, a) for a in n.get('args', [])):
                if _method_name(n['q']) in ('resize', 'reserve', 'append', 'assign', 'ensure_available_in_input_queue', 'read_exactly'):
                    uses.append(n['id'])
        if not uses:
            R.broken('read_from_input_queue_with_check: no allocation / fill driven by the size parameter found')
            continue
        w = reaches_unchecked(fn, ['entry'], uses, pe)
        R.check(w is None, rule, fn.q + '#blob-size-before-allocation', fn.site,
                'blob size from the BlobHeader drives resize/append without the test against max_uncompressed_blob_size: %s' % describe(fn, w))


# ------------------------------------------------------------------------------------------------ G6 member types

def _item_type_values(fb):
    e = fb.enum('osmium::item_type')
    if e is None:
        return None
    return {x['name']: int(x['value']) for x in e['enumerators']}


def _nwr_values(fn, it):
    def f(f2, nid):
        v = f2.const_value(nid)
        return v is not None and v in (it['node'], it['way'], it['relation'])
    return f


def g6_member_types(fb, R):
    it = _item_type_values(fb)
    if it is None:
        R.broken('enum osmium::item_type not found')
        return
    rule = 'G6-member-type-range-checked'
    # (1) explicit casts of a computed integer to item_type in the parsers
    n1 = 0
    for fn in fb.functions:
        if not fn.has_cfg or '/io/detail/' not in fn.file:
            continue
        for n in fn.all_nodes():
            if n.get('k') != 'cast' or n.get('toC') != 'osmium::item_type' or fn.const_value(n['id']) is not None:
                continue
            vs = {r for r in local_roots(fn, n['sub']) if r[0] == 'var'}
            if len(vs) != 1:
                continue
            sub = fn.sn(n['sub'])
            if sub is not None and sub.get('t') == 'osmium::item_type':
                continue
            n1 += 1
            d = list(vs)[0][1]
            k = _addend(fn, n['sub'], d)
            key = '%s#cast-to-item_type' % fn.q
            if k is None:
                R.bad(rule, key, fn.loc(n['id']), 'cast of a computed value to item_type whose relation to the checked variable is not v + const')
                continue
            up = classify_edges(fn, upper_bound(_rooted_in(vs), lambda f, x, k=k: f.const_value(x) is not None and f.const_value(x) + k <= it['relation']))
            lo = classify_edges(fn, lower_bound(_rooted_in(vs), lambda f, x, k=k: f.const_value(x) is not None and f.const_value(x) + k >= it['node'] - 1))
            w1 = reaches_unchecked(fn, starts_for(fn, d), [n['id']], up)
            w2 = reaches_unchecked(fn, starts_for(fn, d), [n['id']], lo)
            R.check(w1 is None and w2 is None, rule, key, fn.loc(n['id']),
                    'member type from the file is cast to item_type without a range test (node..relation): %s' % describe(fn, w1 or w2))
    # (2) nwr_index_to_item_type(v - k) in the parsers
    n2 = 0
    for fn in fb.functions:
        if not fn.has_cfg or '/io/detail/' not in fn.file:
            continue
        for c in fn.all_nodes():
            if c.get('k') != 'call' or c.get('q') != 'osmium::nwr_index_to_item_type' or not c.get('args'):
                continue
            a = c['args'][0]
            vs = {r for r in local_roots(fn, a) if r[0] == 'var'}
            if len(vs) != 1:
                continue
            n2 += 1
            d = list(vs)[0][1]
            k = _addend(fn, a, d)
            key = '%s#nwr_index_to_item_type' % fn.q
            if k is None:
                R.bad(rule, key, fn.loc(c['id']), 'index handed to nwr_index_to_item_type is not v + const of a checked variable')
                continue
            up = classify_edges(fn, upper_bound(_rooted_in(vs), lambda f, x, k=k: f.const_value(x) is not None and f.const_value(x) + k <= 2))
            lo = classify_edges(fn, lower_bound(_rooted_in(vs), lambda f, x, k=k: f.const_value(x) is not None and f.const_value(x) + k >= -1))
            w1 = reaches_unchecked(fn, starts_for(fn, d), [c['id']], up)
            w2 = reaches_unchecked(fn, starts_for(fn, d), [c['id']], lo)
            R.check(w1 is None and w2 is None, rule, key, fn.loc(c['id']),
                    'member type character is converted without a range test (0..2): %s' % describe(fn, w1 or w2))
    # (3) add_member(type, ...) with a type local produced by char_to_item_type: allowed-set test
    n3 = 0
    for fn in fb.functions:
        if not fn.has_cfg or '/io/detail/' not in fn.file:
            continue
        cands = {}
        for c in fn.all_nodes():
            if c.get('k') != 'call' or c.get('q') != 'osmium::builder::RelationMemberListBuilder::add_member' or not c.get('args'):
                continue
            t = fn.sn(c['args'][0])
            if t is None or t.get('k') != 'var' or t.get('vk') != 'local':
                continue
            cands.setdefault(t['d'], []).append(c['id'])
        for d, uses in cands.items():
            if not _fed_by(fb, fn, d, 'osmium::char_to_item_type'):
                continue
            n3 += 1
            vs = {('var', d)}
            pe = classify_edges(fn, equals(_rooted_in(vs), _nwr_values(fn, it), want_equal=True))
            # the local may be assigned inside a lambda (XML attribute callback): every definition site counts, and the
            # declaration itself (initial value `undefined`) as well
            starts = ['entry']
            w = reaches_unchecked(fn, starts, uses, pe)
            R.check(w is None, rule, '%s#add_member-type' % fn.q, fn.loc(uses[0]),
                    'member type decoded by char_to_item_type reaches add_member without the node/way/relation test: %s' % describe(fn, w))
    R.note('G6: %d casts, %d index conversions, %d allowed-set sites' % (n1, n2, n3))


def _addend(fn, nid, d):
    """k if the expression is (var d) + k / (var d) - k / (var d) with implicit conversions only, else None."""
    n = fn.sn(nid)
    if n is None:
        return None
    if n.get('k') == 'var' and n.get('d') == d:
        return 0
    if n.get('k') == 'binop' and n.get('op') in ('+', '-'):
        l, r = fn.sn(n['lhs']), fn.sn(n['rhs'])
        if l is not None and l.get('k') == 'var' and l.get('d') == d:
            c = fn.const_value(n['rhs'])
            if c is not None:
                return c if n['op'] == '+' else -c
        if n['op'] == '+' and r is not None and r.get('k') == 'var' and r.get('d') == d:
            c = fn.const_value(n['lhs'])
            if c is not None:
                return c
    return None


def _fed_by(fb, fn, d, callee_q):
    """local d is initialised / assigned from a call of callee_q in fn or in a lambda of fn that captures it."""
    for n in fn.all_nodes():
        if n.get('k') == 'decl':
            for v in n['vars']:
                if v['d'] == d and isinstance(v.get('init'), int):
                    if any(fn.nodes[x].get('q') == callee_q for x in fn.subtree(v['init'])):
                        return True
        if n.get('k') == 'assign':
            l = fn.sn(n['lhs'])
            if l is not None and l.get('k') == 'var' and l.get('d') == d and any(fn.nodes[x].get('q') == callee_q for x in fn.subtree(n['rhs'])):
                return True
    name = var_name(fn, d)
    for g in fb.lambdas_in(fn):
        for n in g.all_nodes():
            if n.get('k') == 'assign':
                l = g.sn(n['lhs'])
                if l is not None and l.get('k') in ('var', 'member') and l.get('name') == name and any(g.nodes[x].get('q') == callee_q for x in g.subtree(n['rhs'])):
                    return True
    return False


# ------------------------------------------------------------------------------------------------ G8 thrown types

_G8_DIRS = ('/osmium/io/', '/osmium/builder/', '/osmium/osm/', '/osmium/memory/', '/osmium/util/', '/osmium/osm.hpp', '/osmium/opl.hpp')


def g8_throw_types(fb, R):
    seen = set()
    for fn in fb.functions:
        if not fn.has_cfg or not any(d in fn.file for d in _G8_DIRS):
            continue
        for n in fn.all_nodes():
            if n.get('k') != 'throw' or n.get('rethrow'):
                continue
            tt = n.get('tt')
            key = '%s#throw:%s' % (fn.q, tt or '?')
            if (key, fn.pat) in seen:
                continue
            seen.add((key, fn.pat))
            if not tt:
                R.broken('%s: throw expression of unknown type at %s' % (fn.q, fn.loc(n['id'])))
                continue
            ok = tt == 'std::exception' or 'std::exception' in n.get('bases', [])
            R.check(ok, 'G8-throws-std-exception', key, fn.loc(n['id']),
                    '%s throws %s, which does not derive from std::exception (callers of Reader::read() are promised std::exception)' % (fn.q, tt))


# ------------------------------------------------------------------------------------------------ A1 who may abort

_ABORTERS = ('abort', 'std::abort', 'std::terminate', 'terminate', 'exit', 'std::exit', '_exit', '_Exit', 'std::_Exit', 'quick_exit', 'std::quick_exit')
# function -> (callee, reason)
_MAY_ABORT = {
    'osmium::io::detail::decode_blob': ('abort', 'after the compression switch; unreachable because an empty compressed_data throws first (value argument, only recorded)'),
    'osmium::io::Reader::execute': ('exit', 'forked child that failed to exec'),
}


def a1_who_may_abort(fb, R):
    for fn in fb.functions:
        if not fn.has_cfg:
            continue
        for c in fn.all_nodes():
            if c.get('k') != 'call':
                continue
            q = c.get('q') or c.get('name') or ''
            if q not in _ABORTERS:
                continue
            base = q.rsplit('::', 1)[-1]
            key = '%s#%s' % (fn.q, base)
            allow = _MAY_ABORT.get(fn.q)
            ok = allow is not None and allow[0] == base
            if ok and fn.q.endswith('::execute'):
                # only in the child: guarded by pid == 0
                ok = any(sense and cmp_parts(fn, cn) is not None and fn.const_value(cmp_parts(fn, cn)[2]) == 0 and cmp_parts(fn, cn)[0] == '=='
                         for (cn, sense, _b) in guards(fn, c['id']))
            R.check(ok, 'A1-who-may-abort', key, fn.loc(c['id']),
                    '%s calls %s: process-terminating calls in the library are a frozen list (decode_blob after its switch, the forked child in '
                    'Reader::execute); hostile input must surface as an exception' % (fn.q, q))


def run(ctx):
    R = ctx.R
    configs = ['ndebug14'] if ctx.tier == 'quick' else ['ndebug14', 'debug14', 'ndebug17', 'debug17']
    for cfg in configs:
        fb = ctx.facts(['io_read', 'core'], cfg)
        esc = Esc(fb)
        g1_g2_stringtable(fb, R, esc)
        g3_builder_lengths(fb, R)
        g4_blobs(fb, R)
        g6_member_types(fb, R)
        g8_throw_types(fb, R)
        a1_who_may_abort(fb, R)
