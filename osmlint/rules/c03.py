"""C03 -- malformed or hostile input never causes memory errors, aborts or hangs: presence and placement of the
protective mechanisms the property's anchors name (GUARD table G1-G9), NUL-layout agreement, builder-protocol typestate of
the XML state machine, who-may-abort, thrown types.

What a rule instance is: one *required* protection (a row of the guard table applied to one construct).  Instances are
keyed by the protected construct, so a deleted guard is a violated instance (exit 1), not a missing one.

 G1  every element access of the PBF string table member is `.at()`; std::out_of_range cannot leave
     PBFPrimitiveBlockDecoder::operator() (it is mapped to pbf_error)
 G2  every insertion into the string table passes `size > max_osm_string_length -> reject` first
 G3  every copy of a caller-supplied string into the buffer by a builder method (append*, raw memcpy as in set_user) passes a
     throwing length bound first (bound <= what the size field written next to it can hold; asserts do not count); every
     narrowing of such a length to the 16-bit string_size_type is preceded by that test
 G4  blob acceptance: raw data size, raw_size range, BlobHeader size on both input paths, datasize != 0, blob size before
     resize/append
 G5  o5m: derived section ends are compared with the dataset end before use; ReferenceTable::get / add bounds; dataset
     length and type byte are covered by ensure_bytes_available; header bytes are available before the magic is read;
     cursor dereferences in the decode_* functions are end-checked since the last advance (must-dataflow, interprocedural
     through entry preconditions)
 G6  member type conversions are range-checked (PBF cast, o5m index, XML / OPL allowed set)
 G7  expat boundary: registered callbacks are noexcept and nothing can escape their bodies; the catch-all stores the
     exception and stops the parser; the handler is not run again once an exception is stored (tested before the try); an entity-declaration handler is registered and always throws; the XML_Parse error
     branch rethrows the stored exception before constructing its own
 G8  every throw in the reader / builder / osm / memory code throws a type derived from std::exception
 G9  next_utf8_codepoint: the length test precedes every advance-and-read, each case reads exactly its length
 NUL every parser call of a length-carrying TagListBuilder::add_tag overload is NUL-safe (overload rejects interior NUL,
     copies only up to the first NUL, or the argument provably has none)             (found F4; fixed in /repo)
 TS  XML state machine: add_comment obligation closed at the end of the element that opened it, closer cannot run a
     second time; sibling sub-builders are reset before another one is opened / used; end handlers reset every
     sub-builder before the object builder and commit afterwards; members owning a sub-builder are declared after the member
     owning its parent (destruction order when run() is left by an exception)      (found F3; fixed in /repo)
 P1  fixed-position text parsers (parse_timestamp, string_to_ulong, XML attribute names): p[k] is read only where p[0..k-1] were
     each tested by a condition that is false for NUL (NUL-terminated prefix discipline; calls reading from p[K] on count as reads)
 A1  abort / terminate / exit call sites are the frozen who-may-call list; decode_blob's abort() is unreachable by a checked
     argument (only behind the initial-value case of the compression selector; selector and payload assigned together; an
     emptiness test of the payload alone throws before the switch)

Clauses of DESIGN.md section 5/C03 not implemented here, and why:
 * STALE-L/F over parser and builder code: run by the C04 module (same engine, same functions); not duplicated.
 * "the forked child in Reader::execute" is checked only as far as `exit` being guarded by `pid == 0`.
 * G4 "before allocation": the decompressor's output.resize(raw_size) lives in zlib_uncompress_string / lz4_uncompress_string;
   the rule protects the call that hands raw_size over, not the resize inside (one call level, same value).
 * A general "noexcept function cannot leak" rule (beyond the expat boundary, G7) was tried and dropped: on the pristine tree it
   reports the four sub-builder destructors (add_padding -> reserve_space -> buffer_is_full), which terminate only for a
   non-growing full buffer -- a value argument about the reader's auto-grow buffers that this family cannot decide.
 * assert()-only preconditions on input-derived lengths (e.g. set_user(const char*) asserting strlen < 2^16) abort in -UNDEBUG
   builds; no structural rule decides which asserts are input-reachable.  Recorded as an observation only.

Not decided (other technique families): absence of out-of-bounds accesses in general, protozero's own varint bounds,
termination / hangs, equivalence of assert-on and NDEBUG builds, decompressor internals (C09), STALE-L/F (run by C04).
"""
from ..c03_util import (classify_edges, upper_bound, lower_bound, equals, truthy, reaches_unchecked, describe, local_roots,
                        starts_for, definitions, elem_of, sig, var_name, cmp_parts, CursorFlow, UNCHECKED, helper_barriers,
                        matching_conds, deep_roots, rooted_in, guarded, guarded_ip, resolve_local, single_init, edge_atoms, PrefixFlow, _PSTR_T)
from ..excflow import Esc, catch_alls, handler_entry_block, must_pass
from ..errdisc import guards
from ..flow import path_search

KNOWN = [
    # (rule, key, explanation) -- genuine defects of the tree a rule reports with R.bad.  F3 (XML <comment> without / with two
    # <text>) and F4 (PBF string-table entry with an interior NUL used as tag key/value) were reported here by
    # TS-comment-obligation-closed / TS-comment-closer-once and NUL-tag-strings-have-no-interior-nul; both were fixed in /repo
    # (7c40db3 "XML parser adds exactly one text to each changeset comment", 61641d6 "TagListBuilder stores keys and values
    # only up to the first NUL byte") and the rules are silent on the fixed shapes; their reverts are seeded mutants.
]

EXPLANATION = (
    'Decided: presence and placement of the named guards. PBF: string table element access is .at() and out_of_range is mapped '
    'inside operator(); string-table entries, blobs, blob headers and raw_size are bounded before allocation/insertion. Builders: '
    'every caller-supplied string append is length-checked against a bound its size field can hold. o5m: section ends, reference '
    'table get/add, dataset length, header bytes, and every cursor dereference in decode_* is end-checked since the last advance on all '
    'CFG paths. Member-type conversions are range checked in all four parsers. Expat callbacks are noexcept with nothing escaping, '
    'entity declarations are rejected, the stored exception is rethrown first. Every throw statement throws a std::exception-derived '
    'type. Tag strings handed to length-carrying add_tag overloads are NUL-free or rejected (F4 known). The XML state machine closes '
    'the add_comment obligation, resets sibling sub-builders and closes builders in order (F3 known). abort/exit call sites are the '
    'frozen list; noexcept functions in the parser closures cannot leak exceptions. '
    'NOT decided: absence of out-of-bounds reads in general, termination, assert-on/off equivalence, decompression libraries, '
    'protozero internals, use-after-relocation (checked by C04 STALE).')
ASSUMPTIONS = ['protozero (varint / length-delimited views) bounds-checks against the end pointer it is given',
               'std::vector::at throws std::out_of_range; expat calls only the registered callbacks',
               'bodies outside include/osmium (std, protozero, expat, zlib) do not throw types outside std::exception',
               'the driver instantiation set (io_read, core) covers the reader code']

PBD = 'osmium::io::detail::PBFPrimitiveBlockDecoder'
PBFP = 'osmium::io::detail::PBFParser'
O5M = 'osmium::io::detail::O5mParser'
RT = 'osmium::io::detail::ReferenceTable'
XMLP = 'osmium::io::detail::XMLParser'
EXPAT = XMLP + '::ExpatXMLParser'
BUILDER = 'osmium::builder::Builder'
U16 = 0xffff
U32 = 0xffffffff


_SELFTEST = [False]      # positive examples live outside /repo: file filters are relaxed for them


def _parser_file(fn):
    return _SELFTEST[0] or '/io/detail/' in fn.file or fn.file.endswith('/osmium/opl.hpp')


def _exit_t(e):
    return isinstance(e, tuple) and e[0] == 'exit'


def _is_this_field(fn, nid, name=None):
    n = fn.sn(nid)
    return n is not None and n.get('k') == 'member' and n.get('field') and fn.is_this_member(nid) and (name is None or n['name'] == name)


def _recv_field(fn, c):
    """name of the this-field a call is made on (through implicit casts / smart-pointer operator->), else None."""
    r = c.get('recv')
    hops = 0
    while r is not None and hops < 6:
        hops += 1
        n = fn.sn(r)
        if n is None:
            return None
        if n.get('k') == 'member' and n.get('field') and fn.is_this_member(r):
            return n['name']
        if n.get('k') == 'call' and n.get('op') in ('->', '*') and n.get('recv') is not None:
            r = n['recv']
            continue
        if n.get('k') == 'unop' and n.get('op') == '*':
            r = n['sub']
            continue
        return None
    return None


def _const_le(limit):
    def f(fn, nid):
        v = fn.const_value(nid)
        return v is not None and 0 <= v <= limit
    return f


_rooted_in = rooted_in      # expression reads only the wanted roots (named locals for pure sub-expressions looked through)


def UB(is_bound):
    return lambda is_subject: upper_bound(is_subject, is_bound)


def LB(is_bound):
    return lambda is_subject: lower_bound(is_subject, is_bound)


def EQ(is_value, want_equal=True):
    return lambda is_subject: equals(is_subject, is_value, want_equal)


def _is01(f, x):
    return f.const_value(x) in (0, 1)


def _is0(f, x):
    return f.const_value(x) == 0


def _ipd(r):
    """description of a guarded_ip result"""
    if r is None:
        return ''
    g, w = r
    return 'in %s: %s' % (g.q, describe(g, w))


def _var_roots(fn, nid):
    return {r for r in deep_roots(fn, nid) if r[0] == 'var'}


def _method_name(q):
    return q.rsplit('::', 1)[-1]


# ------------------------------------------------------------------------------------------------ G1 / G2 string table

_ELEM_BAD = ('operator[]', 'front', 'back', 'data', 'begin', 'end', 'cbegin', 'cend', 'rbegin', 'rend', 'crbegin', 'crend')
_INSERT = ('emplace_back', 'push_back', 'insert', 'emplace', 'resize', 'assign')
_NEUTRAL = ('empty', 'size', 'clear', 'reserve', 'capacity', 'shrink_to_fit', 'max_size')


def g1_g2_stringtable(fb, R, esc):
    rec = fb.record(PBD)
    if rec is None:
        R.broken('record %s not found' % PBD)
        return
    fields = [f for f in rec.fields if f['tC'].startswith('std::vector<std::pair<const char *')]
    if len(fields) != 1:
        R.broken('%s: cannot identify the string table member by type (found %d candidates)' % (PBD, len(fields)))
        return
    F = fields[0]['name']
    n_at = 0
    for fn in fb.functions:
        if fn.cls != PBD or not fn.has_cfg:
            continue
        members = {n['id'] for n in fn.all_nodes() if n.get('k') == 'member' and n.get('field') and n['name'] == F and fn.is_this_member(n['id'])}
        if not members:
            continue
        # named references to the table (`const auto& table = m_stringtable;`) are the table
        aliased = set()
        alias_decls = set()
        for n in fn.all_nodes():
            if n.get('k') == 'decl':
                for v in n['vars']:
                    if isinstance(v.get('init'), int) and fn.strip(v['init']) in members and v['tC'].rstrip().endswith('&'):
                        aliased.add(fn.strip(v['init']))
                        alias_decls.add(v['d'])
        members |= {n['id'] for n in fn.all_nodes() if n.get('k') == 'var' and n.get('d') in alias_decls}
        used = {}
        for c in fn.all_nodes():
            if c.get('k') == 'call' and c.get('recv') is not None and 'q' in c:
                r = fn.strip(c['recv'])
                if r in members:
                    used[r] = c
        bad = []
        elem = False
        for m in sorted(members):
            c = used.get(m)
            if c is None:
                if fn.kind == 'ctor' or m in aliased:
                    continue
                bad.append('%s escapes as a plain reference at %s' % (F, fn.loc(m)))
                elem = True
                continue
            name = _method_name(c['q'])
            if name == 'at':
                elem = True
                n_at += 1
            elif name in _ELEM_BAD:
                elem = True
                bad.append('unchecked %s.%s at %s' % (F, name, fn.loc(c['id'])))
            elif name in _INSERT:
                _g2_insert(fb, R, fn, c, F)
            elif name not in _NEUTRAL:
                R.broken('%s: unknown operation %s on the string table member' % (fn.q, c['q']))
        if elem:
            R.check(not bad, 'G1-stringtable-access-is-at', '%s#%s-element-access' % (fn.q, F), fn.site,
                    'string ids come from the file: every element access of %s must be .at() (bounds-checked); %s' % (F, '; '.join(bad)))
    if n_at == 0:
        R.note('G1: no .at() access of the string table found')
    # out_of_range mapped inside operator()
    ops = fb.fns(PBD + '::operator()')
    if not ops:
        R.broken('%s::operator() not found' % PBD)
    for fn in ops:
        e = esc.body_escapes(fn)
        w = e.get('std::out_of_range')
        R.check(w is None, 'G1-out_of_range-mapped', fn.q + '#std::out_of_range', fn.site,
                'std::out_of_range (thrown by %s.at() for a string id outside the table) can leave %s unmapped: %s'
                % (F, fn.q, esc.chain(w, 'std::out_of_range') if w is not None else ''))
        # the mapping handler itself must throw a std::exception-derived type (not swallow): handled by G8 for the throw;
        # here: a typed handler for out_of_range / logic_error / exception (or catch-all) exists and does not return normally
        hs = [(t, h) for t in fn.tries for h in t['handlers']
              if h.get('all') or (h.get('typeq') or h.get('type')) in ('std::out_of_range', 'std::logic_error', 'std::exception')]
        ok = bool(hs)
        for (t, h) in hs:
            b = handler_entry_block(fn, h)
            if b is None:
                ok = False
                continue
            w2 = path_search(fn, b, _exit_t, lambda x: fn.nodes.get(x, {}).get('k') == 'throw', from_block_start=True)
            ok = ok and w2 is None
        R.check(ok, 'G1-out_of_range-mapped', fn.q + '#handler-throws', fn.site,
                '%s must catch std::out_of_range and leave the handler only by throwing (a swallowed error would deliver a half-built buffer)' % fn.q)


def _g2_insert(fb, R, fn, c, F):
    subj = set()
    for a in c.get('args', []) or []:
        if a is not None:
            subj |= _var_roots(fn, a)
    key = '%s#%s-insert' % (fn.q, F)
    if not subj:
        R.broken('%s: inserted string-table entry does not come from a local view' % fn.q)
        return
    starts = []
    for r in subj:
        starts += starts_for(fn, r[1])
    w = guarded_ip(fb, fn, starts, [c['id']], subj, UB(_const_le(U16)))
    R.check(w is None, 'G2-stringtable-entry-length', key, fn.loc(c['id']),
            'a string-table entry is inserted without passing a length test (size > max_osm_string_length -> reject; the length is '
            'later narrowed to 16 bit): %s' % _ipd(w))


# ------------------------------------------------------------------------------------------------ G3 builder appends

_RAW_STRING_TYPES = ('const char *', 'char *', 'const std::string &', 'std::string', 'const std::basic_string<char> &',
                     'const std::size_t', 'std::size_t', 'unsigned long', 'const unsigned long', 'size_t', 'const size_t',
                     'unsigned int', 'const unsigned int', 'unsigned short', 'const unsigned short')


def _is_raw_param(p):
    t = p['tC']
    return t in _RAW_STRING_TYPES or t.startswith(('const std::basic_string<char', 'std::basic_string<char', 'const std::__cxx11::basic_string<char'))


def builder_append_sites(fb):
    """[(fn, call node, param decl ids feeding it)] -- Builder::append* calls in methods of Builder-derived classes whose
    arguments come only from raw string / length parameters (caller-supplied data, as opposed to objects already in a buffer)."""
    out = []
    derived = {r.q for r in fb.derived_from(BUILDER)}
    seen = set()
    for fn in fb.functions:
        if fn.cls not in derived or not fn.has_cfg or fn.is_lambda:
            continue
        if (fn.q, fn.pat) in seen:
            continue
        seen.add((fn.q, fn.pat))
        pd = {p['d']: p for p in fn.params}
        for c in fn.all_nodes():
            if c.get('k') != 'call' or c.get('q') not in (BUILDER + '::append', BUILDER + '::append_with_zero'):
                continue
            rs = set()
            for a in c.get('args', []) or []:
                if a is not None:
                    rs |= deep_roots(fn, a)
            ps = [r[1] for r in rs if r[0] == 'var' and r[1] in pd]
            if not ps or len(ps) != len(rs):
                continue        # fed from locals / fields: not a plain forwarding of caller data
            if not all(_is_raw_param(pd[d]) for d in ps):
                continue        # e.g. add_tag(const Tag&): strings already laid out in a buffer
            out.append((fn, c, ps))
    return out


_COPIES = ('memcpy', 'std::memcpy', 'memmove', 'std::memmove', 'std::copy_n', 'std::copy', 'strncpy', 'std::strncpy')
_NARROW16 = ('unsigned short', 'osmium::string_size_type')


def builder_raw_copy_sites(fb):
    """[(fn, copy call, [size-field stores], param decl ids)] -- raw copies (memcpy & co.) of caller-supplied bytes in methods of
    Builder-derived classes whose byte count comes only from raw string / length parameters, together with the calls that
    store `length + k` into a size field next to them (set_user_size(length + 1))."""
    out = []
    derived = {r.q for r in fb.derived_from(BUILDER)}
    seen = set()
    for fn in fb.functions:
        if fn.cls not in derived or not fn.has_cfg or fn.is_lambda or (fn.q, fn.pat) in seen:
            continue
        seen.add((fn.q, fn.pat))
        pd = {p['d']: p for p in fn.params}
        for c in fn.all_nodes():
            if c.get('k') != 'call' or (c.get('q') or c.get('name')) not in _COPIES:
                continue
            args = [a for a in c.get('args', []) or [] if a is not None]
            if len(args) < 3:
                continue
            # byte count = the argument that is not a pointer
            cnt = [a for a in args if not _is_ptr_t((fn.sn(a) or {}).get('t'))]
            src = [a for a in args if _is_ptr_t((fn.sn(a) or {}).get('t')) and any(r[0] == 'var' and r[1] in pd and _is_raw_param(pd[r[1]]) for r in deep_roots(fn, a))]
            if len(cnt) != 1 or not src:
                continue
            rs = deep_roots(fn, cnt[0])
            ps = [r[1] for r in rs if r[0] == 'var' and r[1] in pd and _is_raw_param(pd[r[1]])]
            if not ps or len(ps) != len(rs):
                continue
            subj = {('var', d) for d in ps}
            stores = []
            for n in fn.all_nodes():
                if n.get('k') == 'call' and 'q' in n and n['id'] != c['id'] and _method_name(n['q']).startswith('set_') and _method_name(n['q']).endswith('_size'):
                    if any(a is not None and deep_roots(fn, a) and deep_roots(fn, a) <= subj for a in n.get('args', [])):
                        stores.append(n)
            out.append((fn, c, stores, ps))
    return out


def builder_narrowing_sites(fb):
    """[(fn, cast node, param decl ids)] -- explicit casts of a caller-supplied length (wider than 16 bit) to the 16-bit
    string_size_type in methods of Builder-derived classes."""
    out = []
    derived = {r.q for r in fb.derived_from(BUILDER)}
    seen = set()
    for fn in fb.functions:
        if fn.cls not in derived or not fn.has_cfg or fn.is_lambda or (fn.q, fn.pat) in seen:
            continue
        seen.add((fn.q, fn.pat))
        pd = {p['d']: p for p in fn.params}
        for n in fn.all_nodes():
            if n.get('k') != 'cast' or n.get('toC') not in _NARROW16 or fn.const_value(n['id']) is not None:
                continue
            sub = fn.sn(n['sub'])
            if sub is None or (sub.get('t') or '').replace('const ', '') in _NARROW16 + ('unsigned char', 'char', 'bool'):
                continue
            rs = deep_roots(fn, n['sub'])
            ps = [r[1] for r in rs if r[0] == 'var' and r[1] in pd and _is_raw_param(pd[r[1]])]
            if not ps or len(ps) != len(rs):
                continue
            out.append((fn, n, ps))
    return out


def g3_builder_lengths(fb, R):
    rule = 'G3-builder-string-length-checked'
    for (fn, c, ps) in builder_append_sites(fb):
        idx = sorted(i for i, p in enumerate(fn.params) if p['d'] in ps)
        key = '%s%s#append:arg%s' % (fn.q, sig(fn), '+'.join(str(i) for i in idx))
        subj = {('var', d) for d in ps}
        # what the stored size field can hold: a narrowing cast of the subject to 16 bit anywhere in the function => 65534
        limit = U32 - 1
        for n in fn.all_nodes():
            if n.get('k') == 'cast' and n.get('toC') in _NARROW16 and deep_roots(fn, n['id']) & subj:
                limit = U16 - 1
        w = guarded_ip(fb, fn, ['entry'], [c['id']], subj, UB(_const_le(limit)))
        R.check(w is None, rule, key, fn.loc(c['id']),
                '%s appends a caller-supplied string without first passing a length test against a bound <= %d on that string '
                '(over-long input must throw std::length_error, not overflow the size field): %s' % (fn.q, limit, _ipd(w)))
    # raw copies next to a size field (set_user family): memcpy of `length` bytes and set_user_size(length + 1)
    for (fn, c, stores, ps) in builder_raw_copy_sites(fb):
        idx = sorted(i for i, p in enumerate(fn.params) if p['d'] in ps)
        key = '%s%s#copy:arg%s' % (fn.q, sig(fn), '+'.join(str(i) for i in idx))
        subj = {('var', d) for d in ps}
        # the size field: the parameter type of the set_*_size call (16 bit for user / role sizes); length + 1 must fit
        limit = U32 - 1
        for st in stores:
            for g in fb.by_usr.get(st.get('u'), [])[:1]:
                if g.params and g.params[0]['tC'].replace('const ', '') in _NARROW16:
                    limit = U16 - 1
        if any(p['d'] in ps and p['tC'].replace('const ', '') in _NARROW16 for p in fn.params):
            limit = min(limit, U16 - 1)
        w = guarded_ip(fb, fn, ['entry'], [c['id']] + [st['id'] for st in stores], subj, UB(_const_le(limit)))
        R.check(w is None, rule, key, fn.loc(c['id']),
                '%s copies `length` bytes of a caller-supplied string and stores length + 1 in a %s size field without a throwing test '
                'length > bound (bound <= %d; an assert is not a test: absent under NDEBUG): a name of exactly 65535 bytes wraps the stored size '
                'to 0, longer ones are truncated / overflow the reserved space: %s'
                % (fn.q, '16-bit' if limit == U16 - 1 else '32-bit', limit, _ipd(w)))
    # narrowing of a caller-supplied length to 16 bit
    for (fn, n, ps) in builder_narrowing_sites(fb):
        idx = sorted(i for i, p in enumerate(fn.params) if p['d'] in ps)
        key = '%s%s#narrow16:arg%s' % (fn.q, sig(fn), '+'.join(str(i) for i in idx))
        subj = {('var', d) for d in ps}
        w = guarded_ip(fb, fn, ['entry'], [n['id']], subj, UB(_const_le(U16 - 1)))
        R.check(w is None, rule, key, fn.loc(n['id']),
                '%s narrows the length of a caller-supplied string to the 16-bit string_size_type without a throwing test on the '
                'un-narrowed length first (an assert is not a test): lengths >= 65535 wrap: %s' % (fn.q, _ipd(w)))


# ------------------------------------------------------------------------------------------------ G4 blobs

def _bound_global(fb, q):
    g = fb.global_const(q)
    if g is None or 'cv' not in g:
        return None
    try:
        return int(g['cv'])
    except ValueError:
        return None


def _returns(fn):
    return [n for n in fn.all_nodes() if n.get('k') == 'return' and 'sub' in n]


def g4_blobs(fb, R):
    max_blob = _bound_global(fb, 'osmium::io::detail::max_uncompressed_blob_size')
    max_hdr = _bound_global(fb, 'osmium::io::detail::max_blob_header_size')
    if max_blob is None or max_hdr is None:
        R.broken('max_uncompressed_blob_size / max_blob_header_size constants not found')
        return
    rule = 'G4-blob-sizes-bounded'
    # (a) + (b) decode_blob
    fns = fb.fns('osmium::io::detail::decode_blob')
    if not fns:
        R.broken('decode_blob not found')
    for fn in fns:
        # (a) a view of the blob's own bytes returned to the caller: its size is bounded
        n_a = 0
        for ret in _returns(fn):
            vs = _var_roots(fn, ret['sub'])
            views = set()
            for r in vs:
                for d in definitions(fn, r[1]):
                    dn = fn.nodes[d]
                    if dn.get('k') == 'decl' and any(fn.nodes[x].get('q', '').endswith('::get_view') for v in dn['vars'] if isinstance(v.get('init'), int)
                                                     for x in fn.subtree(v['init'])):
                        views.add(r)
            if not views:
                continue
            n_a += 1
            starts = [d for r in views for d in definitions(fn, r[1])]
            w = guarded(fb, fn, starts, [ret['id']], views, UB(_const_le(max_blob)))
            R.check(w is None, rule, fn.q + '#raw-data-size', fn.loc(ret['id']),
                    'uncompressed blob data is handed on without the size test against max_uncompressed_blob_size: %s' % describe(fn, w))
        if n_a == 0:
            R.broken('decode_blob: no return of a raw data view found')
        # (b) the raw_size handed to the decompressors
        n_b = 0
        for c in fn.all_nodes():
            if c.get('k') != 'call' or not c.get('q', '').endswith('_uncompress_string'):
                continue
            args = c.get('args', [])
            if len(args) < 3:
                R.broken('decode_blob: unexpected signature of %s' % c['q'])
                continue
            vs = _var_roots(fn, args[2])
            if len(vs) != 1:
                R.broken('decode_blob: raw size argument of %s is not a single local' % c['q'])
                continue
            n_b += 1
            d = list(vs)[0][1]
            w = guarded(fb, fn, starts_for(fn, d), [c['id']], vs, UB(_const_le(max_blob)))
            R.check(w is None, rule, fn.q + '#raw_size-upper-bound', fn.loc(c['id']),
                    'raw_size read from the file reaches %s (output.resize(raw_size)) without the test against max_uncompressed_blob_size: %s'
                    % (_method_name(c['q']), describe(fn, w)))
            w = guarded(fb, fn, starts_for(fn, d), [c['id']], vs, LB(_is01))
            R.check(w is None, rule, fn.q + '#raw_size-not-negative', fn.loc(c['id']),
                    'a negative raw_size reaches %s (converted to a huge unsigned size): %s' % (_method_name(c['q']), describe(fn, w)))
        if n_b == 0:
            R.broken('decode_blob: no call of a *_uncompress_string function found')
    # (c) BlobHeader size on both input paths
    gs = PBFP + '::get_size_in_network_byte_order'
    n_c = 0
    for fn in fb.functions:
        if fn.cls != PBFP or not fn.has_cfg:
            continue
        pm = fn.parent_map()
        for c in fn.all_nodes():
            if c.get('k') != 'call' or c.get('q') != gs:
                continue
            n_c += 1
            src = sorted(r[-1] if r[0] == 'field' else var_name(fn, r[1]) for a in c.get('args', []) if a is not None for r in local_roots(fn, a))
            key = '%s#header-size-from:%s' % (fn.q, '+'.join(src) or '?')
            # consumer
            x = c['id']
            hops = 0
            consumer = None
            while x in pm and hops < 6:
                x = pm[x]
                hops += 1
                k = fn.nodes[x].get('k')
                if k in ('wrap', 'icast', 'cast'):
                    continue
                consumer = fn.nodes[x]
                break
            if consumer is None:
                R.broken('%s: size read from the input is not consumed in a recognised way' % fn.q)
                continue
            if consumer.get('k') == 'call' and consumer.get('u') and fb.by_usr.get(consumer['u']):
                ok = True
                msg = ''
                for g in fb.by_usr[consumer['u']]:
                    if not g.params:
                        ok = False
                        continue
                    subj = {('var', g.params[0]['d'])}
                    rets = [r['id'] for r in _returns(g)]
                    w = guarded(fb, g, ['entry'], rets, subj, UB(_const_le(max_hdr)))
                    if w is not None or not rets:
                        ok = False
                        msg = '%s returns its argument unchecked: %s' % (g.q, describe(g, w))
                R.check(ok, rule, key, fn.loc(c['id']), 'BlobHeader size from the file is not bounded by max_blob_header_size: ' + msg)
            elif consumer.get('k') in ('assign', 'decl'):
                if consumer['k'] == 'assign':
                    l = fn.sn(consumer['lhs'])
                    d = l.get('d') if l is not None and l.get('k') == 'var' else None
                else:
                    d = next((v['d'] for v in consumer['vars'] if isinstance(v.get('init'), int) and c['id'] in fn.subtree(v['init'])), None)
                if d is None:
                    R.broken('%s: size read from the input is stored in something other than a local' % fn.q)
                    continue
                subj = {('var', d)}
                uses = [r['id'] for r in _returns(fn) if ('var', d) in deep_roots(fn, r['sub'])]
                uses += [n['id'] for n in fn.all_nodes() if n.get('k') == 'call' and 'q' in n and n['id'] != c['id']
                         and n.get('q') != gs and any(a is not None and ('var', d) in deep_roots(fn, a) for a in n.get('args', []))]
                w = guarded(fb, fn, [consumer['id']], uses, subj, UB(_const_le(max_hdr)))
                R.check(w is None and bool(uses), rule, key, fn.loc(c['id']),
                        'BlobHeader size from the file is used without the test against max_blob_header_size: %s' % describe(fn, w))
            elif consumer.get('k') == 'return':
                R.bad(rule, key, fn.loc(c['id']), 'BlobHeader size from the file is returned without the test against max_blob_header_size')
            else:
                R.broken('%s: size read from the input is consumed by an unrecognised construct (%s)' % (fn.q, consumer.get('cls')))
    if n_c == 0:
        R.broken('no call of %s found' % gs)
    # (d) decode_blob_header: datasize != 0
    fns = fb.fns(PBFP + '::decode_blob_header')
    if not fns:
        R.broken('decode_blob_header not found')
    for fn in fns:
        for ret in _returns(fn):
            vs = _var_roots(fn, ret['sub'])
            if len(vs) != 1:
                R.broken('decode_blob_header: returned value is not a single local')
                continue
            # the local starts at 0 (constant initialiser): the path from entry must be covered as well
            w = guarded(fb, fn, ['entry'], [ret['id']], vs, [EQ(_is0, False), LB(_is01)])
            R.check(w is None, rule, fn.q + '#datasize-not-zero', fn.loc(ret['id']),
                    'a BlobHeader without datasize (or datasize 0) is accepted: the caller reads a zero-length blob and loops on the '
                    'same header logic: %s' % describe(fn, w))
    # (e) read_from_input_queue_with_check: size bounded before resize / append / queue fill
    fns = fb.fns(PBFP + '::read_from_input_queue_with_check')
    if not fns:
        R.broken('read_from_input_queue_with_check not found')
    for fn in fns:
        if not fn.params:
            R.broken('read_from_input_queue_with_check: no size parameter')
            continue
        subj = {('var', fn.params[0]['d'])}
        uses = []
        for n in fn.all_nodes():
            if n.get('k') == 'call' and 'q' in n and any(a is not None and subj & deep_roots(fn, a) for a in n.get('args', [])):
                if _method_name(n['q']) in ('resize', 'reserve', 'append', 'assign', 'ensure_available_in_input_queue', 'read_exactly'):
                    uses.append(n['id'])
        if not uses:
            R.broken('read_from_input_queue_with_check: no allocation / fill driven by the size parameter found')
            continue
        w = guarded(fb, fn, ['entry'], uses, subj, UB(_const_le(max_blob)))
        R.check(w is None, rule, fn.q + '#blob-size-before-allocation', fn.site,
                'blob size from the BlobHeader drives resize/append without the test against max_uncompressed_blob_size: %s' % describe(fn, w))



# ------------------------------------------------------------------------------------------------ G5 o5m

def _uses_of(fn, d, exclude_conds):
    """node ids reading local d, except inside the given condition subtrees."""
    skip = set()
    for c in exclude_conds:
        skip.update(fn.subtree(c))
    return [n['id'] for n in fn.all_nodes() if n.get('k') == 'var' and n.get('d') == d and n['id'] not in skip]


def _matching_conds(fn, classify):
    return matching_conds(fn, classify)


def _is_ptr_t(t):
    t = (t or '').strip()
    return t.endswith('*') or t.endswith('*const')


def g5_o5m(fb, R):
    files = {f.file for f in fb.functions if f.cls == O5M}
    fns = [f for f in fb.functions if (f.cls in (O5M, RT) or f.file in files) and f.has_cfg and not f.is_lambda]
    if not fns:
        R.broken('no O5mParser functions found')
        return
    # ---- (a) section ends derived from a length in the file
    rule = 'G5-o5m-section-end-checked'
    for fn in fns:
        if fn.cls != O5M:
            continue
        ends = [p for p in fn.params if _is_ptr_t(p['tC']) and (p['tC'].endswith('*const') or not definitions(fn, p['d']))]
        for n in list(fn.all_nodes()):
            if n.get('k') != 'decl':
                continue
            for v in n['vars']:
                if not _is_ptr_t(v['tC']) or not isinstance(v.get('init'), int):
                    continue
                i = fn.sn(v['init'])
                if i is None or i.get('k') != 'binop' or i.get('op') != '+':
                    continue
                l, r = fn.sn(i['lhs']), fn.sn(i['rhs'])
                if l is None or r is None:
                    continue
                ptr, num = (i['lhs'], i['rhs']) if _is_ptr_t(l.get('t')) else (i['rhs'], i['lhs'])
                if fn.const_value(num) is not None:
                    continue
                # a pointer computed from pointer + variable length
                subj = {('var', v['d'])}
                pset = {('var', p['d']) for p in ends}
                mk = UB(lambda f, x, pset=pset: bool(local_roots(f, x)) and local_roots(f, x) <= pset and _is_ptr_t((f.sn(x) or {}).get('t')))
                uses = _uses_of(fn, v['d'], _matching_conds(fn, mk(_rooted_in(subj))))
                w = guarded(fb, fn, [n['id']], uses, subj, mk)
                R.check(w is None and bool(uses), rule, '%s#derived-end:%s' % (fn.q, v['name']), fn.loc(n['id']),
                        'section end computed from a length in the file is used without first being compared with the end of the dataset '
                        '(derived > end -> throw): %s' % describe(fn, w))
    # ---- (b) ReferenceTable::get
    rule = 'G5-o5m-reference-table-bounds'
    gets = fb.fns(RT + '::get')
    adds = fb.fns(RT + '::add')
    if not gets or not adds:
        R.broken('ReferenceTable::get / add not found')
    for fn in gets:
        idx = [c for c in fn.all_nodes() if c.get('k') == 'call' and c.get('op') == '[]' and c.get('recv') is not None and fn.is_this_member(c['recv'])]
        if len(idx) != 1 or not fn.params:
            R.broken('ReferenceTable::get: expected one indexed access of the table member')
            continue
        tbl = fn.sn(idx[0]['recv'])['name']
        pe = classify_edges(fn, truthy(lambda f, x: (f.sn(x) or {}).get('k') == 'call' and _method_name((f.sn(x) or {}).get('q', '')) == 'empty'
                                       and _recv_field(f, f.sn(x)) == tbl, want_true=False))
        w = reaches_unchecked(fn, ['entry'], [idx[0]['id']], pe)
        R.check(w is None, rule, fn.q + '#table-allocated', fn.loc(idx[0]['id']),
                'the table is indexed although it may still be empty (it is allocated lazily by add()): %s' % describe(fn, w))
        subj = {('var', fn.params[0]['d'])}
        nent = _table_entries(fn, idx[0])
        w = guarded(fb, fn, ['entry'], [idx[0]['id']], subj, UB(lambda f, x: f.const_value(x) is not None and nent is not None and f.const_value(x) <= nent))
        R.check(w is None, rule, fn.q + '#index-upper-bound', fn.loc(idx[0]['id']),
                'string reference from the file is used without the test index > number_of_entries: %s' % describe(fn, w))
        w = guarded(fb, fn, ['entry'], [idx[0]['id']], subj, [EQ(_is0, False), LB(_is01)])
        R.check(w is None, rule, fn.q + '#index-not-zero', fn.loc(idx[0]['id']),
                'string reference 0 is not rejected: %s' % describe(fn, w))
    # ---- (c) ReferenceTable::add
    for fn in adds:
        copies = [c for c in fn.all_nodes() if c.get('k') == 'call' and c.get('q') in ('std::copy_n', 'std::copy', 'memcpy', 'std::memcpy', 'std::memmove', 'memmove')]
        if len(copies) != 1:
            R.broken('ReferenceTable::add: expected exactly one copy into the table')
            continue
        cp = copies[0]
        args = cp.get('args', [])
        cnt = None
        for a in args:
            if a is not None and not _is_ptr_t((fn.sn(a) or {}).get('t')):
                cnt = a
        dst = [x for a in args if a is not None for x in fn.subtree(a)
               if fn.nodes[x].get('k') == 'call' and fn.nodes[x].get('op') == '[]' and fn.nodes[x].get('recv') is not None and fn.is_this_member(fn.nodes[x]['recv'])]
        if cnt is None or len(dst) != 1:
            R.broken('ReferenceTable::add: cannot identify count / destination of the copy')
            continue
        entry_size = _entry_size(fn, dst[0])
        subj = _var_roots(fn, cnt)
        w = guarded(fb, fn, ['entry'], [cp['id']], subj, UB(lambda f, x: f.const_value(x) is not None and entry_size is not None and f.const_value(x) <= entry_size))
        R.check(w is None and bool(subj), rule, fn.q + '#copy-size-bounded', fn.loc(cp['id']),
                'a string from the file is copied into a table slot without the size test (size <= max_length <= entry_size=%s): %s' % (entry_size, describe(fn, w)))
        tbl = fn.sn(fn.nodes[dst[0]]['recv'])['name']
        resizes = [c for c in fn.all_nodes() if c.get('k') == 'call' and _method_name(c.get('q', '')) in ('resize', 'assign') and _recv_field(fn, c) == tbl]
        pe = classify_edges(fn, truthy(lambda f, x: (f.sn(x) or {}).get('k') == 'call' and _method_name((f.sn(x) or {}).get('q', '')) == 'empty'
                                       and _recv_field(f, f.sn(x)) == tbl, want_true=False))
        w = reaches_unchecked(fn, ['entry'], [cp['id']], pe, barriers=[c['id'] for c in resizes])
        R.check(w is None, rule, fn.q + '#table-allocated', fn.loc(cp['id']),
                'the copy into the table can run while the table is still empty: %s' % describe(fn, w))
        # slot arithmetic: the largest value the slot counter can have when the copy runs, times the slot size, must lie
        # inside resize(...).  `++c == N` / `++c; if (c == N)` keep c in [0, N-1]; `c++ == N` (old value compared) or
        # `++c > N` let it reach N, and so on.
        counter = None
        index_locals = set()
        for a2 in fn.nodes[dst[0]].get('args', []):
            if a2 is not None:
                for r in local_roots(fn, a2):
                    if r[0] == 'field':
                        counter = r
                    elif r[0] == 'var':
                        index_locals.add(r)
        if counter is None:
            # the slot is addressed through a local working copy of the member (`entry = current_entry; ... m_table[entry * size]`)
            for r in index_locals:
                for dn in definitions(fn, r[1]):
                    dnn = fn.nodes[dn]
                    if dnn.get('k') == 'decl':
                        for v in dnn['vars']:
                            if v['d'] == r[1] and isinstance(v.get('init'), int):
                                fr = [x for x in local_roots(fn, v['init']) if x[0] == 'field']
                                if len(fr) == 1 and len(local_roots(fn, v['init'])) == 1:
                                    counter = fr[0]
        # the counter itself, or a local working copy of it: initialised from the member (counter + k), updated, and
        # stored back to the member (`next = counter + 1; if (next == N) next = 0; counter = next;`)
        copies = set()
        if counter is not None:
            for n in fn.all_nodes():
                if n.get('k') == 'assign' and n.get('op') == '=' and _is_this_field(fn, n['lhs'], counter[-1]):
                    rv = fn.sn(n['rhs'])
                    if rv is not None and rv.get('k') == 'var' and rv.get('vk') == 'local':
                        for dn in definitions(fn, rv['d']):
                            dnn = fn.nodes[dn]
                            if dnn.get('k') == 'decl' and any(v['d'] == rv['d'] and isinstance(v.get('init'), int) and local_roots(fn, v['init']) == {counter}
                                                              for v in dnn['vars']):
                                copies.add(('var', rv['d']))

        def _is_counter(x):
            r = local_roots(fn, x)
            return counter is not None and (r == {counter} or (len(r) == 1 and r <= copies))
        wraps = []
        for blk in fn.blocks.values():
            for (at, _truth, _idx) in edge_atoms(fn, blk):
                pc = cmp_parts(fn, at)
                if pc is None or counter is None:
                    continue
                op, l, r = pc
                if _is_counter(l) and fn.const_value(r) is not None:
                    side, bound = l, fn.const_value(r)
                elif _is_counter(r) and fn.const_value(l) is not None:
                    side, bound = r, fn.const_value(l)
                    op = {'<': '>', '<=': '>=', '>': '<', '>=': '<=', '==': '==', '!=': '!='}[op]
                else:
                    continue
                if op not in ('==', '>=', '>'):
                    continue
                postfix = any(fn.nodes[y].get('k') == 'unop' and fn.nodes[y].get('op') == '++' and fn.nodes[y].get('postfix') for y in fn.subtree(side))
                need = bound + (1 if postfix else 0) + (1 if op == '>' else 0)
                if need not in wraps:
                    wraps.append(need)
        sizes = [fn.const_value(c['args'][0]) for c in resizes if c.get('args')]
        ok = bool(resizes) and bool(wraps) and entry_size is not None and all(s is not None and s >= entry_size * w_ for s in sizes for w_ in wraps)
        R.check(ok, rule, fn.q + '#slot-arithmetic', fn.site,
                'table size %s, slot size %s and the number of slots the counter can address %s do not agree (the counter must wrap before '
                'counter * slot size reaches the table size)' % (sizes, entry_size, wraps))
    # ---- (d) dataset framing in decode_data / decode_header
    rule = 'G5-o5m-bytes-available'
    eba = O5M + '::ensure_bytes_available'

    def eba_with(pred):
        def is_e(f, x):
            n = f.sn(x)
            return n is not None and n.get('k') == 'call' and n.get('q') == eba and n.get('args') and pred(f, n['args'][0])
        return truthy(is_e, want_true=True)
    for fn in fb.fns(O5M + '::decode_data'):
        # dataset length
        lens = set()
        for n in fn.all_nodes():
            if n.get('k') == 'binop' and n.get('op') == '+' or n.get('k') == 'assign' and n.get('op') == '+=':
                l, r = n['lhs'], n['rhs']
                if _is_this_field(fn, l) and _is_ptr_t(fn.sn(l).get('t')):
                    for rt in local_roots(fn, r):
                        if rt[0] == 'var':
                            lens.add(rt[1])
        if not lens:
            R.broken('decode_data: no `cursor + length` expression found')
        for d in lens:
            subj = {('var', d)}
            cl = eba_with(_rooted_in(subj))
            pe = classify_edges(fn, cl)
            uses = _uses_of(fn, d, _matching_conds(fn, cl))
            uses = [u for u in uses if not any(fn.nodes[x]['id'] == u for dd in definitions(fn, d) for x in fn.subtree(dd))]
            w = reaches_unchecked(fn, starts_for(fn, d), uses, pe)
            R.check(w is None and bool(uses), rule, '%s#dataset-length' % fn.q, fn.site,
                    'the dataset length from the file is used (cursor + length handed to a decoder / skipped) without a successful '
                    'ensure_bytes_available(length): %s' % describe(fn, w))
        # type byte
        derefs = []
        for n in fn.all_nodes():
            if n.get('k') == 'unop' and n.get('op') == '*':
                for x in fn.subtree(n['sub']):
                    if _is_this_field(fn, x) and _is_ptr_t(fn.nodes[x].get('t')) and fn.nodes[x]['name'] != 'this':
                        derefs.append(n['id'])
                        break
        if not derefs:
            R.broken('decode_data: no dereference of the input cursor found')
        pe = classify_edges(fn, eba_with(lambda f, x: (f.const_value(x) or 0) >= 1))
        advances = ['entry'] + [n['id'] for n in fn.all_nodes() if n.get('k') == 'assign' and _is_this_field(fn, n['lhs']) and _is_ptr_t(fn.sn(n['lhs']).get('t'))]
        w = reaches_unchecked(fn, advances, derefs, pe)
        R.check(w is None, rule, '%s#type-byte' % fn.q, fn.site,
                'the dataset type byte is read without a successful ensure_bytes_available(>=1) since the cursor last moved: %s' % describe(fn, w))
    if not fb.fns(O5M + '::decode_data'):
        R.broken('O5mParser::decode_data not found')
    for fn in fb.fns(O5M + '::decode_header'):
        need = 0
        readers = []
        for c in fn.all_nodes():
            if c.get('k') == 'call' and c.get('rcls') == O5M and c.get('q') != eba:
                for g in fb.by_usr.get(c.get('u'), [])[:1]:
                    k = _consumption(g)
                    if k:
                        need += k
                        readers.append(c['id'])
        if not readers:
            R.broken('decode_header: no header-reading callee found')
            continue
        pe = classify_edges(fn, eba_with(lambda f, x, need=need: (f.const_value(x) or 0) >= need))
        w = reaches_unchecked(fn, ['entry'], readers, pe)
        R.check(w is None, rule, '%s#header-bytes' % fn.q, fn.site,
                'the %d header bytes are read without a successful ensure_bytes_available(>= %d): %s' % (need, need, describe(fn, w)))
    if not fb.fns(O5M + '::decode_header'):
        R.broken('O5mParser::decode_header not found')
    # ---- (e) cursor dereferences
    rule = 'G5-o5m-cursor-deref-end-checked'
    S = {}
    flows = {}
    for rnd in range(8):
        changed = False
        for fn in fns:
            cf = CursorFlow(fn, S).run()
            flows[id(fn)] = cf
            new = {'pre': frozenset(cf.pre), 'ret': bool(cf.ret_ok), 'post': frozenset(cf.post), 'chk': frozenset(cf.chk)}
            if S.get(fn.usr) != new:
                S[fn.usr] = new
                changed = True
        if not changed:
            break
    else:
        R.broken('o5m cursor analysis did not converge')
    for fn in fns:
        cf = flows[id(fn)]
        per = {}
        for (c, nid, lvl, what) in cf.events:
            per.setdefault(c, []).append((nid, lvl, what))
        for c, evs in per.items():
            name = cf.cursors[c][1]
            disp = ('*' + name) if cf.cursors[c][0] == 'pp' else name
            bad = [(nid, what) for (nid, lvl, what) in evs if lvl == UNCHECKED]
            R.check(not bad, rule, '%s#cursor:%s' % (fn.q, disp), fn.loc(evs[0][0]),
                    'input cursor %s: %s at %s is reachable after the cursor was advanced / assigned without a comparison against the end '
                    'pointer in between (read past the end of the dataset on truncated input)'
                    % (disp, bad[0][1] if bad else '', fn.loc(bad[0][0]) if bad else ''))


def _table_entries(fn, idxcall):
    """N of `(... ) % N` in the definition of the index variable (number of slots), else None."""
    vs = [r for a in idxcall.get('args', []) if a is not None for r in local_roots(fn, a) if r[0] == 'var']
    for r in vs:
        for d in definitions(fn, r[1]):
            for x in fn.subtree(d):
                n = fn.nodes[x]
                if n.get('k') == 'binop' and n.get('op') == '%':
                    return fn.const_value(n['rhs'])
    return None


def _entry_size(fn, idxcall_id):
    n = fn.nodes[idxcall_id]
    for a in n.get('args', []):
        if a is None:
            continue
        m = fn.sn(a)
        if m is not None and m.get('k') == 'binop' and m.get('op') == '*':
            for side in (m['lhs'], m['rhs']):
                v = fn.const_value(side)
                if v is not None:
                    return v
    return None


def _consumption(g):
    """bytes by which a method advances a pointer member through constant steps (++ / += const)."""
    k = 0
    for n in g.all_nodes():
        if n.get('k') == 'unop' and n.get('op') == '++' and _is_this_field(g, n['sub']) and _is_ptr_t(g.sn(n['sub']).get('t')):
            k += 1
        elif n.get('k') == 'assign' and n.get('op') == '+=' and _is_this_field(g, n['lhs']) and _is_ptr_t(g.sn(n['lhs']).get('t')):
            v = g.const_value(n['rhs'])
            if v is not None:
                k += v
    return k


# ------------------------------------------------------------------------------------------------ G6 member types

def _item_type_values(fb):
    e = fb.enum('osmium::item_type')
    if e is None:
        return None
    return {x['name']: int(x['value']) for x in e['enumerators']}


def _nwr_values(fn, it):
    def f(f2, nid):
        v = f2.const_value(nid)
        return v is not None and v in (it['node'], it['way'], it['relation'])
    return f


def g6_member_types(fb, R):
    it = _item_type_values(fb)
    if it is None:
        R.broken('enum osmium::item_type not found')
        return
    rule = 'G6-member-type-range-checked'
    # (1) explicit casts of a computed integer to item_type in the parsers
    n1 = 0
    for fn in fb.functions:
        if not fn.has_cfg or not _parser_file(fn):
            continue
        for n in fn.all_nodes():
            if n.get('k') != 'cast' or n.get('toC') != 'osmium::item_type' or fn.const_value(n['id']) is not None:
                continue
            vs = _var_roots(fn, n['sub'])
            if len(vs) != 1:
                continue
            sub = fn.sn(n['sub'])
            if sub is not None and sub.get('t') == 'osmium::item_type':
                continue
            n1 += 1
            d = list(vs)[0][1]
            k = _affine(fn, n['sub'], d)
            key = '%s#cast-to-item_type' % fn.q
            if k is None:
                R.bad(rule, key, fn.loc(n['id']), 'cast of a computed value to item_type whose relation to the checked variable is not v + const')
                continue
            w1 = guarded_ip(fb, fn, starts_for(fn, d), [n['id']], vs, _affine_bound('upper', k, lambda v: v <= it['relation']))
            w2 = guarded_ip(fb, fn, starts_for(fn, d), [n['id']], vs, _affine_bound('lower', k, lambda v: v >= it['node'] - 1))
            R.check(w1 is None and w2 is None, rule, key, fn.loc(n['id']),
                    'member type from the file is cast to item_type without a range test (node..relation): %s' % _ipd(w1 or w2))
    # (2) nwr_index_to_item_type(v - k) in the parsers
    n2 = 0
    for fn in fb.functions:
        if not fn.has_cfg or not _parser_file(fn):
            continue
        for c in fn.all_nodes():
            if c.get('k') != 'call' or c.get('q') != 'osmium::nwr_index_to_item_type' or not c.get('args'):
                continue
            a = c['args'][0]
            vs = _var_roots(fn, a)
            if len(vs) != 1:
                continue
            n2 += 1
            d = list(vs)[0][1]
            k = _affine(fn, a, d)
            key = '%s#nwr_index_to_item_type' % fn.q
            if k is None:
                R.bad(rule, key, fn.loc(c['id']), 'index handed to nwr_index_to_item_type is not v + const of a checked variable')
                continue
            w1 = guarded_ip(fb, fn, starts_for(fn, d), [c['id']], vs, _affine_bound('upper', k, lambda v: v <= 2))
            w2 = guarded_ip(fb, fn, starts_for(fn, d), [c['id']], vs, _affine_bound('lower', k, lambda v: v >= -1))
            R.check(w1 is None and w2 is None, rule, key, fn.loc(c['id']),
                    'member type character is converted without a range test (0..2): %s' % _ipd(w1 or w2))
    # (3) add_member(type, ...) with a type local produced by char_to_item_type: allowed-set test
    n3 = 0
    for fn in fb.functions:
        if not fn.has_cfg or not _parser_file(fn):
            continue
        cands = {}
        for c in fn.all_nodes():
            if c.get('k') != 'call' or c.get('q') != 'osmium::builder::RelationMemberListBuilder::add_member' or not c.get('args'):
                continue
            t = fn.sn(c['args'][0])
            if t is None or t.get('k') != 'var' or t.get('vk') != 'local':
                continue
            cands.setdefault(t['d'], []).append(c['id'])
        for d, uses in cands.items():
            if not _fed_by(fb, fn, d, 'osmium::char_to_item_type'):
                continue
            n3 += 1
            vs = {('var', d)}
            # the local may be assigned inside a lambda (XML attribute callback): every definition site counts, and the
            # declaration itself (initial value `undefined`) as well
            w = guarded(fb, fn, ['entry'], uses, vs, EQ(_nwr_values(fn, it), True))
            R.check(w is None, rule, '%s#add_member-type' % fn.q, fn.loc(uses[0]),
                    'member type decoded by char_to_item_type reaches add_member without the node/way/relation test: %s' % describe(fn, w))
    R.note('G6: %d casts, %d index conversions, %d allowed-set sites' % (n1, n2, n3))


def _affine_bound(kind, k_use, ok):
    """classifier factory for `use = v + k_use` protected by a comparison of any `v + k_cmp` (named local, inline
    arithmetic) with a constant B: the constant is translated to the use (B - k_cmp + k_use) before `ok` judges it."""
    def mk(is_subject):
        def adjusted(fn, side, other):
            vs = _var_roots(fn, side)
            b = fn.const_value(other)
            if len(vs) != 1 or b is None:
                return None
            kc = _affine(fn, side, list(vs)[0][1])
            if kc is None:
                return None
            return b - kc + k_use

        def classify(fn, cid):
            p = cmp_parts(fn, cid)
            if p is None:
                return None
            op, l, r = p
            if is_subject(fn, l) and fn.const_value(r) is not None:
                adj = adjusted(fn, l, r)
            elif is_subject(fn, r) and fn.const_value(l) is not None:
                adj = adjusted(fn, r, l)
                op = {'<': '>', '<=': '>=', '>': '<', '>=': '<=', '==': '==', '!=': '!='}[op]
            else:
                return None
            if adj is None or not ok(adj):
                return None
            if kind == 'upper':
                return 'F' if op in ('>', '>=') else 'T' if op in ('<', '<=') else None
            return 'F' if op in ('<', '<=') else 'T' if op in ('>', '>=') else None

        def on_switch(fn, cond, label):
            if not is_subject(fn, cond) or fn.const_value(label) is None:
                return False
            adj = adjusted(fn, cond, label)
            return adj is not None and ok(adj)
        classify.on_switch = on_switch
        return classify
    return mk


def _affine(fn, nid, d, depth=0):
    """k if the expression is (var d) + k with casts and named pure locals looked through, else None."""
    x = fn.strip(nid)
    n = fn.nodes.get(x)
    hops = 0
    while n is not None and n.get('k') == 'cast' and hops < 6:
        x = fn.strip(n['sub'])
        n = fn.nodes.get(x)
        hops += 1
    if n is None or depth > 4:
        return None
    if n.get('k') == 'var' and n.get('d') == d:
        return 0
    if n.get('k') == 'var' and n.get('vk') == 'local':
        init = single_init(fn, n['d'])
        return _affine(fn, init, d, depth + 1) if init is not None else None
    if n.get('k') == 'binop' and n.get('op') in ('+', '-'):
        c = fn.const_value(n['rhs'])
        if c is not None:
            k = _affine(fn, n['lhs'], d, depth + 1)
            if k is not None:
                return k + (c if n['op'] == '+' else -c)
        c = fn.const_value(n['lhs'])
        if c is not None and n['op'] == '+':
            k = _affine(fn, n['rhs'], d, depth + 1)
            if k is not None:
                return k + c
    return None


def _addend(fn, nid, d):
    """k if the expression is (var d) + k / (var d) - k / (var d) with implicit conversions only, else None."""
    n = fn.sn(nid)
    if n is None:
        return None
    if n.get('k') == 'var' and n.get('d') == d:
        return 0
    if n.get('k') == 'binop' and n.get('op') in ('+', '-'):
        l, r = fn.sn(n['lhs']), fn.sn(n['rhs'])
        if l is not None and l.get('k') == 'var' and l.get('d') == d:
            c = fn.const_value(n['rhs'])
            if c is not None:
                return c if n['op'] == '+' else -c
        if n['op'] == '+' and r is not None and r.get('k') == 'var' and r.get('d') == d:
            c = fn.const_value(n['lhs'])
            if c is not None:
                return c
    return None


def _fed_by(fb, fn, d, callee_q):
    """local d is initialised / assigned from a call of callee_q in fn or in a lambda of fn that captures it."""
    for n in fn.all_nodes():
        if n.get('k') == 'decl':
            for v in n['vars']:
                if v['d'] == d and isinstance(v.get('init'), int):
                    if any(fn.nodes[x].get('q') == callee_q for x in fn.subtree(v['init'])):
                        return True
        if n.get('k') == 'assign':
            l = fn.sn(n['lhs'])
            if l is not None and l.get('k') == 'var' and l.get('d') == d and any(fn.nodes[x].get('q') == callee_q for x in fn.subtree(n['rhs'])):
                return True
    name = var_name(fn, d)
    for g in fb.lambdas_in(fn):
        for n in g.all_nodes():
            if n.get('k') == 'assign':
                l = g.sn(n['lhs'])
                if l is not None and l.get('k') in ('var', 'member') and l.get('name') == name and any(g.nodes[x].get('q') == callee_q for x in g.subtree(n['rhs'])):
                    return True
    return False



# ------------------------------------------------------------------------------------------------ G7 expat boundary

def _fn_args(fn, c):
    out = []
    for a in c.get('args', []) or []:
        n = fn.sn(a) if a is not None else None
        if n is not None and n.get('k') == 'unop' and n.get('op') == '&':
            n = fn.sn(n['sub'])
        if n is not None and n.get('k') == 'var' and n.get('vk') == 'function' and n.get('q'):
            out.append(n['q'])
    return out


def _noexcept_chain(fb, root, depth=8):
    """root plus the noexcept osmium functions it reaches through resolved calls without leaving noexcept functions."""
    out = []
    seen = set()
    work = [(root, 0)]
    while work:
        f, d = work.pop()
        if id(f) in seen:
            continue
        seen.add(id(f))
        out.append(f)
        if d >= depth:
            continue
        for c in f.calls():
            for g in fb.by_usr.get(c.get('u'), []):
                if g.noexcept and g.has_cfg:
                    work.append((g, d + 1))
    return out


def g7_expat(fb, R, esc):
    rule = 'G7-expat-callbacks-contained'
    regs = []
    for fn in fb.functions:
        if not fn.has_cfg or not (fn.cls or '').startswith(XMLP):
            continue
        for c in fn.all_nodes():
            if c.get('k') == 'call' and (c.get('q') or '').startswith('XML_Set') and (c.get('q') or '').endswith('Handler'):
                regs.append((fn, c))
    if not regs:
        R.broken('no XML_Set*Handler registration found')
        return
    chain_fns = {}
    callbacks = []
    for (fn, c) in regs:
        qs = _fn_args(fn, c)
        if not qs:
            R.broken('%s: %s is not given a named function' % (fn.q, c['q']))
        for q in qs:
            for g in fb.fns(q):
                callbacks.append((c['q'], g))
    for (setter, g) in callbacks:
        msgs = []
        if not g.noexcept:
            msgs.append('%s is not noexcept (an exception would unwind through the C frames of expat)' % g.q)
        for h in _noexcept_chain(fb, g):
            chain_fns[id(h)] = h
            e = esc.body_escapes(h)
            if e:
                t = sorted(e)[0]
                msgs.append('%s can escape the body of noexcept %s (std::terminate): %s' % (t, h.q, esc.chain(e[t], t)))
        R.check(not msgs, rule, '%s#registered-with:%s' % (g.q, setter), g.site, '; '.join(msgs))
    # poisoned parser: once an exception has been stored the handlers must not run again (expat keeps calling callbacks after
    # XML_StopParser, e.g. the end-element callback of an empty-element tag): on every path to a call inside the try block of the
    # containing catch-all the member the handler stores into has been tested and found empty
    for (setter, g) in callbacks:
        key = '%s#handler-not-run-after-stored-exception' % g.q
        verdict = None
        why = 'no function with a catch (...) on the call chain of this callback'
        for h in _noexcept_chain(fb, g):
            for (t, hd) in catch_alls(h):
                store_fields = set()
                for n in h.all_nodes():
                    if n.get('k') == 'call' and h.in_range(n['id'], hd['b'], hd['e']):
                        if _is_store(h, n):
                            store_fields.add(h.sn(n['recv'])['name'])
                        for g2 in fb.by_usr.get(n.get('u'), [])[:1]:
                            if g2.has_cfg and (g2.cls or '').startswith(XMLP):
                                store_fields |= {g2.sn(m['recv'])['name'] for m in g2.all_nodes() if m.get('k') == 'call' and _is_store(g2, m)}
                if not store_fields:
                    verdict, why = False, 'the catch-all of %s does not store the exception in a member' % h.q
                    continue
                targets = [n['id'] for n in h.all_nodes() if n.get('k') == 'call' and h.in_range(n['id'], t['b'], t['e'])
                           and n.get('q') not in ('std::forward', 'std::move') and elem_of(h, n['id']) is not None]
                if not targets:
                    continue

                def is_m(f, x, store_fields=store_fields):
                    n = f.nodes.get(_unwrap(f, x))
                    if n is None:
                        return False
                    if n.get('k') == 'call' and _method_name(n.get('q', '')) in ('(conv)', 'operator bool') and n.get('recv') is not None:
                        n = f.sn(n['recv'])
                    return n is not None and n.get('k') == 'member' and n.get('field') and n['name'] in store_fields
                def is_null(f, x):
                    return f.const_value(x) == 0 or any(f.nodes[y].get('null') or f.nodes[y].get('cls') == 'CXXNullPtrLiteralExpr' for y in f.subtree(x))

                def empty_edges(f, is_m=is_m, is_null=is_null):
                    return classify_edges(f, truthy(is_m, want_true=False)) | classify_edges(f, equals(is_m, is_null, want_equal=True))
                pe = empty_edges(h)
                w = reaches_unchecked(h, ['entry'], targets, pe)
                if w is not None and h is not g:
                    # the test may sit in the caller on the chain (wrap() testing before it calls member_wrap())
                    ok_callers = True
                    sites = [(c2f, c2) for c2f in _noexcept_chain(fb, g) for c2 in c2f.all_nodes() if c2.get('k') == 'call' and c2.get('u') == h.usr]
                    for (c2f, c2) in sites:
                        pe2 = empty_edges(c2f)
                        if not pe2 or reaches_unchecked(c2f, ['entry'], [c2['id']], pe2) is not None:
                            ok_callers = False
                    if sites and ok_callers:
                        w = None
                if w is None:
                    if verdict is None:
                        verdict = True
                else:
                    verdict = False
                    why = ('%s runs the handler although an exception may already be stored in %s (no test of it on the path %s): expat calls further '
                           'callbacks after XML_StopParser (end of an empty-element tag), which then run on a half-updated state machine'
                           % (h.q, '/'.join(sorted(store_fields)), describe(h, w)))
        R.check(verdict is True, 'G7-expat-handler-not-run-after-error', key, g.site, why)
    # the catch-all that contains the exceptions stores it and stops the parser
    n_catch = 0
    for h in chain_fns.values():
        for (t, hd) in catch_alls(h):
            n_catch += 1
            b = handler_entry_block(h, hd)
            if b is None:
                R.broken('%s: catch-all handler block not found' % h.q)
                continue
            stores = []
            stops = []
            for n in h.all_nodes():
                if n.get('k') == 'call' and h.in_range(n['id'], hd['b'], hd['e']):
                    if _is_stop(h, n):
                        stops.append(n['id'])
                    if _is_store(h, n):
                        stores.append(n['id'])
                    # the same two actions inside a member helper called from the handler
                    for g in fb.by_usr.get(n.get('u'), [])[:1]:
                        if g.has_cfg and (g.cls or '').startswith(XMLP):
                            gs = [elem_of(g, m['id']) for m in g.all_nodes() if m.get('k') == 'call' and _is_store(g, m)]
                            gp = [elem_of(g, m['id']) for m in g.all_nodes() if m.get('k') == 'call' and _is_stop(g, m)]
                            if gs and must_pass(g, g.entry, gs) is None:
                                stores.append(n['id'])
                            if gp and must_pass(g, g.entry, gp) is None:
                                stops.append(n['id'])
            w1 = must_pass(h, b, [elem_of(h, x) for x in stores]) if stores else ['no store']
            w2 = must_pass(h, b, [elem_of(h, x) for x in stops]) if stops else ['no stop']
            R.check(w1 is None and w2 is None, 'G7-expat-exception-stored-and-parser-stopped', '%s#catch-all' % h.q, h.site,
                    'the catch-all on the expat boundary must store std::current_exception() in a member and call XML_StopParser on every path '
                    '(otherwise the error is lost / parsing continues on a half-updated state machine)')
    if n_catch == 0:
        R.bad('G7-expat-exception-stored-and-parser-stopped', EXPAT + '#catch-all', regs[0][0].site,
              'no catch (...) on the call chain of the expat callbacks')
    # entity declarations rejected
    ent = [(fn, c) for (fn, c) in regs if c['q'] == 'XML_SetEntityDeclHandler']
    ctors = fb.fns(EXPAT + '::(ctor)')
    for fn in ctors:
        mine = [c['id'] for (f2, c) in ent if f2 is fn]
        w = must_pass(fn, fn.entry, mine) if mine else ['missing']
        ok = w is None
        msg = 'the constructor does not register an entity-declaration handler on every path (billion-laughs expansion inside expat)'
        if ok:
            for (f2, c) in ent:
                if f2 is not fn:
                    continue
                for q in _fn_args(fn, c):
                    for g in fb.fns(q):
                        lams = fb.lambdas_in(g)
                        throws_always = bool(lams) and all(
                            path_search(l, l.entry, _exit_t, lambda x, l=l: l.nodes.get(x, {}).get('k') == 'throw', from_block_start=True) is None
                            and any(n.get('k') == 'throw' for n in l.all_nodes()) for l in lams)
                        direct = any(n.get('k') == 'throw' for n in g.all_nodes())
                        if not (throws_always or direct):
                            ok = False
                            msg = 'the entity-declaration handler %s does not throw' % g.q
        R.check(ok, 'G7-expat-entity-declarations-rejected', fn.q + '#XML_SetEntityDeclHandler', fn.site, msg)
    if not ctors:
        R.broken('ExpatXMLParser constructor not found')
    # XML_Parse error branch
    ops = fb.fns(EXPAT + '::operator()')
    if not ops:
        R.broken('ExpatXMLParser::operator() not found')
    for fn in ops:
        parses = [c for c in fn.all_nodes() if c.get('k') == 'call' and c.get('q') == 'XML_Parse']
        if len(parses) != 1:
            R.broken('%s: expected exactly one XML_Parse call' % fn.q)
            continue
        pc = parses[0]

        def is_err(f, x, pc=pc):
            p = cmp_parts(f, x)
            if p is None:
                return None
            op, l, r = p
            if resolve_local(f, l) == pc['id']:
                other = r
            elif resolve_local(f, r) == pc['id']:
                other = l
            else:
                return None
            v = f.const_value(other)
            if v == 0 and op == '==':
                return 'T'
            if v == 0 and op == '!=':
                return 'F'
            if v == 1 and op == '!=':
                return 'T'
            if v == 1 and op == '==':
                return 'F'
            return None
        err_edges = classify_edges(fn, is_err)
        key = fn.q + '#parse-error'
        if not err_edges:
            R.bad('G7-expat-parse-error-rethrows-stored-first', key, fn.loc(pc['id']), 'the result of XML_Parse is not compared with XML_STATUS_ERROR')
            continue
        ok = True
        msg = ''
        rethrows = [n for n in fn.all_nodes() if n.get('k') == 'call' and n.get('q') == 'std::rethrow_exception']

        def ends(x):
            n = fn.nodes.get(x, {})
            return n.get('k') == 'throw' or (n.get('k') == 'call' and n.get('q') == 'std::rethrow_exception')
        for (b, idx) in err_edges:
            s = fn.blocks[b]['succs'][idx]
            if s is None:
                continue
            w = path_search(fn, s, _exit_t, ends, from_block_start=True)
            if w is not None:
                ok = False
                msg = 'the error branch of XML_Parse can return normally'
        if not rethrows:
            ok = False
            msg = 'the stored exception is never rethrown'
        for n in fn.all_nodes():
            if n.get('k') == 'throw' and not n.get('rethrow'):
                g = guards(fn, n['id'])
                first = any((not sense) and _reads_exception_ptr(fn, cn) for (cn, sense, _b) in g)
                if not first:
                    ok = False
                    msg = 'the parser\'s own xml_error is thrown without first testing the stored exception (the real cause is masked)'
        for n in rethrows:
            g = guards(fn, n['id'])
            if not any(sense and _reads_exception_ptr(fn, cn) for (cn, sense, _b) in g):
                ok = False
                msg = 'std::rethrow_exception is not guarded by a test of the stored exception_ptr (rethrowing a null pointer terminates)'
        R.check(ok, 'G7-expat-parse-error-rethrows-stored-first', key, fn.loc(pc['id']), msg)


def _is_stop(f, n):
    return n.get('q') == 'XML_StopParser'


def _is_store(f, n):
    return n.get('op') == '=' and any(f.nodes[x].get('q') == 'std::current_exception' for x in f.subtree(n['id'])) \
        and n.get('recv') is not None and f.is_this_member(n['recv'])


def _reads_exception_ptr(fn, cid):
    for x in fn.subtree(cid):
        n = fn.nodes[x]
        if n.get('k') == 'member' and n.get('field') and 'exception_ptr' in (n.get('t') or ''):
            return True
    return False


# ------------------------------------------------------------------------------------------------ G9 UTF-8 decode

def g9_utf8(fb, R):
    fns = fb.fns('osmium::io::detail::next_utf8_codepoint')
    if not fns:
        R.broken('next_utf8_codepoint not found')
        return
    for fn in fns:
        # the byte cursor: a pointer local that is incremented
        its = set()
        for n in fn.all_nodes():
            if n.get('k') == 'unop' and n.get('op') == '++':
                s = fn.sn(n['sub'])
                if s is not None and s.get('k') == 'var' and s.get('vk') == 'local' and _is_ptr_t(s.get('t')):
                    its.add(s['d'])
        if len(its) != 1:
            R.broken('next_utf8_codepoint: expected exactly one byte cursor')
            continue
        it = list(its)[0]
        ends = {('var', p['d']) for p in fn.params if _is_ptr_t(p['tC']) and not p['tC'].endswith('**')}

        def is_dist(f, x):
            n = f.nodes.get(_unwrap(f, x))
            if n is None:
                return False
            r = deep_roots(f, n['id'])
            if ('var', it) not in r or not (r & ends) or not r <= (ends | {('var', it)}):
                return False
            return (n.get('k') == 'call' and n.get('q') == 'std::distance') or (n.get('k') == 'binop' and n.get('op') == '-')

        def is_other(f, x):
            r = deep_roots(f, x)
            return bool(r) and ('var', it) not in r and not (r & ends)

        def is_advanced(f, x):        # it + length
            n = f.nodes.get(_unwrap(f, x))
            return n is not None and n.get('k') == 'binop' and n.get('op') == '+' and ('var', it) in deep_roots(f, n['id']) \
                and not (deep_roots(f, n['id']) & ends)

        def is_end(f, x):
            r = deep_roots(f, x)
            return bool(r) and r <= ends
        cl1 = lower_bound(is_dist, is_other)            # distance(it, end) >= length
        cl2 = upper_bound(is_advanced, is_end)          # it + length <= end
        pe = classify_edges(fn, cl1) | classify_edges(fn, cl2)
        # the sequence length: what the distance is compared with
        lens = set()
        for c in matching_conds(fn, cl1) + matching_conds(fn, cl2):
            p = cmp_parts(fn, c)
            for side in (p[1], p[2]):
                for r in deep_roots(fn, side):
                    if r[0] == 'var' and r[1] != it and r not in ends:
                        lens.add(r)
        # continuation reads: dereferences of the cursor after an increment
        targets = []
        for b in fn.blocks.values():
            inc = False
            for e in b['elems']:
                n = fn.nodes[e]
                if n.get('k') == 'unop' and n.get('op') == '++' and (fn.sn(n['sub']) or {}).get('d') == it:
                    inc = True
                elif inc and n.get('k') == 'unop' and n.get('op') == '*' and (fn.sn(n['sub']) or {}).get('d') == it:
                    targets.append(e)
        if not targets:
            R.broken('next_utf8_codepoint: no continuation-byte read found')
            continue
        w = reaches_unchecked(fn, ['entry'], targets, pe)
        R.check(w is None, 'G9-utf8-length-test-before-continuation', fn.q + '#continuation-bytes', fn.site,
                'continuation bytes are read without first passing distance(it, end) >= length (read past the end of a truncated string): %s' % describe(fn, w))
        # each sequence length k reads at most k - 1 continuation bytes: regions entered with length == k (switch case or
        # equality test), counted over the blocks only reachable through that entry
        if not lens:
            sw = next((b for b in fn.blocks.values() if b.get('termcls') == 'SwitchStmt'), None)
            if sw is not None:
                lens = {r for r in deep_roots(fn, sw['cond']) if r[0] == 'var'}
        entries = []        # (k, successor block)
        is_len = _rooted_in(lens) if lens else (lambda f, x: False)
        for b in fn.blocks.values():
            if 'cond' not in b:
                continue
            if b.get('termcls') == 'SwitchStmt':
                if not is_len(fn, b['cond']):
                    continue
                for s2 in fn.succs(b['id']):
                    lab = fn.blocks[s2].get('label') or {}
                    if 'case' in lab and fn.const_value(lab['case']) is not None:
                        entries.append((fn.const_value(lab['case']), s2))
            elif len(b['succs']) == 2:
                for (a, truth, idx) in edge_atoms(fn, b):
                    p = cmp_parts(fn, a)
                    if p is None or p[0] not in ('==', '!='):
                        continue
                    if is_len(fn, p[1]) and fn.const_value(p[2]) is not None:
                        k = fn.const_value(p[2])
                    elif is_len(fn, p[2]) and fn.const_value(p[1]) is not None:
                        k = fn.const_value(p[1])
                    else:
                        continue
                    if (p[0] == '==') == truth and b['succs'][idx] is not None:
                        entries.append((k, b['succs'][idx]))
        bad = []
        dom = fn.dominators()
        for (k, e) in entries:
            region = {x for x in fn.blocks if e in dom.get(x, ()) or x == e}
            if (fn.blocks[e].get('label') or {}).get('case') is not None:
                # fall-through into the next case label would read that case's bytes as well
                for x in list(region):
                    for s2 in fn.succs(x):
                        if s2 not in region and (fn.blocks[s2].get('label') or {}).get('case') is not None and fn.blocks[x].get('termcls') != 'BreakStmt':
                            bad.append('case %d falls through' % k)
            incs = 0
            for x in region:
                for el in fn.blocks[x]['elems']:
                    n = fn.nodes[el]
                    if n.get('k') == 'unop' and n.get('op') == '++' and (fn.sn(n['sub']) or {}).get('d') == it:
                        incs += 1
            if incs > max(k - 1, 0):
                bad.append('length %d advances %d times (at most %d continuation bytes were tested)' % (k, incs, k - 1))
        if not entries:
            R.broken('next_utf8_codepoint: no per-length regions (switch cases / equality tests on the sequence length) found')
            continue
        R.check(not bad, 'G9-utf8-case-reads-its-length', fn.q + '#cases', fn.site, '; '.join(bad))


# ------------------------------------------------------------------------------------------------ NUL layout

_NULSCAN = ('memchr', 'std::memchr', 'strlen', 'std::strlen', 'strnlen', 'std::basic_string::find', 'std::basic_string::find_first_of',
            'std::find', 'std::count', 'std::any_of', 'std::none_of', 'std::char_traits::find', 'std::basic_string_view::find')
_STR_NEUTRAL = ('clear', 'size', 'length', 'empty', 'reserve', 'capacity', 'c_str', 'data', 'begin', 'end', 'cbegin', 'cend', 'shrink_to_fit',
                'operator[]', 'at', 'back', 'front', 'compare', 'find', 'substr')


def _always_throws_from(fn, b):
    if b is None:
        return False
    return path_search(fn, b, _exit_t, lambda x: fn.nodes.get(x, {}).get('k') == 'throw', from_block_start=True) is None


def _nul_scan_edges(fn, subj):
    """pass edges of conditions that scan the subject for NUL bytes and whose other edge always throws."""
    from ..errdisc import effective_cond
    out = set()
    for blk in fn.blocks.values():
        if 'cond' not in blk or len(blk['succs']) != 2 or blk.get('termcls') == 'SwitchStmt':
            continue
        c = effective_cond(fn, blk)
        if c is None:
            continue
        hit = False
        for x in fn.subtree(c):
            n = fn.nodes[x]
            if n.get('k') == 'call' and n.get('q') in _NULSCAN:
                r = set()
                for a in (n.get('args') or []) + ([n['recv']] if n.get('recv') is not None else []):
                    if a is not None:
                        r |= local_roots(fn, a)
                if r & subj:
                    hit = True
        if not hit:
            continue
        t, f = blk['succs']
        if _always_throws_from(fn, t) and not _always_throws_from(fn, f):
            out.add((blk['id'], 1))
        elif _always_throws_from(fn, f) and not _always_throws_from(fn, t):
            out.add((blk['id'], 0))
    return out


def _length_carrying_overloads(fb):
    """{usr: (fn, [append call nodes with an explicit length])} for TagListBuilder::add_tag."""
    out = {}
    for (fn, c, ps) in builder_append_sites(fb):
        if fn.q != 'osmium::builder::TagListBuilder::add_tag':
            continue
        if len([a for a in c.get('args', []) if a is not None]) >= 2:
            out.setdefault(fn.usr, (fn, []))[1].append((c, ps))
    return out


_NUL_FINDERS = ('std::find', 'memchr', 'std::memchr', 'std::char_traits::find', 'rawmemchr')
_NUL_LENGTHS = ('strlen', 'std::strlen', 'strnlen', 'std::char_traits::length')


def _unwrap(fn, nid):
    """skip casts and named pure locals"""
    x = resolve_local(fn, nid)
    hops = 0
    while x is not None and hops < 8:
        hops += 1
        n = fn.nodes.get(x)
        if n is not None and n.get('k') == 'cast':
            x = resolve_local(fn, n['sub'])
            continue
        break
    return x


def _nul_bounded_length(fb, fn, nid, depth=0):
    """the expression is the distance from the start of a string to its first NUL byte (or to its end when there is none):
    strlen / strnlen, `find(p, p + n, 0) - p`, `memchr(p, 0, n) - p`, a conditional with such a branch, `+ const` of such a
    length, or a helper all of whose returns have this form."""
    if depth > 4:
        return False
    x = _unwrap(fn, nid)
    n = fn.nodes.get(x)
    if n is None:
        return False
    k = n.get('k')
    if k == 'call' and n.get('q') in _NUL_LENGTHS:
        return True
    if k == 'binop' and n.get('op') == '+':
        if fn.const_value(n['rhs']) is not None:
            return _nul_bounded_length(fb, fn, n['lhs'], depth + 1)
        if fn.const_value(n['lhs']) is not None:
            return _nul_bounded_length(fb, fn, n['rhs'], depth + 1)
        return False
    if k == 'binop' and n.get('op') == '-':
        l = fn.nodes.get(_unwrap(fn, n['lhs']))
        if l is not None and l.get('k') == 'call' and l.get('q') in _NUL_FINDERS:
            args = [a for a in l.get('args', []) if a is not None]
            zero = any(fn.const_value(a) == 0 for a in args[1:])
            same = bool(args) and deep_roots(fn, args[0]) == deep_roots(fn, n['rhs']) and bool(deep_roots(fn, n['rhs']))
            return zero and same
        return False
    if k == 'condop':
        return _nul_bounded_length(fb, fn, n['then'], depth + 1) or _nul_bounded_length(fb, fn, n['else'], depth + 1)
    if k == 'call' and n.get('u'):
        bodies = [g for g in fb.by_usr.get(n['u'], []) if g.has_cfg]
        if bodies:
            g = bodies[0]
            rets = _returns(g)
            return bool(rets) and all(_nul_bounded_length(fb, g, r['sub'], depth + 1) for r in rets)
    return False


def _overload_rejects_nul(fb, fn, sites):
    """every length-carrying append of the overload either sits behind a NUL scan whose other edge throws, or copies only up
    to the first NUL byte."""
    for (c, ps) in sites:
        subj = {('var', d) for d in ps}
        args = [a for a in c.get('args', []) if a is not None]
        if len(args) >= 2 and _nul_bounded_length(fb, fn, args[1]):
            continue
        pe = _nul_scan_edges(fn, subj)
        if reaches_unchecked(fn, ['entry'], [c['id']], pe) is not None:
            return False
    return True


def _producer_ok(fb, g, idx, memo, depth=0):
    """every byte g appends to its std::string& parameter idx is provably non-NUL."""
    key = (g.usr, idx)
    if key in memo:
        return memo[key]
    memo[key] = True     # optimistic for recursion
    ok = True
    if idx >= len(g.params) or depth > 5:
        memo[key] = False
        return False
    d = g.params[idx]['d']

    def is_p(nid):
        n = g.sn(nid)
        return n is not None and n.get('k') == 'var' and n.get('d') == d
    for c in g.all_nodes():
        if c.get('k') not in ('call', 'construct') or 'q' not in c:
            continue
        if c.get('recv') is not None and is_p(c['recv']):
            name = _method_name(c['q'])
            if name in _STR_NEUTRAL:
                continue
            args = [a for a in c.get('args', []) if a is not None]
            if name in ('operator+=', 'push_back') and len(args) == 1:
                if not _nonzero_char(g, args[0], c['id']):
                    ok = False
                continue
            ok = False
            continue
        for i, a in enumerate(c.get('args', []) or []):
            if a is None or not is_p(a):
                continue
            if c['q'] == 'std::back_inserter':
                # the iterator is handed to a code-point encoder: the code point must be tested non-zero
                pm = g.parent_map()
                x = c['id']
                outer = None
                hops = 0
                while x in pm and hops < 8:
                    x = pm[x]
                    hops += 1
                    if g.nodes[x].get('k') == 'call' and g.nodes[x]['id'] != c['id']:
                        outer = g.nodes[x]
                        break
                if outer is None or not outer.get('args'):
                    ok = False
                    continue
                vr = {r for r in local_roots(g, outer['args'][0]) if r[0] == 'var'}
                good = False
                for (cn, sense, _b) in guards(g, outer['id']):
                    p = cmp_parts(g, cn)
                    if p and local_roots(g, p[1]) == vr and g.const_value(p[2]) == 0:
                        if (p[0] == '==' and not sense) or (p[0] == '!=' and sense) or (p[0] == '>' and sense):
                            good = True
                if not good:
                    ok = False
                continue
            tg = fb.by_usr.get(c.get('u'), [])
            if not tg:
                ok = False
                continue
            for h in tg[:1]:
                if not _producer_ok(fb, h, i, memo, depth + 1):
                    ok = False
    memo[key] = ok
    return ok


def _nonzero_char(g, aid, at):
    v = g.const_value(aid)
    if v is not None:
        return v != 0
    n = g.nodes.get(_unwrap(g, aid))
    if n is not None and n.get('k') == 'unop' and n.get('op') == '*':
        pv = local_roots(g, n['sub'])
        for (cn, sense, _b) in guards(g, at):
            p = cmp_parts(g, cn)
            if p is None:
                # plain truth test of the character: `if (c)` / `if (!*s) break;`
                l = g.nodes.get(_unwrap(g, cn))
                if l is not None and l.get('k') == 'unop' and l.get('op') == '*' and local_roots(g, l['sub']) == pv and sense:
                    return True
                continue
            for (a, b) in ((p[1], p[2]), (p[2], p[1])):
                l = g.nodes.get(_unwrap(g, a))
                if l is not None and l.get('k') == 'unop' and l.get('op') == '*' and local_roots(g, l['sub']) == pv and g.const_value(b) == 0:
                    if (p[0] == '==' and not sense) or (p[0] == '!=' and sense):
                        return True
    return False


def nul_layout(fb, R):
    rule = 'NUL-tag-strings-have-no-interior-nul'
    # premise: Tag walks its strings by searching for the terminator
    walkers = [f for f in fb.fns('osmium::Tag::after_null') + fb.fns('osmium::Tag::next') + fb.fns('osmium::Tag::value')]
    scans = any(c.get('q') in ('strchr', 'std::strchr', 'strlen', 'std::strlen', 'rawmemchr', 'memchr', 'std::memchr')
                for f in walkers for c in f.all_nodes() if c.get('k') == 'call')
    if not walkers or not scans:
        R.broken('osmium::Tag no longer locates its strings by scanning for NUL: the NUL-layout rule needs to be re-derived')
        return
    ovs = _length_carrying_overloads(fb)
    if not ovs:
        R.broken('no length-carrying TagListBuilder::add_tag overload found')
        return
    safe = {u: _overload_rejects_nul(fb, fn, sites) for u, (fn, sites) in ovs.items()}
    # string table entries NUL-free?  (alternative fix location)
    table_ok = False
    rec = fb.record(PBD)
    F = next((f['name'] for f in rec.fields if f['tC'].startswith('std::vector<std::pair<const char *')), None) if rec else None
    for fn in fb.functions:
        if fn.cls == PBD and fn.has_cfg and F:
            for c in fn.all_nodes():
                if c.get('k') == 'call' and _method_name(c.get('q', '')) in _INSERT and _recv_field(fn, c) == F:
                    subj = {r for a in c.get('args', []) if a is not None for r in local_roots(fn, a) if r[0] == 'var'}
                    pe = _nul_scan_edges(fn, subj)
                    starts = [d for r in subj for d in starts_for(fn, r[1])]
                    table_ok = bool(pe) and reaches_unchecked(fn, starts, [c['id']], pe) is None
    memo = {}
    n = 0
    for fn in fb.functions:
        if not fn.has_cfg or not _parser_file(fn):
            continue
        for c in fn.all_nodes():
            if c.get('k') != 'call' or c.get('u') not in ovs:
                continue
            ov = ovs[c['u']][0]
            n += 1
            key = '%s#add_tag%s' % (fn.q, sig(ov))
            if safe[c['u']]:
                R.ok(rule, key, fn.loc(c['id']), 'the overload rejects interior NUL bytes or copies only up to the first one')
                continue
            # origin of the string arguments
            rs = set()
            for a in c.get('args', []):
                if a is not None:
                    rs |= {r for r in local_roots(fn, a) if r[0] == 'var'}
            verdict = None
            why = ''
            unknown = []
            for r in sorted(rs, key=lambda r: var_name(fn, r[1])):
                origin = _origin(fb, fn, r[1], F, memo)
                if origin == 'table':
                    if not table_ok:
                        verdict = False
                        why = ('%s is an entry of the PBF string table (length-delimited bytes from the file, may contain NUL) and is copied with its '
                               'length; Tag::next()/value() then walk by strchr and leave the item' % var_name(fn, r[1]))
                elif origin == 'nulfree':
                    pass
                elif origin == 'producer':
                    verdict = False
                    why = why or ('%s is a std::string filled by a parser helper that can append a NUL byte (every append must be a non-zero '
                                  'constant, a character tested != 0, or a code point tested != 0)' % var_name(fn, r[1]))
                else:
                    unknown.append(var_name(fn, r[1]))
            if verdict is None and unknown:
                R.broken('%s: origin of add_tag argument(s) %s is of an unknown kind; the NUL-layout rule cannot decide this call' % (fn.q, ', '.join(unknown)))
                continue
            R.check(verdict is None, rule, key, fn.loc(c['id']), why)
    if n == 0:
        R.broken('no parser call of a length-carrying add_tag overload found')


def _origin(fb, fn, d, F, memo):
    """'table' (reference to a string-table entry), 'nulfree' (std::string local only written by verified producers),
    'producer' (std::string local with a writer that may append NUL), None (unknown kind)."""
    for n in fn.all_nodes():
        if n.get('k') == 'decl':
            for v in n['vars']:
                if v['d'] != d:
                    continue
                if isinstance(v.get('init'), int):
                    for x in fn.subtree(v['init']):
                        m = fn.nodes[x]
                        if m.get('k') == 'call' and _recv_field(fn, m) == F and F is not None:
                            return 'table'
                if not v['tC'].startswith(('std::basic_string<char', 'std::__cxx11::basic_string<char', 'std::string')):
                    return None
                # every writer of the local
                ok = True
                for c in fn.all_nodes():
                    if c.get('k') not in ('call', 'construct') or 'q' not in c:
                        continue
                    if c.get('recv') is not None and (fn.sn(c['recv']) or {}).get('d') == d:
                        if _method_name(c['q']) not in _STR_NEUTRAL:
                            ok = False
                        continue
                    for i, a in enumerate(c.get('args', []) or []):
                        if a is None or (fn.sn(a) or {}).get('d') != d or (fn.sn(a) or {}).get('k') != 'var':
                            continue
                        tg = fb.by_usr.get(c.get('u'), [])
                        if not tg:
                            ok = False
                            continue
                        g = tg[0]
                        if i < len(g.params) and g.params[i]['tC'].startswith('const '):
                            continue
                        if not _producer_ok(fb, g, i, memo):
                            ok = False
                return 'nulfree' if ok else 'producer'
    return None



# ------------------------------------------------------------------------------------------------ TS  XML state machine

_OPENER = 'osmium::builder::ChangesetDiscussionBuilder::add_comment'
_CLOSER = 'osmium::builder::ChangesetDiscussionBuilder::add_comment_text'


class _Cases:
    """Regions of an element handler that run for one value of the context enumeration: `case context::x:` of a switch
    (with fall-through) or the branch taken when an equality test against `context::x` (or a disjunction of such tests)
    succeeds in an if-chain."""

    def __init__(self, fn):
        self.fn = fn
        self.entries = {}           # enumerator name -> [(entry block id, 'label' | 'branch')]
        negative = {}               # enumerator name -> blocks that run only when the context is NOT that value
        dom = fn.dominators()
        for b in fn.blocks.values():
            lab = b.get('label') or {}
            if 'case' in lab:
                n = fn.sn(lab['case'])
                if n is not None and n.get('k') == 'var' and n.get('vk') == 'enumconst' and '::context::' in (n.get('q') or ''):
                    self.entries.setdefault(n['name'], []).append((b['id'], 'label'))
        for b in fn.blocks.values():
            if 'cond' not in b or len(b['succs']) != 2 or b.get('termcls') == 'SwitchStmt':
                continue
            for idx, sense in ((0, True), (1, False)):
                names = self._names(b['cond'], sense)
                s2 = b['succs'][idx]
                if names and s2 is not None and len(fn.preds().get(s2, [])) == 1:
                    for nm in names:
                        self.entries.setdefault(nm, []).append((s2, 'branch'))
                    other = b['succs'][1 - idx]
                    if len(names) == 1 and other is not None and len(fn.preds().get(other, [])) == 1:
                        nm = list(names)[0]
                        negative.setdefault(nm, set()).update(x for x in fn.blocks if x == other or other in dom.get(x, ()))
        # a `case x:` that can only be reached after `ctx == x` failed is dead
        for nm, lst in self.entries.items():
            self.entries[nm] = [(e, k) for (e, k) in lst if not (k == 'label' and e in negative.get(nm, ()))] or lst
        self.label_block = {nm: lst[0][0] for nm, lst in self.entries.items() if lst}
        self._region = {}

    def _names(self, cond, sense, depth=0):
        """enumerator names N such that `cond == sense` implies context in N, else None."""
        fn = self.fn
        c = fn.strip(cond)
        n = fn.nodes.get(c)
        if n is None or depth > 10:
            return None
        if n.get('k') == 'unop' and n.get('op') == '!':
            return self._names(n['sub'], not sense, depth + 1)
        if n.get('k') == 'binop' and n.get('op') in ('&&', '||'):
            l = self._names(n['lhs'], sense, depth + 1)
            r = self._names(n['rhs'], sense, depth + 1)
            both_known = (n['op'] == '&&') == sense
            if both_known:
                return l or r
            return (l | r) if (l and r) else None
        p = cmp_parts(fn, c)
        if p is None or p[0] not in ('==', '!=') or (p[0] == '==') != sense:
            return None
        for side in (p[1], p[2]):
            m = fn.sn(side)
            if m is not None and m.get('k') == 'var' and m.get('vk') == 'enumconst' and '::context::' in (m.get('q') or ''):
                return {m['name']}
        return None

    def starts(self, name):
        return [e for (e, _k) in self.entries.get(name, [])]

    def region(self, name):
        """blocks executed for context `name`, up to and including the block that breaks / returns / throws."""
        if name in self._region:
            return self._region[name]
        fn = self.fn
        out = set()
        dom = fn.dominators()
        for (e, kind) in self.entries.get(name, []):
            if kind == 'branch':
                out |= {x for x in fn.blocks if x != fn.exit and (x == e or e in dom.get(x, ()))}
            else:
                seen = set()
                work = [e]
                while work:
                    b = work.pop()
                    if b in seen or b == fn.exit:
                        continue
                    seen.add(b)
                    if fn.blocks[b].get('termcls') == 'BreakStmt':
                        continue
                    work.extend(fn.succs(b))
                out |= seen
        self._region[name] = out
        return out

    def case_of(self, nid):
        """enumerator names whose region contains node nid."""
        pos = self.fn.positions()
        if nid not in pos:
            return []
        b = pos[nid][0]
        return sorted(k for k in self.label_block if b in self.region(k))


def _builder_fields(fb):
    rec = fb.record(XMLP)
    if rec is None:
        return None
    derived = {r.q for r in fb.derived_from(BUILDER)}
    out = {}
    for f in rec.fields:
        t = f['tC']
        if t.startswith('std::unique_ptr<'):
            inner = t[len('std::unique_ptr<'):].split('<')[0].split(',')[0].rstrip('>').strip()
            if inner in derived:
                out[f['name']] = inner
    return out


class _Ev:
    """one protocol event: kind in open / reset / use / commit / push / opener / closer, on builder member `field`, at node
    `node` of the analysed function; `inner` = (callee Fn, node in the callee) when it happens inside a member helper."""
    __slots__ = ('kind', 'field', 'node', 'extra', 'inner')

    def __init__(self, kind, field, node, extra=None, inner=None):
        self.kind, self.field, self.node, self.extra, self.inner = kind, field, node, extra, inner


def _context_pushed(fn, c):
    if c.get('k') == 'call' and _method_name(c.get('q', '')) == 'push_back' and c.get('args'):
        a = fn.sn(c['args'][0])
        if a is not None and a.get('k') == 'var' and a.get('vk') == 'enumconst' and '::context::' in (a.get('q') or ''):
            return a['name']
    return None


def _field_events(fb, fn, fields, depth=2):
    """protocol events of fn; member helpers of XMLParser contribute theirs at the call node (one level): obligations
    (open / use / opener / push) whenever they can happen, discharges (reset / commit / closer) only when they happen on
    every normal path through the helper."""
    ev = []
    for c in fn.all_nodes():
        if c.get('k') != 'call' or 'q' not in c:
            continue
        f = _recv_field(fn, c)
        name = _method_name(c['q'])
        pushed = _context_pushed(fn, c)
        if pushed is not None:
            ev.append(_Ev('push', None, c['id'], pushed))
        elif c['q'] == 'osmium::memory::Buffer::commit':
            ev.append(_Ev('commit', None, c['id']))
        elif f in fields:
            rn = fn.sn(c['recv']) if c.get('recv') is not None else None
            direct = rn is not None and rn.get('k') == 'member' and rn.get('field')
            if direct and name == 'reset' and c['q'].startswith('std::unique_ptr'):
                has_arg = any(a is not None and fn.const_value(a) is None and (fn.sn(a) or {}).get('k') != 'lit' for a in c.get('args', []))
                ev.append(_Ev('open' if has_arg else 'reset', f, c['id']))
            elif direct and c.get('op') == '=' and c['q'].startswith('std::unique_ptr'):
                mk = [fn.nodes[x] for a in c.get('args', []) if a is not None for x in fn.subtree(a)
                      if fn.nodes[x].get('k') == 'call' and fn.nodes[x].get('q') in ('std::make_unique',) or fn.nodes[x].get('k') == 'new']
                if mk:
                    ev.append(_Ev('open', f, c['id'], mk[0]))
                else:
                    ev.append(_Ev('reset', f, c['id']))
            elif not c['q'].startswith('std::unique_ptr') and (c.get('rcls') or '').startswith('osmium::builder::'):
                kind = 'opener' if c['q'] == _OPENER else 'closer' if c['q'] == _CLOSER else None
                ev.append(_Ev('use', f, c['id'], c['q']))
                if kind:
                    ev.append(_Ev(kind, f, c['id'], c['q']))
        elif depth > 0 and c.get('rcls') == XMLP and c.get('u'):
            for g in fb.by_usr.get(c['u'], [])[:1]:
                if not g.has_cfg:
                    continue
                for e2 in _field_events(fb, g, fields, depth - 1):
                    if e2.kind in ('reset', 'commit', 'closer'):
                        el = elem_of(g, e2.node)
                        if el is None or must_pass(g, g.entry, [el]) is not None:
                            continue
                    ev.append(_Ev(e2.kind, e2.field, c['id'], e2.extra, (g, e2.node)))
    return ev


def _before(fn, a, b):
    """event a always happens before event b"""
    if a.node != b.node:
        return fn.elem_dominates(a.node, b.node)
    if a.inner is not None and b.inner is not None and a.inner[0] is b.inner[0]:
        return a.inner[0].elem_dominates(a.inner[1], b.inner[1])
    return False


def _is_open_test(fn, cid, fields):
    """the condition is a test of protocol state: a bool / pointer member (flag, `m_comment`-like pointer), or a query on
    one of the builder members -- as opposed to a test of the data (text empty, element name)."""
    x = cid
    hops = 0
    while hops < 6:
        hops += 1
        n = fn.sn(x)
        if n is None:
            return False
        if n.get('k') == 'unop' and n.get('op') == '!':
            x = n['sub']
            continue
        if n.get('k') == 'member' and n.get('field') and fn.is_this_member(x):
            t = n.get('t') or ''
            return t in ('bool', 'const bool') or t.endswith('*') or n['name'] in fields
        if n.get('k') == 'call':
            f = _recv_field(fn, n)
            if f in fields:
                return True
            if n.get('recv') is not None and _method_name(n.get('q', '')) in ('(conv)', 'operator bool', 'load'):
                x = n['recv']
                continue
            return False
        if n.get('k') == 'binop' and n.get('op') in ('==', '!='):
            if fn.const_value(n['rhs']) is not None or (fn.sn(n['rhs']) or {}).get('null'):
                x = n['lhs']
                continue
            return False
        return False
    return False


def _gate_texts(fn, ev):
    """canonical texts of the read_types() conditions under which an event happens (outer function and helper)."""
    out = {fn.expr(cn) for (cn, sense, _b) in guards(fn, ev.node) if sense and 'read_types' in fn.expr(cn)}
    if ev.inner is not None:
        g, n = ev.inner
        out |= {g.expr(cn) for (cn, sense, _b) in guards(g, n) if sense and 'read_types' in g.expr(cn)}
    return out


def ts_xml(fb, R):
    fields = _builder_fields(fb)
    if not fields:
        R.broken('XMLParser builder members not found')
        return
    starts = fb.fns(XMLP + '::start_element')
    ends = fb.fns(XMLP + '::end_element')
    if not starts or not ends:
        R.broken('XMLParser::start_element / end_element not found')
        return
    sfn, efn = starts[0], ends[0]
    sc, ec = _Cases(sfn), _Cases(efn)
    if not sc.label_block or not ec.label_block:
        R.broken('XMLParser: no dispatch over the context enumeration (switch or equality chain) found in the element handlers')
        return
    spos, epos = sfn.positions(), efn.positions()
    sev = _field_events(fb, sfn, fields)
    eev = _field_events(fb, efn, fields)
    # object builders: opened from the buffer, linked to the context pushed next to them
    obj = {}        # context name -> object builder field
    for fn in fb.functions:
        if fn.cls != XMLP or not fn.has_cfg or fn.is_lambda:
            continue
        evs = _field_events(fb, fn, fields, depth=0)
        pushes = [e for e in evs if e.kind == 'push']
        for ev in evs:
            if ev.kind != 'open' or not isinstance(ev.extra, dict):
                continue
            from_buffer = any(fn.nodes[x].get('k') == 'call' and _method_name(fn.nodes[x].get('q', '')) == 'buffer'
                              for a in ev.extra.get('args', []) if a is not None for x in fn.subtree(a))
            if not from_buffer:
                continue
            doms = [p for p in pushes if fn.elem_dominates(p.node, ev.node)]
            if len(doms) != 1:
                R.broken('%s: cannot link the construction of %s to exactly one pushed context' % (fn.q, ev.field))
                continue
            obj[doms[0].extra] = ev.field
    if not obj:
        R.broken('XMLParser: no object builder construction found')
        return
    # ---- sub-builders per context (start_element regions)
    sub = {}        # context -> {field: [event]}
    for ctxname, ofield in obj.items():
        reg = sc.region(ctxname)
        evs = [e for e in sev if spos.get(e.node, (None,))[0] in reg]
        cur = {}
        for e in evs:
            if e.kind in ('open', 'use') and e.field != ofield and e.field not in obj.values():
                cur.setdefault(e.field, []).append(e)
        sub[ctxname] = cur
        resets = [e for e in evs if e.kind == 'reset']
        for f, lst in cur.items():
            for other in cur:
                if other == f:
                    continue
                ok = all(any(r.field == other and _before(sfn, r, e) for r in resets) for e in lst)
                R.check(ok, 'TS-sibling-builder-reset-first', '%s#context::%s:%s-requires-reset-of:%s' % (sfn.q, ctxname, f, other), sfn.loc(lst[0].node),
                        'inside <%s> the sub-builder %s is created / used while %s may still be open: both append to the same buffer, the older '
                        'one must be reset() (padding written, sizes propagated) first' % (ctxname, f, other))
    # ---- end_element: close order
    for ctxname, ofield in obj.items():
        reg = ec.region(ctxname)
        key0 = '%s#context::%s' % (efn.q, ctxname)
        if not reg:
            R.bad('TS-end-closes-builders', key0 + ':closes:' + ofield, efn.site, 'end_element has no case for context %s' % ctxname)
            continue
        evs = [e for e in eev if epos.get(e.node, (None,))[0] in reg]
        oreset = [e for e in evs if e.kind == 'reset' and e.field == ofield]
        R.check(bool(oreset), 'TS-end-closes-builders', key0 + ':closes:' + ofield, efn.site,
                'the end of <%s> does not reset %s: the next object would be built while this builder is alive' % (ctxname, ofield))
        for f in sorted(sub.get(ctxname, {})):
            rs = [e for e in evs if e.kind == 'reset' and e.field == f]
            ok = bool(rs) and bool(oreset) and all(any(_before(efn, r, o) for r in rs) for o in oreset)
            R.check(ok, 'TS-end-closes-builders', key0 + ':closes:%s-before:%s' % (f, ofield), efn.site,
                    'the end of <%s> must reset the sub-builder %s before the object builder %s (its destructor writes padding and adds its size '
                    'to the parent it points to; afterwards that parent is gone)' % (ctxname, f, ofield))
        commits = [e for e in evs if e.kind == 'commit']
        ok = bool(commits) and bool(oreset) and all(any(_before(efn, o, c) for o in oreset) for c in commits)
        R.check(ok, 'TS-end-closes-builders', key0 + ':commit-after-close', efn.site,
                'the end of <%s> must commit the buffer after the object builder was reset (committing an object whose padding is not yet written)' % ctxname)
    # ---- declaration order: a member that owns a sub-builder is declared after the member that owns its parent builder,
    # so that it is destroyed first when the parser object dies with builders still open (run() left by an exception)
    rec = fb.record(XMLP)
    order = {f['name']: f['idx'] for f in rec.fields} if rec is not None else {}
    parents = {}        # sub-builder field -> {parent field: site}
    for fn in fb.functions:
        if fn.cls != XMLP or not fn.has_cfg or fn.is_lambda:
            continue
        for ev in _field_events(fb, fn, fields, depth=0):
            if ev.kind != 'open' or not isinstance(ev.extra, dict):
                continue
            for a in ev.extra.get('args', []) or []:
                if a is None:
                    continue
                for x in fn.subtree(a):
                    n = fn.nodes[x]
                    if n.get('k') == 'member' and n.get('field') and n['name'] in fields and fn.is_this_member(x) and n['name'] != ev.field:
                        parents.setdefault(ev.field, {}).setdefault(n['name'], fn.loc(ev.node))
                    elif n.get('k') == 'var' and n.get('vk') == 'param':
                        # the parent is handed in by the callers (get_tag(*m_way_builder, ...))
                        pi = next((i for i, p in enumerate(fn.params) if p['d'] == n['d']), None)
                        if pi is None:
                            continue
                        for g in fb.functions:
                            if g.cls != XMLP or not g.has_cfg:
                                continue
                            for c in g.all_nodes():
                                if c.get('k') == 'call' and c.get('u') == fn.usr and pi < len(c.get('args', []) or []) and c['args'][pi] is not None:
                                    for y in g.subtree(c['args'][pi]):
                                        m = g.nodes[y]
                                        if m.get('k') == 'member' and m.get('field') and m['name'] in fields and g.is_this_member(y) and m['name'] != ev.field:
                                            parents.setdefault(ev.field, {}).setdefault(m['name'], g.loc(c['id']))
    if not parents:
        R.broken('XMLParser: no sub-builder construction with a parent builder found')
    for subf in sorted(parents):
        for parf in sorted(parents[subf]):
            ok = subf in order and parf in order and order[subf] > order[parf]
            R.check(ok, 'TS-sub-builder-declared-after-parent', '%s#member-order:%s-after:%s' % (XMLP, subf, parf),
                    '%s:%d' % (rec.file, rec.line) if rec is not None else parents[subf][parf],
                    '%s owns a builder constructed on the builder owned by %s (%s) but is declared before it: members are destroyed in reverse '
                    'declaration order, so when the parser is destroyed with both open (run() left by an exception inside an object) the '
                    'parent is freed first and the sub-builder destructor writes padding / sizes through its dangling parent pointer'
                    % (subf, parf, parents[subf][parf]))
    # ---- add_comment obligation
    openers = [e for e in sev if e.kind == 'opener']
    if not openers:
        R.broken('XMLParser::start_element: no call of add_comment found')
    spushes = [e for e in sev if e.kind == 'push']
    for oc in openers:
        pushes = sorted({p.extra for p in spushes if _before(sfn, p, oc)})
        if len(pushes) != 1:
            R.broken('XMLParser::start_element: add_comment is not paired with exactly one pushed context')
            continue
        X = pushes[0]
        closers = [e for e in eev if e.kind == 'closer']
        gate = _gate_texts(sfn, oc)
        reg = ec.region(X)
        key = '%s#context::%s:add_comment' % (efn.q, X)
        if not reg:
            R.bad('TS-comment-obligation-closed', key, efn.site, 'end_element has no case for context %s' % X)
            continue
        pruned = set()
        for b in reg:
            blk = efn.blocks[b]
            if 'cond' in blk and len(blk['succs']) == 2 and efn.expr(blk['cond']) in gate:
                pruned.add((b, 1))
        # a closer guarded by an "is still open" test: the other edge of that test needs no closer
        for ce in closers:
            for (cn, sense, b) in guards(efn, ce.node):
                if b in reg and efn.expr(cn) not in gate and _is_open_test(efn, cn, fields):
                    pruned.add((b, 1 if sense else 0))
        w = None
        for st_b in ec.starts(X):
            w = w or _region_escape(efn, st_b, reg, {ce.node for ce in closers}, pruned)
        lb = efn.blocks[ec.label_block[X]]
        R.check(w is None, 'TS-comment-obligation-closed', key, efn.loc(lb['elems'][0]) if lb['elems'] else efn.site,
                'start_element calls add_comment() when it pushes context::%s, but the end of that element can be reached without add_comment_text() '
                '(e.g. <comment/> without <text>): the comment keeps text_size 0 and no padding, traversal of the delivered changeset leaves the item' % X)
        # closer runs at most once per opener
        for ce in closers:
            ys = ec.case_of(ce.node)
            if not ys:
                R.broken('XMLParser::end_element: add_comment_text outside the context dispatch')
                continue
            for Y in ys:
                state_guard = any(efn.expr(cn) not in gate and _is_open_test(efn, cn, fields)
                                  for (cn, sense, b) in guards(efn, ce.node) if b in ec.region(Y))
                push_guard = False
                for pe_ in spushes:
                    if pe_.extra == Y and pe_.inner is None:
                        for (cn, sense, b) in guards(sfn, pe_.node):
                            if any(sfn.nodes[x].get('k') == 'member' and sfn.nodes[x].get('field') and sfn.nodes[x]['name'] != 'm_context_stack'
                                   and sfn.is_this_member(x) for x in sfn.subtree(cn)) and 'read_types' not in sfn.expr(cn):
                                push_guard = True
                R.check(Y == X or state_guard or push_guard, 'TS-comment-closer-once', '%s#context::%s:add_comment_text' % (efn.q, Y), efn.loc(ce.node),
                        'add_comment_text() runs at the end of every <%s> element, but the obligation was opened once by the enclosing <%s>: a second <%s> '
                        'calls it with no open comment (null dereference), none leaves the comment open' % (Y, X, Y))
    if any(e.kind == 'closer' for e in sev):
        R.broken('XMLParser::start_element calls add_comment_text: unknown protocol shape')


def _region_escape(fn, start, region, barrier_nodes, pruned_edges):
    """block path from `start` that leaves the region (break / fall out / function exit) without executing a barrier call."""
    pos = fn.positions()
    bar_blocks = {pos[n][0] for n in barrier_nodes if n in pos}
    seen = set()
    work = [(start, [start])]
    while work:
        b, path = work.pop()
        if b in seen:
            continue
        seen.add(b)
        if b in bar_blocks:
            continue
        if b not in region or b == fn.exit:
            return path
        blk = fn.blocks[b]
        if blk.get('termcls') == 'BreakStmt':
            return path
        ends_in_throw = any(fn.nodes[e].get('k') == 'throw' or (fn.nodes[e].get('k') == 'call' and (fn.nodes[e].get('q') or fn.nodes[e].get('name') or '')
                                                                     in ('__assert_fail', 'abort', 'std::abort', 'std::terminate', '__builtin_unreachable'))
                            for e in blk['elems'])
        if ends_in_throw:
            continue
        for idx, s in enumerate(blk['succs']):
            if s is None or (b, idx) in pruned_edges:
                continue
            work.append((s, path + [s]))
    return None


# ------------------------------------------------------------------------------------------------ P1 prefix discipline

def _text_parser_file(fn):
    if _SELFTEST[0]:
        return True
    f = fn.file
    base = f.rsplit('/', 1)[-1]
    if '/osmium/osm/' in f or f.endswith('/osmium/opl.hpp'):
        return True
    return '/io/detail/' in f and not base.startswith(('pbf', 'o5m', 'protobuf'))       # binary formats index sized buffers, not C strings


def p1_prefix_discipline(fb, R):
    rule = 'P1-fixed-position-read-after-prefix-validated'
    seen = set()
    for fn in fb.functions:
        if not fn.has_cfg or not _text_parser_file(fn) or (fn.q, fn.pat) in seen:
            continue
        seen.add((fn.q, fn.pat))
        bases = {}
        for n in fn.all_nodes():
            if n.get('k') == 'index':
                b = fn.sn(n['base'])
                k = fn.const_value(n['idx'])
                if b is not None and b.get('k') == 'var' and b.get('vk') in ('local', 'param') and (b.get('t') or '') in _PSTR_T and k is not None and k >= 1:
                    bases[b['d']] = b['name']
        for d, name in bases.items():
            ds = definitions(fn, d)
            if len(ds) > 1 or (ds and any(p['d'] == d for p in fn.params)):
                continue        # a moving pointer: indices are relative to changing positions (cursor rules apply instead)
            # reads through a callee: the pointer behind a `const char**` parameter was taken as p and then advanced by a
            # constant; a call that receives that parameter reads from p[K] on
            extra = []
            init = None
            for n in fn.all_nodes():
                if n.get('k') == 'decl':
                    for v in n['vars']:
                        if v['d'] == d and isinstance(v.get('init'), int):
                            init = fn.sn(v['init'])
            if init is not None and init.get('k') == 'unop' and init.get('op') == '*':
                sv = fn.sn(init['sub'])
                if sv is not None and sv.get('k') == 'var':
                    for a in fn.all_nodes():
                        if a.get('k') == 'assign' and a.get('op') == '+=' and fn.const_value(a['rhs']) is not None:
                            l = fn.sn(a['lhs'])
                            if l is not None and l.get('k') == 'unop' and l.get('op') == '*' and (fn.sn(l['sub']) or {}).get('d') == sv['d']:
                                K = fn.const_value(a['rhs'])
                                for c in fn.all_nodes():
                                    if c.get('k') == 'call' and c.get('u') and fb.by_usr.get(c['u']) and fn.elem_dominates(a['id'], c['id']) \
                                            and any(x is not None and (fn.sn(x) or {}).get('k') == 'var' and (fn.sn(x) or {}).get('d') == sv['d'] for x in c.get('args', [])):
                                        extra.append((c['id'], K))
            bad, reads = PrefixFlow(fn, d, fb).run(extra)
            if not reads:
                continue
            msg = ''
            if bad:
                nid, k, missing = sorted(bad, key=lambda t: (fn.nodes[t[0]].get('l', 0), t[1]))[0]
                what = '%s[%d]' % (name, k) if fn.nodes[nid].get('k') != 'call' else 'the call of %s (reads from %s[%d] on)' % (fn.nodes[nid].get('q'), name, k)
                msg = ('%s is read at %s although %s[%s] %s not been tested non-NUL on every path to it: a string that ends earlier (truncated '
                       'input) is read past its terminator' % (what, fn.loc(nid), name, ','.join(str(i) for i in missing[:6]) + ('..' if len(missing) > 6 else ''),
                                                               'have' if len(missing) > 1 else 'has'))
            R.check(not bad, rule, '%s#fixed-position-reads:%s' % (fn.q, name), fn.site, msg)


# ------------------------------------------------------------------------------------------------ G8 thrown types

_G8_DIRS = ('/osmium/io/', '/osmium/builder/', '/osmium/osm/', '/osmium/memory/', '/osmium/util/', '/osmium/osm.hpp', '/osmium/opl.hpp')


def g8_throw_types(fb, R):
    seen = set()
    for fn in fb.functions:
        if not fn.has_cfg or not (_SELFTEST[0] or any(d in fn.file for d in _G8_DIRS)):
            continue
        for n in fn.all_nodes():
            if n.get('k') != 'throw' or n.get('rethrow'):
                continue
            tt = n.get('tt')
            key = '%s#throw:%s' % (fn.q, tt or '?')
            if (key, fn.pat) in seen:
                continue
            seen.add((key, fn.pat))
            if not tt:
                R.broken('%s: throw expression of unknown type at %s' % (fn.q, fn.loc(n['id'])))
                continue
            ok = tt == 'std::exception' or 'std::exception' in n.get('bases', [])
            R.check(ok, 'G8-throws-std-exception', key, fn.loc(n['id']),
                    '%s throws %s, which does not derive from std::exception (callers of Reader::read() are promised std::exception)' % (fn.q, tt))


# ------------------------------------------------------------------------------------------------ A1 who may abort

_ABORTERS = ('abort', 'std::abort', 'std::terminate', 'terminate', 'exit', 'std::exit', '_exit', '_Exit', 'std::_Exit', 'quick_exit', 'std::quick_exit')
# function -> (callee, reason)
_MAY_ABORT = {
    'osmium::io::detail::decode_blob': ('abort', 'after the compression switch; unreachable because an empty compressed_data throws first (value argument, only recorded)'),
    'osmium::io::Reader::execute': ('exit', 'forked child that failed to exec'),
}


def a1_who_may_abort(fb, R):
    for fn in fb.functions:
        if not fn.has_cfg:
            continue
        for c in fn.all_nodes():
            if c.get('k') != 'call':
                continue
            q = c.get('q') or c.get('name') or ''
            if q not in _ABORTERS:
                continue
            base = q.rsplit('::', 1)[-1]
            key = '%s#%s' % (fn.q, base)
            allow = _MAY_ABORT.get(fn.q)
            ok = allow is not None and allow[0] == base
            if ok and fn.q.endswith('::execute'):
                # only in the child: guarded by pid == 0
                ok = any(sense and cmp_parts(fn, cn) is not None and fn.const_value(cmp_parts(fn, cn)[2]) == 0 and cmp_parts(fn, cn)[0] == '=='
                         for (cn, sense, _b) in guards(fn, c['id']))
            R.check(ok, 'A1-who-may-abort', key, fn.loc(c['id']),
                    '%s calls %s: process-terminating calls in the library are a frozen list (decode_blob after its switch, the forked child in '
                    'Reader::execute); hostile input must surface as an exception' % (fn.q, q))


def a1_abort_premise(fb, R):
    """decode_blob's abort() is accepted only because it is unreachable: (1) it can be reached only through the compression
    switch, by the case of the selector's initial value; (2) the selector is only ever assigned other values, and the payload
    view is only assigned together with the selector; (3) a test of the payload's emptiness alone whose empty edge throws lies
    on every path to the switch.  Then selector == initial value implies payload empty implies thrown."""
    rule = 'A1-abort-unreachable-premise'
    for fn in fb.fns('osmium::io::detail::decode_blob'):
        aborts = [c for c in fn.all_nodes() if c.get('k') == 'call' and (c.get('q') or c.get('name') or '') in _ABORTERS]
        if not aborts:
            continue
        key = fn.q + '#abort'
        pos = fn.positions()
        sws = [b for b in fn.blocks.values() if b.get('termcls') == 'SwitchStmt' and 'cond' in b]
        sel = None
        for b in sws:
            n = fn.sn(b['cond'])
            if n is not None and n.get('k') == 'var' and n.get('vk') == 'local':
                if any(path_search(fn, b['id'], lambda e, a=a: e == elem_of(fn, a['id']), lambda e: False, from_block_start=True) for a in aborts):
                    sel = (b, n['d'])
        if sel is None:
            R.bad(rule, key, fn.loc(aborts[0]['id']), 'abort() is not behind a switch over a local selector: the recorded unreachability argument does not apply')
            continue
        sw, E = sel
        v0 = None
        for n in fn.all_nodes():
            if n.get('k') == 'decl':
                for v in n['vars']:
                    if v['d'] == E and isinstance(v.get('init'), int):
                        v0 = fn.const_value(v['init'])
        msgs = []
        if v0 is None:
            msgs.append('the selector has no constant initial value')
        # (1) abort only through the initial-value case
        ok_edges = set()
        for idx, s2 in enumerate(sw['succs']):
            if s2 is None:
                continue
            lab = fn.blocks[s2].get('label') or {}
            if 'case' in lab and fn.const_value(lab['case']) == v0:
                ok_edges.add((sw['id'], idx))
        tg = {elem_of(fn, a['id']) for a in aborts}
        w = path_search(fn, fn.entry, lambda e: e in tg, lambda e: False, lambda b, i, s2: (b, i) not in ok_edges, from_block_start=True)
        if w is not None:
            msgs.append('abort() is reachable other than through the case of the selector\'s initial value: %s' % describe(fn, w))
        # (2) selector only leaves its initial value; payload only assigned together with it
        sel_blocks = set()
        for n in fn.all_nodes():
            if n.get('k') == 'assign':
                l = fn.sn(n['lhs'])
                if l is not None and l.get('k') == 'var' and l.get('d') == E:
                    cv = fn.const_value(n['rhs'])
                    if cv is None or cv == v0:
                        msgs.append('the selector is assigned a value that is not a constant different from its initial value at %s' % fn.loc(n['id']))
                    sel_blocks.add(pos[n['id']][0])
        # payload candidates: class-type locals assigned (operator=) in every selector block
        assigned = {}
        for n in fn.all_nodes():
            if n.get('k') == 'call' and n.get('op') == '=' and n.get('recv') is not None:
                r = fn.sn(n['recv'])
                if r is not None and r.get('k') == 'var' and r.get('vk') == 'local':
                    assigned.setdefault(r['d'], set()).add(pos[n['id']][0])
        payloads = [d for d, bl in assigned.items() if bl and bl <= sel_blocks and sel_blocks <= bl]
        if not payloads:
            msgs.append('no payload view that is assigned exactly where the selector is set')
        # (3) emptiness test of the payload alone on every path to the switch
        good = False
        for P in payloads:
            def is_empty(f, x, P=P):
                n = f.sn(x)
                return n is not None and n.get('k') == 'call' and _method_name(n.get('q', '')) == 'empty' and n.get('recv') is not None \
                    and (f.sn(n['recv']) or {}).get('d') == P

            def is_size(f, x, P=P):
                n = f.sn(x)
                return n is not None and n.get('k') == 'call' and _method_name(n.get('q', '')) in ('size', 'length') and n.get('recv') is not None \
                    and (f.sn(n['recv']) or {}).get('d') == P
            pe = classify_edges(fn, truthy(is_empty, want_true=False))
            pe |= classify_edges(fn, equals(is_size, _is0, want_equal=False))
            pe |= classify_edges(fn, lower_bound(is_size, _is01))
            tgt = sw['elems'][-1] if sw['elems'] else None
            if tgt is not None and pe and reaches_unchecked(fn, ['entry'], [tgt], pe) is None:
                good = True
        if payloads and not good:
            msgs.append('the compression switch can be reached with an empty payload: the test that throws for "no payload" must test the '
                        'emptiness of the payload alone and lie on every path to the switch (a Blob with raw_size but no data field would reach abort())')
        R.check(not msgs, rule, key, fn.loc(aborts[0]['id']), '; '.join(msgs))
    if not fb.fns('osmium::io::detail::decode_blob'):
        R.broken('decode_blob not found')


def run(ctx):
    R = ctx.R
    configs = ['ndebug14'] if ctx.tier == 'quick' else ['ndebug14', 'debug14', 'ndebug17', 'debug17']
    for cfg in configs:
        # the reader code is fully instantiated by io_read; `core` only adds builder / osm code the readers do not reach (more G8 sites)
        fb = ctx.facts(['io_read'] if ctx.tier == 'quick' else ['io_read', 'core'], cfg)
        esc = Esc(fb)
        g1_g2_stringtable(fb, R, esc)
        g3_builder_lengths(fb, R)
        g4_blobs(fb, R)
        g5_o5m(fb, R)
        g6_member_types(fb, R)
        g7_expat(fb, R, esc)
        g8_throw_types(fb, R)
        g9_utf8(fb, R)
        nul_layout(fb, R)
        ts_xml(fb, R)
        p1_prefix_discipline(fb, R)
        a1_who_may_abort(fb, R)
        a1_abort_premise(fb, R)
    # instance floors: counted by hand on the pristine tree (see the rule table in the module docstring)
    R.expect('G1-stringtable-access-is-at', 5)          # decode_info, build_tag_list, decode_relation, dense tags, dense user
    R.expect('G1-out_of_range-mapped', 2)
    R.expect('G2-stringtable-entry-length', 1)
    # required copies only: 3 add_tag overloads x key/value, add_role, add_user, add_text (append) + 2 set_user(ptr,len) raw copies.
    # The #narrow16 instances (4 on today's tree) exist only where the code narrows a length; a fix that removes a cast must not
    # break the floor, so they are not counted in it.
    R.expect('G3-builder-string-length-checked', 11)
    R.expect('G4-blob-sizes-bounded', 7)
    R.expect('G5-o5m-section-end-checked', 2)           # decode_way, decode_relation
    R.expect('G5-o5m-reference-table-bounds', 6)
    R.expect('G5-o5m-bytes-available', 3)
    R.expect('G5-o5m-cursor-deref-end-checked', 9)
    R.expect('G6-member-type-range-checked', 4)         # PBF, o5m, XML, OPL
    R.expect('G7-expat-callbacks-contained', 4)
    R.expect('G7-expat-exception-stored-and-parser-stopped', 1)
    R.expect('G7-expat-handler-not-run-after-error', 4)
    R.expect('G7-expat-entity-declarations-rejected', 1)
    R.expect('G7-expat-parse-error-rethrows-stored-first', 1)
    R.expect('G8-throws-std-exception', 100)
    R.expect('G9-utf8-length-test-before-continuation', 1)
    R.expect('G9-utf8-case-reads-its-length', 1)
    R.expect('NUL-tag-strings-have-no-interior-nul', 3)  # PBF x2, OPL
    R.expect('TS-sibling-builder-reset-first', 6)
    R.expect('TS-end-closes-builders', 15)
    R.expect('TS-comment-obligation-closed', 1)
    R.expect('TS-comment-closer-once', 1)
    R.expect('P1-fixed-position-read-after-prefix-validated', 3)   # parse_timestamp, string_to_ulong, XML k/v attribute names
    R.expect('A1-who-may-abort', 2)
    R.expect('A1-abort-unreachable-premise', 1)
    R.expect('TS-sub-builder-declared-after-parent', 7)  # tag list x 4 objects, way nodes, members, discussion


def _selftest(fb, R):
    _SELFTEST[0] = True
    try:
        esc = Esc(fb)
        g1_g2_stringtable(fb, R, esc)
        g3_builder_lengths(fb, R)
        g4_blobs(fb, R)
        g5_o5m(fb, R)
        g6_member_types(fb, R)
        g7_expat(fb, R, esc)
        g8_throw_types(fb, R)
        g9_utf8(fb, R)
        nul_layout(fb, R)
        p1_prefix_discipline(fb, R)
        a1_who_may_abort(fb, R)
        a1_abort_premise(fb, R)
    finally:
        _SELFTEST[0] = False


SELFTESTS = [(r, 'c03_guards.cpp', _selftest) for r in (
    'G1-stringtable-access-is-at', 'G1-out_of_range-mapped', 'G2-stringtable-entry-length', 'G3-builder-string-length-checked',
    'G4-blob-sizes-bounded', 'G5-o5m-section-end-checked', 'G5-o5m-reference-table-bounds', 'G5-o5m-bytes-available', 'G5-o5m-cursor-deref-end-checked',
    'G6-member-type-range-checked', 'G7-expat-callbacks-contained', 'G7-expat-exception-stored-and-parser-stopped', 'G7-expat-handler-not-run-after-error',
    'G7-expat-entity-declarations-rejected', 'G7-expat-parse-error-rethrows-stored-first', 'G8-throws-std-exception',
    'G9-utf8-length-test-before-continuation', 'G9-utf8-case-reads-its-length', 'NUL-tag-strings-have-no-interior-nul',
    'A1-who-may-abort', 'A1-abort-unreachable-premise', 'P1-fixed-position-read-after-prefix-validated')]


def _selftest_xml(fb, R):
    _SELFTEST[0] = True
    try:
        ts_xml(fb, R)
    finally:
        _SELFTEST[0] = False


SELFTESTS += [(r, 'c03_xml.cpp', _selftest_xml) for r in ('TS-sibling-builder-reset-first', 'TS-end-closes-builders',
                                                              'TS-comment-obligation-closed', 'TS-comment-closer-once',
                                                              'TS-sub-builder-declared-after-parent')]
